"""Seeded variants for the checker's self-test: each is one (or two) textual edits to /repo that still
compile; `expect` is a substring (or list of substrings) of "<rule>|<instance>" that must fire.
`benign: True` variants are behaviour-preserving refactors on which nothing may fire."""

PF = "ipa-core/src/ff/prime_field.rs"
GF = "ipa-core/src/ff/galois_field.rs"
ST = "ipa-core/src/query/state.rs"
PR = "ipa-core/src/query/processor.rs"

VARIANTS = [
    # ---------------- C08 ----------------
    dict(prop="C08", name="prime-composite", expect="CONST-prime|Fp32BitPrime",
         edits=[dict(file=PF, find="field_impl! { Fp32BitPrime, u32, u64, 32, 4_294_967_291 }", replace="field_impl! { Fp32BitPrime, u32, u64, 32, 4_294_967_295 }")]),
    dict(prop="C08", name="poly-bitflip", expect="CONST-irreducible|Gf32Bit",
         edits=[dict(file=GF, find="0b1_0000_0000_0000_0000_0000_0000_1000_1101_u128", replace="0b1_0000_0000_0000_0000_0000_0000_1000_1111_u128")]),
    dict(prop="C08", name="deserialize-le", expect="RANGE-invariant|Fp",
         edits=[dict(file=PF, find="if v < Self::PRIME {", replace="if v <= Self::PRIME {")]),
    dict(prop="C08", name="sub-reordered", expect="RANGE-no-overflow",
         edits=[dict(file=PF, find="Self::modulo_prime_base(c(Self::PRIME) + c(self.0) - c(rhs.0))", replace="Self::modulo_prime_base(c(self.0) - c(rhs.0) + c(Self::PRIME))")]),
    dict(prop="C08", name="neg-unreduced", expect="RANGE-invariant|Fp61BitPrime@<ff::prime_field::fp61bit::Fp61BitPrime as std::ops::Neg>::neg",
         edits=[dict(file=PF, find="Self((Self::PRIME - self.0) % Self::PRIME)", replace="Self(Self::PRIME - self.0)")]),
    dict(prop="C08", name="fold-once", expect="RANGE-invariant|Fp61BitPrime@ff::prime_field::fp61bit::Fp61BitPrime::modulo_prime_u128",
         edits=[dict(file=PF, find="""            let val = (val & PRIME) + (val >> Self::BITS);
            // two rounds""", replace="""            // two rounds""")]),
    dict(prop="C08", name="accumulator-interval", expect="CONST-accumulator",
         edits=[dict(file=PF, find="type Accumulator = Accumulator<Fp61BitPrime, u128, 64>;", replace="type Accumulator = Accumulator<Fp61BitPrime, u128, 65>;")]),
    dict(prop="C08", name="not-unmasked", expect="PAD-not|BA3",
         edits=[dict(file="ipa-core/src/ff/boolean_array.rs", find="                    v[$bits..].fill(false);\n                    Self(v)", replace="                    Self(v)")]),
    dict(prop="C08", name="benign-neg-branch", benign=True,
         edits=[dict(file=PF, find="Self((Self::PRIME - self.0) % Self::PRIME)", replace="if self.0 == 0 { self } else { Self(Self::PRIME - self.0) }")]),

    # ---------------- C18 ----------------
    dict(prop="C18", name="transition-backwards", expect="TABLE-transition|Running->AwaitingInputs",
         edits=[dict(file=ST, find="            | (AwaitingInputs(_, _), Running(_)) => Ok(new_state),", replace="            | (AwaitingInputs(_, _), Running(_))\n            | (Running(_), AwaitingInputs(_, _)) => Ok(new_state),")]),
    dict(prop="C18", name="min-is-max", expect="TABLE-min",
         edits=[dict(file=ST, find="(QueryStatus::Completed, _) => QueryStatus::Completed,", replace="(QueryStatus::Completed, _) => QueryStatus::Completed,\n    }\n}\n#[must_use]\npub fn min_status_old(a: QueryStatus, b: QueryStatus) -> QueryStatus {\n    match (a, b) {\n        (QueryStatus::Completed, _) => QueryStatus::Completed,\n        _ => a,"),
                dict(file=ST, find="        (QueryStatus::Preparing, _) | (_, QueryStatus::Preparing) => QueryStatus::Preparing,\n        (QueryStatus::AwaitingInputs, _) | (_, QueryStatus::AwaitingInputs) => {\n            QueryStatus::AwaitingInputs\n        }", replace="        (QueryStatus::AwaitingInputs, _) | (_, QueryStatus::AwaitingInputs) => {\n            QueryStatus::AwaitingInputs\n        }\n        (QueryStatus::Preparing, _) | (_, QueryStatus::Preparing) => QueryStatus::Preparing,")]),
    dict(prop="C18", name="complete-drops-state-on-error", expect="STORE-remove|query::processor::Processor::complete",
         edits=[dict(file=PR, find="                    queries.insert(query_id, state);\n                    return Err(QueryCompletionError::StateError {", replace="                    drop(state);\n                    return Err(QueryCompletionError::StateError {")]),
    dict(prop="C18", name="receive-inputs-skips-state", expect="STORE-write|query::processor::Processor::receive_inputs",
         edits=[dict(file=PR, find="                if let QueryState::AwaitingInputs(config, role_assignment) = state {", replace="                if let QueryState::AwaitingInputs(config, role_assignment) = state {\n                    queries.insert(query_id, QueryState::AwaitingCompletion);\n                    queries.remove(&query_id);")]),
    dict(prop="C18", name="restore-too-early", expect="GUARD-new-query|restore-last",
         edits=[dict(file=PR, find="        shard_transport.broadcast(prepare_request.clone()).await?;\n\n        handle.set_state(QueryState::AwaitingInputs(req, roles))?;\n\n        guard.restore();", replace="        guard.restore();\n        shard_transport.broadcast(prepare_request.clone()).await?;\n\n        handle.set_state(QueryState::AwaitingInputs(req, roles))?;\n")]),
    dict(prop="C18", name="get-status-reinserts-backwards", expect="STORE-write|query::processor::Processor::get_status",
         edits=[dict(file=PR, find="                state = QueryState::Completed(result);", replace="                drop(result);\n                state = QueryState::Empty;")]),
    dict(prop="C18", name="benign-complete-if-let", benign=True,
         edits=[dict(file=PR, find="        let Some(state) = queries.remove(&query_id) else {\n            return Err(QueryKillStatus::NoSuchQuery(query_id));\n        };", replace="        let state = match queries.remove(&query_id) {\n            Some(s) => s,\n            None => return Err(QueryKillStatus::NoSuchQuery(query_id)),\n        };")]),
]

HQ = "ipa-core/src/net/server/handlers/query/mod.rs"
NS = "ipa-core/src/net/server/mod.rs"
VARIANTS += [
    # ---------------- C20 ----------------
    dict(prop="C20", name="merge-after-layer", expect="ROUTE-peer|s2s:results::handler",
         edits=[dict(file=HQ, find="        .merge(results::router(Arc::clone(&transport)))\n        .merge(status_match::router(transport))\n        .layer(layer_fn(HelperAuthentication::<_, Shard>::new))",
                     replace="        .merge(status_match::router(Arc::clone(&transport)))\n        .layer(layer_fn(HelperAuthentication::<_, Shard>::new))\n        .merge(results::router(transport))")]),
    dict(prop="C20", name="layer-removed-h2h", expect="ROUTE-peer|h2h:step::handler",
         edits=[dict(file=HQ, find="        .merge(prepare::router(transport))\n        .layer(layer_fn(HelperAuthentication::<_, Helper>::new))", replace="        .merge(prepare::router(transport))")]),
    dict(prop="C20", name="step-in-collector-router", expect="ROUTE-full|mpc:step::handler",
         edits=[dict(file=HQ, find="        .merge(results::router(transport.inner_transport))\n}", replace="        .merge(step::router(Arc::clone(&transport.inner_transport)))\n        .merge(results::router(transport.inner_transport))\n}")]),
    dict(prop="C20", name="forbidden-not-401", expect="GUARD-auth|status-401",
         edits=[dict(file=HQ, find="                StatusCode::UNAUTHORIZED,\n                \"This API requires", replace="                StatusCode::FORBIDDEN,\n                \"This API requires")]),
    dict(prop="C20", name="auth-inverted", expect="GUARD-auth|inner-call",
         edits=[dict(file=HQ, find="            Some(ClientIdentity(_)) => self.inner.call(req).left_future(),\n            None => ready(Ok((", replace="            None => self.inner.call(req).left_future(),\n            Some(ClientIdentity(_)) => ready(Ok((")]),
    dict(prop="C20", name="header-layer-under-tls", expect="ARM-tls|serve",
         edits=[dict(file=NS, find="                    handle.clone(),\n                    svc.into_make_service(),\n                )\n                .await\n            }\n            (false, None) => {", replace="                    handle.clone(),\n                    svc.layer(layer_fn(SetClientIdentityFromHeader::<_, F>::new)).into_make_service(),\n                )\n                .await\n            }\n            (false, None) => {")]),
    dict(prop="C20", name="identity-fabricated-in-handler", expect="WHO-identity",
         edits=[dict(file=NS, find="    fn call(&mut self, mut req: Request<B>) -> Self::Future {\n        if let Some(id) = self.id {\n            req.extensions_mut().insert(id);\n        }", replace="    fn call(&mut self, mut req: Request<B>) -> Self::Future {\n        if let Some(id) = self.id {\n            req.extensions_mut().insert(id);\n        } else if let Some(h) = req.headers().get(F::identity_header()) {\n            if let Ok(id) = ClientIdentity::<F::Identity>::try_from(h) {\n                req.extensions_mut().insert(id);\n            }\n        }")]),
    dict(prop="C20", name="benign-reorder-merges", benign=True,
         edits=[dict(file=HQ, find="        .merge(step::router(Arc::clone(&transport)))\n        .merge(prepare::router(transport))\n        .layer(layer_fn(HelperAuthentication::<_, Helper>::new))", replace="        .merge(prepare::router(Arc::clone(&transport)))\n        .merge(step::router(transport))\n        .layer(layer_fn(HelperAuthentication::<_, Helper>::new))")]),
]

OSF = "ipa-core/src/helpers/buffers/ordering_sender.rs"
CBF = "ipa-core/src/helpers/buffers/circular.rs"
URF = "ipa-core/src/helpers/buffers/unordered_receiver.rs"
VARIANTS += [
    # ---------------- C14 ----------------
    dict(prop="C14", name="take-no-wake-writer", expect="WAKE-2|State::take=>wake(write_ready)",
         edits=[dict(file=OSF, find="                Self::wake(&mut self.write_ready);\n", replace="")]),
    dict(prop="C14", name="can-write-after-take", expect="WAKE-2|State::take:can_write-sampled-before-take",
         edits=[dict(file=OSF, find="            let can_write = self.buf.can_write();\n            let next = self.buf.take();\n", replace="            let next = self.buf.take();\n            let can_write = self.buf.can_write();\n")]),
    dict(prop="C14", name="pending-without-waker", expect="WAKE-1|helpers::buffers::ordering_sender::State::write",
         edits=[dict(file=OSF, find="        if !self.buf.can_write() {\n            Self::save_waker(&mut self.write_ready, cx);\n            return Poll::Pending;\n        }", replace="        if !self.buf.can_write() {\n            if self.write_ready.is_none() {\n                Self::save_waker(&mut self.write_ready, cx);\n            }\n            return Poll::Pending;\n        }")]),
    dict(prop="C14", name="wrong-slot", expect="SLOT|State::take:save_waker(stream_ready)",
         edits=[dict(file=OSF, find="            Self::save_waker(&mut self.stream_ready, cx);\n            Poll::Pending", replace="            Self::save_waker(&mut self.write_ready, cx);\n            Poll::Pending")]),
    dict(prop="C14", name="woken-at-backwards", expect="WHO-cursor|woken_at",
         edits=[dict(file=OSF, find="        self.woken_at = std::cmp::max(self.woken_at, i);", replace="        self.woken_at = i;")]),
    dict(prop="C14", name="pending-on-refused-add", expect="GUARD-next_op|pending-on-is_ok",
         edits=[dict(file=OSF, find="                    if self.waiting.add(curr, i, cx.waker()).is_ok() {\n                        break Poll::Pending;\n                    }", replace="                    let _ = self.waiting.add(curr, i, cx.waker());\n                    break Poll::Pending;")]),
    dict(prop="C14", name="send-wakes-same-index", expect="WAKE-2|Send::poll:wake-index",
         edits=[dict(file=OSF, find="            this.sender.waiting.wake(this.i + 1);", replace="            this.sender.waiting.wake(this.i);")]),
    dict(prop="C14", name="read-cursor-unwrapped", expect="WHO-cursor|read@",
         edits=[dict(file=CBF, find="        self.read = self.inc(self.read, delta);", replace="        self.read = self.read + delta;")]),
    dict(prop="C14", name="wrap-single-capacity", expect="WHO-cursor|shape:wrap",
         edits=[dict(file=CBF, find="        val % (self.data.len() * 2)", replace="        val % self.data.len()")]),
    dict(prop="C14", name="receiver-no-wake-next", expect="WAKE-2|OperatingState::poll_next",
         edits=[dict(file=URF, find="                    if let Some(m) = self.spare.extend(b) {\n                        self.wake_next();", replace="                    if let Some(m) = self.spare.extend(b) {\n                        self.next += 1;")]),
    dict(prop="C14", name="stale-add-accepts", expect="GUARD-add",
         edits=[dict(file=OSF, find="        if current < self.woken_at {", replace="        if current > self.woken_at {")]),
    dict(prop="C14", name="benign-write-early-return", benign=True,
         edits=[dict(file=OSF, find="        if self.buf.can_read() {\n            Self::wake(&mut self.stream_ready);\n        }\n\n        Poll::Ready(())", replace="        if !self.buf.can_read() {\n            return Poll::Ready(());\n        }\n        Self::wake(&mut self.stream_ready);\n        Poll::Ready(())")]),
]

SJ = "ipa-core/src/seq_join/local.rs"
VARIANTS += [
    # ---------------- C15 ----------------
    dict(prop="C15", name="pop-back", expect="WHO-queue|pop_back",
         edits=[dict(file=SJ, find="let v = this.active.pop_front().map(ActiveItem::take);", replace="let v = this.active.pop_back().map(ActiveItem::take);")]),
    dict(prop="C15", name="push-front", expect="WHO-queue|push_front",
         edits=[dict(file=SJ, find="                    .push_back(ActiveItem::Pending(Box::pin(f.into_future())));", replace="                    .push_front(ActiveItem::Pending(Box::pin(f.into_future())));")]),
    dict(prop="C15", name="skip-two", expect="PAIR-poll|skip-one",
         edits=[dict(file=SJ, find="for f in this.active.iter_mut().skip(1) {", replace="for f in this.active.iter_mut().skip(2) {")]),
    dict(prop="C15", name="no-poll-others", expect="PAIR-poll|others-polled-before-pending",
         edits=[dict(file=SJ, find="                for f in this.active.iter_mut().skip(1) {\n                    f.check_ready(cx);\n                }\n", replace="")]),
    dict(prop="C15", name="refill-le", expect="LOOP-refill|condition",
         edits=[dict(file=SJ, find="while this.active.len() < this.active.capacity() {", replace="while this.active.len() + 1 < this.active.capacity() {")]),
    dict(prop="C15", name="pop-when-not-ready", expect="GUARD-pop",
         edits=[dict(file=SJ, find="            if item.check_ready(cx) {\n                let v", replace="            if !item.check_ready(cx) {\n                let v")]),
    dict(prop="C15", name="validate-wrong-index", expect="CHAIN|validates-own-index",
         edits=[dict(file="ipa-core/src/protocol/context/dzkp_validator.rs", find="                    ctx.validate_record(RecordId::from(index)).await?;", replace="                    ctx.validate_record(RecordId::FIRST).await?;")]),
    dict(prop="C15", name="benign-front-match", benign=True,
         edits=[dict(file=SJ, find="        } else if this.source.is_done() {\n            periodic_memory_report(*this.spawned);\n            Poll::Ready(None)\n        } else {\n            Poll::Pending\n        }", replace="        } else if !this.source.is_done() {\n            Poll::Pending\n        } else {\n            periodic_memory_report(*this.spawned);\n            Poll::Ready(None)\n        }")]),
]

BTF = "ipa-core/src/protocol/context/batcher.rs"
VARIANTS += [
    # ---------------- C16 ----------------
    dict(prop="C16", name="send-replace-true", expect="VERDICT|publishes-is_ok",
         edits=[dict(file=BTF, find="state.validation_result.send_replace(result.is_ok());", replace="state.validation_result.send_replace(true);")]),
    dict(prop="C16", name="no-arm-swapped", expect="VERDICT|no-arm",
         edits=[dict(file=BTF, find="                    if *validation_result_rx.borrow() {", replace="                    if !*validation_result_rx.borrow() {")]),
    dict(prop="C16", name="ready-ge", expect="GUARD-ready|comparison-is-eq",
         edits=[dict(file=BTF, find="        if batch.pending_count == total_count {", replace="        if batch.pending_count + 1 >= total_count {")]),
    dict(prop="C16", name="total-count-ignores-total", expect="GUARD-ready|total-count-shape",
         edits=[dict(file=BTF, find="        let total_count = min(self.records_per_batch, remaining_records);", replace="        let total_count = if remaining_records > 0 { self.records_per_batch } else { 0 };")]),
    dict(prop="C16", name="no-changed-await", expect="VERDICT|no-arm:changed-before-read",
         edits=[dict(file=BTF, find="                    validation_result_rx\n                        .changed()\n                        .await\n                        .expect(\"sender should not be dropped\");\n", replace="                    if !*validation_result_rx.borrow() {\n                        validation_result_rx.changed().await.expect(\"sender should not be dropped\");\n                    }\n")]),
    dict(prop="C16", name="dropped-offset-assert", expect="COUNT|write#0:after-offset-check",
         edits=[dict(file=BTF, find="        assert!(\n            record_offset_in_batch < total_count,", replace="        debug_assert!(\n            record_offset_in_batch <= total_count,")]),
    dict(prop="C16", name="benign-mem-replace", benign=True,
         edits=[dict(file=BTF, find="                batch = self.batches[batch_offset].take();", replace="                batch = std::mem::replace(&mut self.batches[batch_offset], None);")]),
    dict(prop="C16", name="yes-without-removal", expect="ORDER-take",
         edits=[dict(file=BTF, find="                batch = self.batches[batch_offset].take();", replace="                let (validation_result, _) = watch::channel::<bool>(false);\n                batch = Some(BatchState { batch: (self.batch_constructor)(batch_index), validation_result, pending_count: 0, pending_records: bitvec![0; 1] });")]),
]

DPF = "ipa-core/src/protocol/dp/mod.rs"
BRF = "ipa-core/src/protocol/hybrid/breakdown_reveal.rs"
SHM = "ipa-core/src/protocol/ipa_prf/shuffle/malicious.rs"
RVF = "ipa-core/src/protocol/basics/reveal.rs"
VAF = "ipa-core/src/protocol/context/validator.rs"
PEF = "ipa-core/src/protocol/ipa_prf/prf_eval.rs"
VARIANTS += [
    # ---------------- C02 ----------------
    dict(prop="C02", name="dp-validate-deleted", expect="PAIR-validated|protocol::dp::dp_for_histogram#1",
         edits=[dict(file=DPF, find="            .await?;\n\n            dp_validator.validate().await?;\n\n            Ok(Vec::transposed_from(&noised_output)?)", replace="            .await?;\n\n            Ok(Vec::transposed_from(&noised_output)?)")]),
    dict(prop="C02", name="validate-indexed-result-dropped", expect="PAIR-validated|protocol::hybrid::breakdown_reveal::breakdown_reveal_aggregation#1",
         edits=[dict(file=BRF, find="            validator.validate_indexed(chunk_counter).await?;", replace="            let _ = validator.validate_indexed(chunk_counter).await;")]),
    dict(prop="C02", name="verify-after-truncate", expect="ORDER-shuffle|verify-before-release",
         edits=[dict(file=SHM, find="    verify_shuffle::<_, S>(\n        ctx.narrow(&ShardedShuffleStep::VerifyShuffle),\n        &keys,\n        &shuffled_shares,\n        messages,\n    )\n    .await?;\n\n    // truncate tags from output_shares\n    // verify_shuffle ensures that truncate_tags yields the correct rows\n    Ok(truncate_tags::<S>(&shuffled_shares))",
                     replace="    let rows = truncate_tags::<S>(&shuffled_shares);\n    let verified = verify_shuffle::<_, S>(\n        ctx.narrow(&ShardedShuffleStep::VerifyShuffle),\n        &keys,\n        &shuffled_shares,\n        messages,\n    )\n    .await;\n    if verified.is_err() {\n        tracing::warn!(\"shuffle verification failed\");\n    }\n    Ok(rows)")]),
    dict(prop="C02", name="reveal-before-validate", expect="ORDER-open|protocol::ipa_prf::prf_eval::eval_dy_prf",
         edits=[dict(file=PEF, find="    // validate everything before reveal\n    ctx.validate_record(record_id).await?;\n    let (gr, z): (", replace="    let (gr, z): ("),
                dict(file=PEF, find="    .await?;\n\n    //compute R^(1/z) to u64", replace="    .await?;\n    ctx.validate_record(record_id).await?;\n\n    //compute R^(1/z) to u64")]),
    dict(prop="C02", name="hash-check-dropped", expect="GUARD-shuffle-hash|h1_verify",
         edits=[dict(file=SHM, find="    // check h2\n    if hash_a_xor_b.ct_ne(&hash_h2).into() {", replace="    // check h2\n    if hash_a_xor_b.ct_ne(&hash_h3).into() {")]),
    dict(prop="C02", name="reveal-compares-self", expect="GUARD-reveal|malicious_reveal:two-copies",
         edits=[dict(file=RVF, find="        if share_from_left == share_from_right {", replace="        if share_from_left == share_from_left {")]),
    dict(prop="C02", name="mac-verdict-inverted", expect="GUARD-mac|mac-validate:ok-only-if-zero",
         edits=[dict(file=VAF, find="        if is_valid {", replace="        if !is_valid {")]),
    dict(prop="C02", name="open-without-validation", expect="ORDER-open|protocol::ipa_prf::boolean_ops::share_conversion_aby::convert_to_fp25519",
         edits=[dict(file="ipa-core/src/protocol/ipa_prf/boolean_ops/share_conversion_aby.rs", find="        validated_partial_reveal(ctx.narrow(&Step::RevealY), record_id, Role::H3, &sh_y).await?;", replace="        crate::protocol::basics::partial_reveal(ctx.narrow(&Step::RevealY), record_id, Role::H3, &sh_y).await?;")]),
]

MMF = "ipa-core/src/protocol/basics/mul/malicious.rs"
RHF = "ipa-core/src/report/hybrid.rs"
VARIANTS += [
    # ---------------- C04 ----------------
    dict(prop="C04", name="reveal-ne-to-eq", expect="GUARD-reveal",
         edits=[dict(file=RVF, find="        if share_from_left == share_from_right {", replace="        if share_from_left != share_from_right {")]),
    dict(prop="C04", name="mul-no-accumulate", expect="WIRE-mul|accumulate-on-every-ok",
         edits=[dict(file=MMF, find="    random_constant_ctx.accumulate_macs(record_id, &malicious_ab);\n", replace="    let _ = &random_constant_ctx;\n")]),
    dict(prop="C04", name="mul-x-twice", expect="WIRE-mul|rx-times-induced-x",
         edits=[dict(file=MMF, find="            a.rx(),\n            &b_induced_share,", replace="            &a.x().access_without_downgrade().induced(),\n            &b_induced_share,")]),
    dict(prop="C04", name="total-calls-two", expect="AFFINE-ids|total@",
         edits=[dict(file=VAF, find="        const TOTAL_CALLS_TO_PRSS: usize = 3;", replace="        const TOTAL_CALLS_TO_PRSS: usize = 2;")]),
    dict(prop="C04", name="coefficient-expanded", expect="WIRE-acc|per-lane-coefficient",
         edits=[dict(file=VAF, find="        let random_constant = prss.generate(record_id);", replace="        let random_constant = prss\n            .generate::<Replicated<F::ExtendedField>, _>(record_id)\n            .expand();")]),
    dict(prop="C04", name="reveal-after-validate-swapped", expect="ORDER-prf|validate-before-reveal",
         edits=[dict(file=PEF, find="    // validate everything before reveal\n    ctx.validate_record(record_id).await?;\n    let (gr, z): (", replace="    let (gr, z): ("),
                dict(file=PEF, find="    .await?;\n\n    //compute R^(1/z) to u64", replace="    .await?;\n    ctx.validate_record(record_id).await?;\n\n    //compute R^(1/z) to u64")]),
    # ---------------- C05 ----------------
    dict(prop="C05", name="split-order-swapped", expect="FIELDS|order",
         edits=[dict(file=RHF, find="        let (match_key, bits) = bits.read();\n        let (value, bits) = bits.read();\n        let (breakdown_key, _) = bits.read();\n        (match_key, value, breakdown_key)", replace="        let (match_key, bits) = bits.read();\n        let (breakdown_key, bits) = bits.read();\n        let (value, _) = bits.read();\n        (match_key, value, breakdown_key)")]),
    dict(prop="C05", name="h2-check-dropped", expect="GUARD-hash|h2_verify",
         edits=[dict(file=SHM, find="    // check x2\n    if hash_x2.ct_ne(&hash_h3).into() {", replace="    // check x2\n    if hash_x2.ct_ne(&hash_x2).into() {")]),
    dict(prop="C05", name="rows-before-verify", expect="ORDER-shuffle|verify-before-release",
         edits=[dict(file=SHM, find="    .await?;\n\n    // truncate tags from output_shares\n    // verify_shuffle ensures that truncate_tags yields the correct rows\n    Ok(truncate_tags::<S>(&shuffled_shares))", replace="    .await\n    .ok();\n\n    Ok(truncate_tags::<S>(&shuffled_shares))")]),
]

QHF = "ipa-core/src/query/runner/hybrid.rs"
CTXF = "ipa-core/src/protocol/context/mod.rs"
VARIANTS += [
    # ---------------- C11 ----------------
    dict(prop="C11", name="check-deleted", expect="ORDER|check-present",
         edits=[dict(file=QHF, find="        unique_encrypted_hybrid_reports.check_duplicates(&resharded_tags)?;\n", replace="        let _ = &mut unique_encrypted_hybrid_reports;\n")]),
    dict(prop="C11", name="check-result-ignored", expect="ORDER|check-result-propagated",
         edits=[dict(file=QHF, find="        unique_encrypted_hybrid_reports.check_duplicates(&resharded_tags)?;", replace="        let _ = unique_encrypted_hybrid_reports.check_duplicates(&resharded_tags);")]),
    dict(prop="C11", name="route-by-position", expect="ROUTE",
         edits=[dict(file=QHF, find="            |ctx, _, tag| tag.shard_picker(ctx.shard_count()),", replace="            |ctx, record_id, _tag| crate::sharding::ShardIndex::try_from(u128::from(u32::from(record_id)) % u128::from(ctx.shard_count())).unwrap(),")]),
    dict(prop="C11", name="insert-inverted", expect="GUARD|check_duplicate",
         edits=[dict(file=RHF, find="        if self.insert(item.unique_bytes()) {\n            Ok(())", replace="        if !self.insert(item.unique_bytes()) {\n            Ok(())")]),
    dict(prop="C11", name="benign-picker-high-bits", benign=True,
         edits=[dict(file=RHF, find="        ShardIndex::try_from(num % shard_count).expect(\"Modulo a u32 will fit in u32\")", replace="        ShardIndex::try_from((num >> 96) % shard_count).expect(\"Modulo a u32 will fit in u32\")")]),
    # ---------------- C19 ----------------
    dict(prop="C19", name="no-close-loop", expect="PAIR-close",
         edits=[dict(file=CTXF, find="                    for (last_record, send_channel) in send_channels.values() {\n                        send_channel.close(*last_record).await;\n                    }\n", replace="")]),
    dict(prop="C19", name="send-error-dropped", expect="ROUTE|send:awaited-and-propagated",
         edits=[dict(file=CTXF, find="                        se.send(*record_id, val)\n                            .await\n                            .map_err(crate::error::Error::from)?;", replace="                        let _ = se.send(*record_id, val)\n                            .await;")]),
    dict(prop="C19", name="keep-and-send", expect="ROUTE|keep:no-send",
         edits=[dict(file=CTXF, find="                    if dest_shard == my_shard {\n                        Ok(Some(((my_shard, Some(val)), (input, send_channels, i))))", replace="                    if dest_shard == my_shard {\n                        if let Some((record_id, se)) = send_channels.values_mut().next() {\n                            se.send(*record_id, val.clone()).await.map_err(crate::error::Error::from)?;\n                            *record_id += 1;\n                        }\n                        Ok(Some(((my_shard, Some(val)), (input, send_channels, i))))")]),
    dict(prop="C19", name="slot-by-arrival", expect="ORDER|slot-by-source-shard",
         edits=[dict(file=CTXF, find="    while let Some((shard_id, v)) = send_recv.try_next().await? {\n        if let Some(m) = v {\n            r[usize::from(shard_id)].push(m);", replace="    let mut arrival = 0usize;\n    while let Some((shard_id, v)) = send_recv.try_next().await? {\n        if let Some(m) = v {\n            let _ = shard_id;\n            arrival += 1;\n            let slots = r.len();\n            r[arrival % slots].push(m);")]),
    dict(prop="C19", name="counter-not-advanced", expect="ROUTE|counter-increments-once",
         edits=[dict(file=CTXF, find="                    let dest_shard = shard_picker(ctx, RecordId::from(*i), &val);\n                    *i += 1;", replace="                    let dest_shard = shard_picker(ctx, RecordId::from(*i), &val);")]),
]

HIF = "ipa-core/src/report/hybrid_info.rs"
VARIANTS += [
    # ---------------- C10 ----------------
    dict(prop="C10", name="aad-drops-timestamp", expect="FIELDS-aad|HybridConversionInfo.timestamp",
         edits=[dict(file=HIF, find="            + self.conversion_site_domain.len()\n            + std::mem::size_of_val(&self.key_id)\n            + std::mem::size_of_val(&self.timestamp)\n            + std::mem::size_of_val(&self.epsilon)\n            + std::mem::size_of_val(&self.sensitivity);\n        let mut r = Vec::with_capacity(info_len);\n\n        r.extend_from_slice(DOMAIN.as_bytes());",
                     replace="            + self.conversion_site_domain.len()\n            + std::mem::size_of_val(&self.key_id)\n            + std::mem::size_of_val(&self.epsilon)\n            + std::mem::size_of_val(&self.sensitivity);\n        let mut r = Vec::with_capacity(info_len);\n\n        r.extend_from_slice(DOMAIN.as_bytes());"),
                dict(file=HIF, find="        r.push(self.key_id);\n        r.extend_from_slice(&self.timestamp.to_be_bytes());\n        r.extend_from_slice(&self.epsilon.to_be_bytes());\n        r.extend_from_slice(&self.sensitivity.to_be_bytes());\n\n        debug_assert_eq!(\n            r.len(),\n            info_len,\n            \"HPKE Info", replace="        r.push(self.key_id);\n        r.extend_from_slice(&self.epsilon.to_be_bytes());\n        r.extend_from_slice(&self.sensitivity.to_be_bytes());\n\n        debug_assert_eq!(\n            r.len(),\n            info_len,\n            \"HPKE Info")]),
    dict(prop="C10", name="guard-off-by-one", expect="BOUNDS|report::hybrid::EncryptedHybridImpressionReport::<BK>::key_id",
         edits=[dict(file=RHF, find="        if bytes.len() < Self::INFO_OFFSET {\n            return Err(InvalidHybridReportError::Length(\n                bytes.len(),\n                Self::INFO_OFFSET,\n            ));\n        }\n        Ok(Self {\n            data: bytes,\n            phantom_data: PhantomData,\n        })\n    }\n\n    /// ## Errors\n    /// If the match key shares in the report cannot be decrypted (e.g. due to a\n    /// failure of the authenticated encryption).\n    /// ## Panics\n    /// Should not panic. Only panics if a `Report` constructor failed to validate the\n    /// contents properly, which would be a bug.\n    pub fn decrypt<P: PrivateKeyRegistry>(\n        &self,\n        key_registry: &P,\n    ) -> Result<HybridImpressionReport<BK>, InvalidHybridReportError> {", count=1,
                     replace="        if bytes.len() < Self::KEY_IDENTIFIER_OFFSET {\n            return Err(InvalidHybridReportError::Length(\n                bytes.len(),\n                Self::INFO_OFFSET,\n            ));\n        }\n        Ok(Self {\n            data: bytes,\n            phantom_data: PhantomData,\n        })\n    }\n\n    /// ## Errors\n    /// If the match key shares in the report cannot be decrypted (e.g. due to a\n    /// failure of the authenticated encryption).\n    /// ## Panics\n    /// Should not panic. Only panics if a `Report` constructor failed to validate the\n    /// contents properly, which would be a bug.\n    pub fn decrypt<P: PrivateKeyRegistry>(\n        &self,\n        key_registry: &P,\n    ) -> Result<HybridImpressionReport<BK>, InvalidHybridReportError> {")]),
    dict(prop="C10", name="empty-record-index", expect="BOUNDS|report::hybrid::EncryptedHybridReport::<BK, V>::from_bytes",
         edits=[dict(file=RHF, find="        let Some(&event_type) = bytes.first() else {\n            return Err(InvalidHybridReportError::Length(0, 1));\n        };\n        match HybridEventType::try_from(event_type)? {", replace="        match HybridEventType::try_from(bytes[0])? {")]),
    dict(prop="C10", name="second-open-default-info", expect="BIND|Conversion:open#1:info-is-parsed-info",
         edits=[dict(file=RHF, find="        let plaintext_btt = open_in_place(sk, self.encap_key_btt(), &mut ct_btt, &info_enc_bytes)?;\n\n        Ok(HybridConversionReport::<V> {", replace="        let plaintext_btt = open_in_place(sk, self.encap_key_btt(), &mut ct_btt, HELPER_ORIGIN.as_bytes())?;\n\n        Ok(HybridConversionReport::<V> {")]),
    dict(prop="C10", name="info-length-not-checked", expect="BOUNDS|report::hybrid_info::HybridConversionInfo::from_bytes",
         edits=[dict(file=HIF, find="        if rest.len() != FIXED_LEN {", replace="        if rest.len() > FIXED_LEN {")]),
]

VARIANTS += [
    # ---------------- C12 ----------------
    dict(prop="C12", name="epsilon-lt-zero", expect="GUARD-params|NoiseParams::new:epsilon",
         edits=[dict(file=DPF, find="        if epsilon <= 0.0 {", replace="        if epsilon < 0.0 {")]),
    dict(prop="C12", name="delta-ne-zero", expect="GUARD-params|NoiseParams::new:delta",
         edits=[dict(file=DPF, find="        if delta <= 0.0 {", replace="        if delta != 0.0 {")]),
    dict(prop="C12", name="modulus-all-ones", expect="RANGE-modulus|divisor-is-power-of-two",
         edits=[dict(file=DPF, find="        let modulus = 1_u64 << bit_size;", replace="        let modulus = if bit_size < 32 { 1_u64 << bit_size } else { u64::from(u32::MAX) };")]),
    dict(prop="C12", name="role-twice", expect="WIRE-passes|laplace:three-distinct-roles-and-steps",
         edits=[dict(file=DPF, find="                noised_output,\n                Role::H3,\n                &noise_params,", replace="                noised_output,\n                Role::H2,\n                &noise_params,")]),
    dict(prop="C12", name="wrong-generator", expect="WIRE-passes|direction-to-generator",
         edits=[dict(file=DPF, find="                Direction::Left => &mut right,\n                Direction::Right => &mut left,", replace="                Direction::Left => &mut left,\n                Direction::Right => &mut right,")]),
    dict(prop="C12", name="oprf-sensitivity-ge", expect="GUARD-params|OPRFPaddingDp::new:sensitivity",
         edits=[dict(file="ipa-core/src/protocol/ipa_prf/oprf_padding/insecure.rs", find="        if new_sensitivity > 1_000_000 {", replace="        if new_sensitivity > 10_000_000 {")]),
]

DVF = "ipa-core/src/protocol/context/dzkp_validator.rs"
VARIANTS += [
    # ---------------- C03 ----------------
    dict(prop="C03", name="prod-target-60m", expect="CONST-capacity|recursion-depth-fits-target",
         edits=[dict(file=DVF, find="pub const TARGET_PROOF_SIZE: usize = 50_000_000;", replace="pub const TARGET_PROOF_SIZE: usize = 60_000_000;")]),
    dict(prop="C03", name="prss-records-plus-one", expect="CONST-sizing|prss-records-per-batch",
         edits=[dict(file=DVF, find="            + 2; // P and Q masks", replace="            + 1; // P and Q masks")]),
    dict(prop="C03", name="tables-swapped", expect="WIRE-tables|verifier",
         edits=[dict(file=DVF, find="                    input: self.get_field_values_from_right_prover(),\n                    table: &TABLE_U,", replace="                    input: self.get_field_values_from_right_prover(),\n                    table: &TABLE_V,")]),
    dict(prop="C03", name="challenge-mod-prime", expect="RANGE-challenge|shape",
         edits=[dict(file="ipa-core/src/helpers/hashing.rs", find="    F::truncate_from(val % (prime - exclude_to) + exclude_to)", replace="    F::truncate_from(val % prime + exclude_to)")]),
    dict(prop="C03", name="verify-inverted", expect="GUARD-dzkp",
         edits=[dict(file="ipa-core/src/protocol/ipa_prf/validation_protocol/validation.rs", find="        if diff.ct_ne(&vec![Fp61BitPrime::ZERO; length]).into() {", replace="        if diff.ct_eq(&vec![Fp61BitPrime::ZERO; length]).into() {")]),
    dict(prop="C03", name="round-up-batch", expect="CONST-capacity|round-down@protocol::hybrid::agg",
         edits=[dict(file="ipa-core/src/protocol/hybrid/agg.rs", find="        non_zero_prev_power_of_two(TARGET_PROOF_SIZE / (BK::BITS as usize + V::BITS as usize));", replace="        (TARGET_PROOF_SIZE / (BK::BITS as usize + V::BITS as usize)).next_power_of_two();")]),
]

PRM = "ipa-core/src/protocol/prss/mod.rs"
VARIANTS += [
    # ---------------- C06 ----------------
    dict(prop="C06", name="shift-8", expect="RANGE-index|packing-injective",
         edits=[dict(file=PRM, find="            (u64::from(value.index.0) << 32) + u64::from(value.offset)", replace="            (u64::from(value.index.0) << 8) + u64::from(value.offset)")]),
    dict(prop="C06", name="offset-unchecked", expect="RANGE-index|new-rejects-large-offset",
         edits=[dict(file=PRM, find="            if this.offset <= Self::MAX_OFFSET {\n                Ok(this)\n            } else {\n                Err(PrssIndexError::OutOfRange(this.into()))\n            }", replace="            Ok(this)")]),
    dict(prop="C06", name="literal-prss-index", expect="WHO-draws",
         edits=[dict(file="ipa-core/src/protocol/ipa_prf/validation_protocol/proof_generation.rs", find="prss_record_ids.expect_next()", replace="RecordId::from(7usize)", count=2)]),
    dict(prop="C06", name="right-uses-other-index", expect="WHO-symmetry|same-index-both-sides",
         edits=[dict(file=PRM, find="            right: Self::ChunkIter::new(self, index, Direction::Right),", replace="            right: Self::ChunkIter::new(self, PrssIndex(index.0 ^ 1), Direction::Right),")]),
    dict(prop="C06", name="direction-swapped", expect="WHO-symmetry|direction-selects-generator",
         edits=[dict(file=PRM, find="                Direction::Left => &prss.left,\n                Direction::Right => &prss.right,", replace="                Direction::Left => &prss.right,\n                Direction::Right => &prss.left,")]),
    dict(prop="C06", name="sequential-allows-reuse", expect="GUARD-kind|sequential-refuses-reuse",
         edits=[dict(file=PRM, find="        assert!(\n            prev.is_none(),\n            \"Attempt access a sequential PRSS for {key} after another access\"\n        );", replace="        drop(prev);")]),
]

VARIANTS += [
    # ---------------- C09 ----------------
    dict(prop="C09", name="boolean-gt-2", expect="GUARD-decode|Boolean",
         edits=[dict(file="ipa-core/src/ff/boolean.rs", find="        if buf[0] > 1 {", replace="        if buf[0] > 2 {")]),
    dict(prop="C09", name="padding-check-from-byte-boundary", expect="GUARD-decode|BA3",
         edits=[dict(file="ipa-core/src/ff/boolean_array.rs", find="                if raw_val[$bits..].not_any() {", replace="                if raw_val[($bits + 7) / 8 * 8..].not_any() {")]),
    dict(prop="C09", name="event-type-swapped", expect="TABLE-event",
         edits=[dict(file=RHF, find="            0 => Ok(Self::Impression),\n            1 => Ok(Self::Conversion),", replace="            1 => Ok(Self::Impression),\n            0 => Ok(Self::Conversion),")]),
    dict(prop="C09", name="info-to-bytes-drops-timestamp", expect="FIELDS-codec|conversion:to_bytes-order",
         edits=[dict(file=HIF, find="        r.push(self.key_id);\n        r.extend_from_slice(&self.timestamp.to_be_bytes());\n        r.extend_from_slice(&self.epsilon.to_be_bytes());\n        r.extend_from_slice(&self.sensitivity.to_be_bytes());\n\n        debug_assert_eq!(\n            r.len(),\n            info_len,\n            \"Serilization", replace="        r.push(self.key_id);\n        r.extend_from_slice(&self.epsilon.to_be_bytes());\n        r.extend_from_slice(&self.timestamp.to_be_bytes());\n        r.extend_from_slice(&self.sensitivity.to_be_bytes());\n\n        debug_assert_eq!(\n            r.len(),\n            info_len,\n            \"Serilization")]),
    dict(prop="C09", name="deserialize-le-prime", expect="RANGE-invariant",
         edits=[dict(file=PF, find="if v < Self::PRIME {", replace="if v <= Self::PRIME {")]),
]

GSF = "ipa-core/src/helpers/gateway/send.rs"
GMF = "ipa-core/src/helpers/gateway/mod.rs"
VARIANTS += [
    # ---------------- C13 ----------------
    dict(prop="C13", name="send-before-count-check", expect="GUARD-count|bound-check",
         edits=[dict(file=GSF, find="            if usize::from(record_id) >= count.get() {", replace="            if usize::from(record_id) > count.get() {")]),
    dict(prop="C13", name="close-at-i", expect="GUARD-count|close-at-last",
         edits=[dict(file=GSF, find="            self.ordering_tx.close(i + 1).await;", replace="            self.ordering_tx.close(i).await;")]),
    dict(prop="C13", name="receiver-wrong-transport", expect="KEY-recv|get_shard_receiver:route",
         edits=[dict(file=GMF, find="                self.transports\n                    .shard\n                    .receive(channel_id.peer, (self.query_id, channel_id.gate.clone())),", replace="                self.transports\n                    .shard\n                    .receive(channel_id.peer, (self.query_id, crate::protocol::Gate::default())),")]),
    dict(prop="C13", name="close-without-is-last", expect="GUARD-count|close-at-last",
         edits=[dict(file=GSF, find="        if self.total_records.is_last(record_id) {\n            self.ordering_tx.close(i + 1).await;\n        }", replace="        if usize::from(record_id) + 2 >= self.total_records.count().unwrap_or(usize::MAX) {\n            self.ordering_tx.close(i + 1).await;\n        }")]),
]

DZV = "ipa-core/src/protocol/context/dzkp_validator.rs"
CZF = "ipa-core/src/protocol/basics/check_zero.rs"
VARIANTS += [
    # ---------------- verdict path (C02/C03) ----------------
    dict(prop="C02", name="batch-validate-verdict-discarded", expect="PATH-verdict|Batch::validate:returns-verify",
         edits=[dict(file=DZV, find="                &challenges_for_right_prover,\n            )\n            .await\n    }\n}\n\n/// Validator Trait for DZKPs", replace="                &challenges_for_right_prover,\n            )\n            .await\n            .ok();\n        Ok(())\n    }\n}\n\n/// Validator Trait for DZKPs")]),
    dict(prop="C03", name="batch-validate-skips-small-batches", expect="PATH-verdict|Batch::validate:ok-only-if-empty-or-verified",
         edits=[dict(file=DZV, find="        if self.is_empty() {\n            return Ok(());\n        }\n\n        let (\n            my_batch_left_shares,", replace="        if self.is_empty() || self.get_number_of_multiplications() < 8 {\n            return Ok(());\n        }\n\n        let (\n            my_batch_left_shares,")]),
    dict(prop="C02", name="validate-indexed-swallows-error", expect="PATH-verdict|validate_indexed:returns-batch-validate",
         edits=[dict(file=DZV, find="            .validate(validate_ctx, batch_index)\n            .await\n    }\n\n    /// `is_verified` checks", replace="            .validate(validate_ctx, batch_index)\n            .await\n            .or(Ok(()))\n    }\n\n    /// `is_verified` checks")]),
    dict(prop="C02", name="check-zero-always-true", expect="PATH-verdict|check_zero:verdict",
         edits=[dict(file=CZF, find="    Ok(rv.ct_eq(&F::ZERO).into())", replace="    let _: bool = rv.ct_eq(&F::ZERO).into();\n    Ok(true)")]),
    dict(prop="C02", name="check-zero-unmasked", expect="PATH-verdict|check_zero:masks-with-random-r",
         edits=[dict(file=CZF, find="semi_honest_multiply(ctx.narrow(&Step::MultiplyWithR), record_id, &r_sharing, v).await?;", replace="semi_honest_multiply(ctx.narrow(&Step::MultiplyWithR), record_id, v, v).await?;")]),
    dict(prop="C02", name="batch-validate-benign-let", benign=True,
         edits=[dict(file=DZV, find="                &challenges_for_right_prover,\n            )\n            .await\n    }\n}\n\n/// Validator Trait for DZKPs", replace="                &challenges_for_right_prover,\n            )\n            .await?;\n        Ok(())\n    }\n}\n\n/// Validator Trait for DZKPs")]),
]

VARIANTS += [
    dict(prop="C10", name="aad-site-lowercased", expect="FIELDS-aad|HybridConversionInfo.conversion_site_domain:verbatim",
         edits=[dict(file=HIF, find="HELPER_ORIGIN.as_bytes());\n        r.extend_from_slice(self.conversion_site_domain.as_bytes());", replace="HELPER_ORIGIN.as_bytes());\n        r.extend_from_slice(self.conversion_site_domain.to_ascii_lowercase().as_bytes());")]),
    dict(prop="C10", name="aad-timestamp-truncated", expect="FIELDS-aad|HybridConversionInfo.timestamp:verbatim",
         edits=[dict(file=HIF, find="(self.conversion_site_domain.as_bytes());\n\n        r.push(self.key_id);\n        r.extend_from_slice(&self.timestamp.to_be_bytes());", replace="(self.conversion_site_domain.as_bytes());\n\n        r.push(self.key_id);\n        r.extend_from_slice(&(self.timestamp >> 8 << 8).to_be_bytes());")]),
    dict(prop="C10", name="aad-site-via-as-str", benign=True,
         edits=[dict(file=HIF, find="HELPER_ORIGIN.as_bytes());\n        r.extend_from_slice(self.conversion_site_domain.as_bytes());", replace="HELPER_ORIGIN.as_bytes());\n        r.extend_from_slice(self.conversion_site_domain.as_str().as_bytes());")]),
]

SIF = "ipa-core/src/helpers/transport/stream/input.rs"
SBF = "ipa-core/src/helpers/transport/stream/buffered.rs"
VARIANTS += [
    # ---------------- C17 ----------------
    dict(prop="C17", name="gather-compare-flipped", expect="TOTAL|BufDeque::read_bytes:split",
         edits=[dict(file=SIF, find="                if self.buffered[0].len() > remaining_bytes {", replace="                if self.buffered[0].len() < remaining_bytes {")]),
    dict(prop="C17", name="gather-compare-ge", benign=True,
         edits=[dict(file=SIF, find="                if self.buffered[0].len() > remaining_bytes {", replace="                if self.buffered[0].len() >= remaining_bytes {")]),
    dict(prop="C17", name="avail-le", expect="AVAIL|read_bytes:none-iff-short",
         edits=[dict(file=SIF, find="        if len == 0 || self.buffered_size < len {", replace="        if len == 0 || self.buffered_size <= len {")]),
    dict(prop="C17", name="direct-path-forgets-count", expect="COUNT|read_bytes:direct:one-decrement",
         edits=[dict(file=SIF, find="            self.buffered_size -= len;\n            let res = self.buffered[0].split_to(len);", replace="            let res = self.buffered[0].split_to(len);")]),
    dict(prop="C17", name="direct-path-count-after-split", benign=True,
         edits=[dict(file=SIF, find="            self.buffered_size -= len;\n            let res = self.buffered[0].split_to(len);", replace="            let res = self.buffered[0].split_to(len);\n            self.buffered_size -= len;")]),
    dict(prop="C17", name="empty-front-not-popped", benign=True,
         edits=[dict(file=SIF, find="            if self.buffered[0].is_empty() {\n                self.buffered.pop_front();\n            }\n", replace="")]),
    dict(prop="C17", name="front-popped-when-not-empty", expect="LOSS|read_bytes:pop_front",
         edits=[dict(file=SIF, find="            if self.buffered[0].is_empty() {\n                self.buffered.pop_front();\n            }\n", replace="            if self.buffered[0].len() < len {\n                self.buffered.pop_front();\n            }\n")]),
    dict(prop="C17", name="extend-push-front", expect="FIFO|extend:push_front",
         edits=[dict(file=SIF, find="                self.buffered.push_back(bytes);", replace="                self.buffered.push_front(bytes);")]),
    dict(prop="C17", name="extend-leftover-threshold", expect="EOF|extend:finished-only-if-empty",
         edits=[dict(file=SIF, find="            None if self.buffered_size > 0 => ExtendResult::Error(", replace="            None if self.buffered_size > 1 => ExtendResult::Error(")]),
    dict(prop="C17", name="extend-count-off", expect="COUNT|extend:push#0:adds-its-length",
         edits=[dict(file=SIF, find="                self.buffered_size += bytes.len();\n                self.buffered.push_back(bytes);", replace="                self.buffered_size += bytes.len().max(1);\n                self.buffered.push_back(bytes);")]),
    dict(prop="C17", name="pending-length-at-eof-ignored", expect="EOF|LengthDelimitedStream:pending-length-is-error",
         edits=[dict(file=SIF, find="                ExtendResult::Finished if this.pending_len.is_some() => {", replace="                ExtendResult::Finished if this.pending_len.is_some() && available_len == usize::MAX => {")]),
    dict(prop="C17", name="pending-cleared-early", expect="STATE|cleared-only-after-body-read",
         edits=[dict(file=SIF, find="                if let Some(bytes) = bytes {\n                    *this.pending_len = None;", replace="                *this.pending_len = None;\n                if let Some(bytes) = bytes {")]),
    dict(prop="C17", name="batch-count-zero", expect="PROGRESS|Batch:count>=1",
         edits=[dict(file=SIF, find="        let count = max(1, buf.contiguous_len() / T::Size::USIZE);", replace="        let count = max(0, buf.contiguous_len() / T::Size::USIZE);")]),
    dict(prop="C17", name="records-stream-pending-after-data", expect="PENDING|<RecordsStream<T, S, M> as futures_util::Stream>::poll_next",
         edits=[dict(file=SIF, find="                ExtendResult::Error(err) => return Poll::Ready(Some(Err(err.into()))),\n                ExtendResult::Ok => (),", replace="                ExtendResult::Error(err) => return Poll::Ready(Some(Err(err.into()))),\n                ExtendResult::Ok => return Poll::Pending,")]),
    dict(prop="C17", name="records-stream-finished-on-error", expect="EOF|RecordsStream:error-arm-yields-err",
         edits=[dict(file=SIF, find="                ExtendResult::Error(err) => return Poll::Ready(Some(Err(err.into()))),\n                ExtendResult::Ok => (),", replace="                ExtendResult::Error(err) => {\n                    tracing::warn!(\"input stream failed: {err}\");\n                    return Poll::Ready(None);\n                }\n                ExtendResult::Ok => (),")]),
    dict(prop="C17", name="buffered-drops-tail", expect="EOF|BufferedBytesStream",
         edits=[dict(file=SBF, find="                    let next = if this.buffer.is_empty() {\n                        None\n                    } else {\n                        Some(Ok(Bytes::from(take_next(this.buffer))))\n                    };", replace="                    let next = if this.buffer.len() < *this.sz {\n                        None\n                    } else {\n                        Some(Ok(Bytes::from(take_next(this.buffer))))\n                    };")]),
    dict(prop="C17", name="try-read-wrong-size", expect="PROGRESS|try_read:reads-size-bytes",
         edits=[dict(file=SIF, find="    fn try_read<T: Serializable>(&mut self) -> Option<Result<T, T::DeserializationError>> {\n        self.read_bytes(T::Size::USIZE)", replace="    fn try_read<T: Serializable>(&mut self) -> Option<Result<T, T::DeserializationError>> {\n        self.read_bytes(T::Size::USIZE.next_power_of_two())")]),
    dict(prop="C17", name="front-via-front-unwrap", benign=True,
         edits=[dict(file=SIF, find="        } else if self.buffered[0].len() >= len {", replace="        } else if self.buffered.front().unwrap().len() >= len {")]),
]

VARIANTS += [
    dict(prop="C17", name="error-discards-held-records", expect="ITEMS|held-records-then-Err",
         edits=[dict(file=SIF, find="                            if items.is_empty() {\n                                return Poll::Ready(Some(Err(err)));\n                            }\n                            *this.pending_err = Some(err);\n                            return Poll::Ready(Some(Ok(items)));", replace="                            return Poll::Ready(Some(Err(err)));")]),
]

VPF = "ipa-core/src/protocol/ipa_prf/validation_protocol/validation.rs"
_PD_OLD = "        Ok(buf\n            .chunks(<<Fp61BitPrime as Serializable>::Size as Unsigned>::to_usize())\n            .map(|buf| Fp61BitPrime::deserialize(buf.try_into().unwrap()))\n            .collect::<Result<Vec<_>, _>>()?\n            .try_into()\n            .unwrap())\n    }\n}\n\nimpl MpcMessage for ProofDiff {}"
def _pd_new(take):
    return ("        let sz = <<Fp61BitPrime as Serializable>::Size as Unsigned>::to_usize();\n        let mut diff = [Fp61BitPrime::ZERO; MAX_PROOF_RECURSION + 1];\n        for (i, v) in diff.iter_mut().enumerate()%s {\n            *v = Fp61BitPrime::deserialize(buf[sz * i..sz * (i + 1)].try_into().unwrap())?;\n        }\n        Ok(diff)\n    }\n}\n\nimpl MpcMessage for ProofDiff {}" % take)
VARIANTS += [
    dict(prop="C09", name="proofdiff-in-place-take-n", expect="COVER|[Fp61BitPrime; MAX_PROOF_RECURSION + 1]::deserialize:take",
         edits=[dict(file=VPF, find=_PD_OLD, replace=_pd_new(".take(MAX_PROOF_RECURSION)"))]),
    dict(prop="C09", name="proofdiff-in-place-full", benign=True,
         edits=[dict(file=VPF, find=_PD_OLD, replace=_pd_new(""))]),
    dict(prop="C09", name="proofdiff-in-place-take-n-plus-1", benign=True,
         edits=[dict(file=VPF, find=_PD_OLD, replace=_pd_new(".take(MAX_PROOF_RECURSION + 1)"))]),
    dict(prop="C09", name="stdarray-loop-short", expect="COVER|StdArray<V, 16>::deserialize:loop-count",
         edits=[dict(file="ipa-core/src/secret_sharing/vector/array.rs", find="                for i in 0..$width {\n                    res[i] = V::deserialize(", replace="                for i in 0..$width - 1 {\n                    res[i] = V::deserialize(")]),
    dict(prop="C09", name="seed-pair-gap", expect="COVER|(Seed, Seed)::deserialize:ranges-tile-buffer",
         edits=[dict(file="ipa-core/src/protocol/prss/seed.rs", find="        let left = Seed::deserialize(GenericArray::from_slice(\n            &buf[..<Seed as Serializable>::Size::USIZE],", replace="        let left = Seed::deserialize(GenericArray::from_slice(\n            &buf[<Seed as Serializable>::Size::USIZE..],")]),
]

DSF = "ipa-core/src/protocol/ipa_prf/oprf_padding/distributions.rs"
VARIANTS += [
    dict(prop="C12", name="truncated-folds-negative", expect="SHAPE-sampler|TruncatedDoubleGeometric::sample:returns-the-draw",
         edits=[dict(file=DSF, find="            let s = self.double_geometric.sample(rng);\n            if s >= 0 && s <= (self.shift_doubled).try_into().unwrap() {\n                return s.try_into().unwrap();", replace="            let s = self.double_geometric.sample(rng).unsigned_abs();\n            if s <= self.shift_doubled {\n                return s;")]),
    dict(prop="C12", name="truncated-clamps", expect="SHAPE-sampler|TruncatedDoubleGeometric::sample",
         edits=[dict(file=DSF, find="            if s >= 0 && s <= (self.shift_doubled).try_into().unwrap() {\n                return s.try_into().unwrap();\n            }", replace="            if s >= 0 {\n                return u32::try_from(s).unwrap().min(self.shift_doubled);\n            }")]),
    dict(prop="C12", name="truncated-upper-strict", expect="SHAPE-sampler|TruncatedDoubleGeometric::sample:accept-iff-draw<=2shift",
         edits=[dict(file=DSF, find="            if s >= 0 && s <= (self.shift_doubled).try_into().unwrap() {", replace="            if s >= 0 && s < (self.shift_doubled).try_into().unwrap() {")]),
    dict(prop="C12", name="geometric-counts-from-one", expect="SHAPE-sampler|Geometric::sample:counts-failures",
         edits=[dict(file=DSF, find="        let mut attempts = 0;\n        while !self.bernoulli.sample(rng) {", replace="        let mut attempts = 1;\n        while !self.bernoulli.sample(rng) {")]),
    dict(prop="C12", name="double-geometric-same-draw", expect="SHAPE-sampler|DoubleGeometric::sample:shift+g1-g2",
         edits=[dict(file=DSF, find="        let attempts2 = self.geometric.sample(rng);", replace="        let attempts2 = attempts1 / 2;")]),
    dict(prop="C12", name="double-geometric-prob", expect="SHAPE-sampler|DoubleGeometric::new:p=1-exp(-1/s)",
         edits=[dict(file=DSF, find="        let success_probability = 1.0 - E.powf(-1.0 / s);", replace="        let success_probability = 1.0 - E.powf(-s);")]),
    dict(prop="C12", name="truncated-shift-not-doubled", expect="SHAPE-sampler|TruncatedDoubleGeometric::new:2*shift",
         edits=[dict(file=DSF, find="            shift_doubled: 2 * shift,", replace="            shift_doubled: 2 * shift + 1,")]),
    dict(prop="C12", name="truncated-i64-compare", benign=True,
         edits=[dict(file=DSF, find="            if s >= 0 && s <= (self.shift_doubled).try_into().unwrap() {", replace="            if s >= 0 && s <= i32::try_from(self.shift_doubled).unwrap() {")]),
]

VARIANTS += [
    dict(prop="C03", name="store-resize-unguarded", expect="STORE-grow|insert_segment_small:resize_with",
         edits=[dict(file=DZV, find="        if self.vec.len() <= block_id {\n            self.vec\n                .resize_with(block_id + 1, MultiplicationInputsBlock::default);\n        }", replace="        self.vec\n            .resize_with(block_id + 1, MultiplicationInputsBlock::default);")]),
    dict(prop="C03", name="store-resize-guard-lt", benign=True,
         edits=[dict(file=DZV, find="        if self.vec.len() <= block_id {\n            self.vec\n                .resize_with(block_id + 1, MultiplicationInputsBlock::default);", replace="        if self.vec.len() < block_id + 1 {\n            self.vec\n                .resize_with(block_id + 1, MultiplicationInputsBlock::default);")]),
    dict(prop="C02", name="store-truncated-on-large-insert", expect="STORE-grow|insert_segment_large:truncate",
         edits=[dict(file=DZV, find="        if self.vec.len() < block_id {\n            self.vec\n                .resize_with(block_id, MultiplicationInputsBlock::default);\n        }", replace="        if self.vec.len() < block_id {\n            self.vec\n                .resize_with(block_id, MultiplicationInputsBlock::default);\n        } else {\n            self.vec.truncate(block_id + length_in_blocks);\n        }")]),
    dict(prop="C06", name="cross-shard-prss-forwards-to-prss", expect="WHO-forward|<protocol::context::dzkp_malicious::DZKPUpgraded",
         edits=[dict(file="ipa-core/src/protocol/context/dzkp_malicious.rs", find="        self.base_ctx.cross_shard_prss()", replace="        self.base_ctx.prss()")]),
    dict(prop="C06", name="base-cross-shard-opens-per-shard-endpoint", expect="WHO-forward|Base::cross_shard_prss:endpoint",
         edits=[dict(file="ipa-core/src/protocol/context/mod.rs", find="self.sharding.cross_shard_prss().indexed(self.gate())", replace="self.inner.prss.indexed(self.gate())")]),
]

ASF = "ipa-core/src/protocol/ipa_prf/boolean_ops/addition_sequential.rs"
CSF = "ipa-core/src/protocol/ipa_prf/boolean_ops/comparison_and_subtraction_sequential.rs"
ORF = "ipa-core/src/protocol/boolean/or.rs"
IEF = "ipa-core/src/protocol/basics/if_else.rs"
SHM = "ipa-core/src/protocol/basics/mul/semi_honest.rs"
VARIANTS += [
    # ---------------- C07 ----------------
    dict(prop="C07", name="adder-carry-wrong-operand", expect="GADGET|bit_adder:carry",
         edits=[dict(file=ASF, find="            .multiply(&(y + &*carry), ctx, record_id)", replace="            .multiply(&(y + x), ctx, record_id)")]),
    dict(prop="C07", name="adder-output-after-carry-update", expect="GADGET|bit_adder:reads-before-write",
         edits=[dict(file=ASF, find="    let output = x + y + &*carry;\n\n    *carry = &*carry\n        + (x + &*carry)\n            .multiply(&(y + &*carry), ctx, record_id)\n            .await?;\n\n    Ok(output)", replace="    *carry = &*carry\n        + (x + &*carry)\n            .multiply(&(y + &*carry), ctx, record_id)\n            .await?;\n\n    let output = x + y + &*carry;\n\n    Ok(output)")]),
    dict(prop="C07", name="adder-output-reordered", benign=True,
         edits=[dict(file=ASF, find="    let output = x + y + &*carry;", replace="    let output = x + &*carry + y;")]),
    dict(prop="C07", name="subtractor-forgets-not", expect="GADGET|bit_subtractor:output",
         edits=[dict(file=CSF, find="    let output = x + !(y + &*carry);", replace="    let output = x + (y + &*carry);")]),
    dict(prop="C07", name="geq-starts-from-zero", expect="WIRE-carry|compare_geq:carry-in",
         edits=[dict(file=CSF, find="    let mut carry = AdditiveShare::<Boolean>::share_known_value(&ctx, Boolean::ONE);\n    // We don't care about the subtraction", replace="    let mut carry = AdditiveShare::<Boolean>::share_known_value(&ctx, !Boolean::ONE);\n    // We don't care about the subtraction")]),
    dict(prop="C07", name="gt-operands-swapped", expect="WIRE-carry|compare_gt:operand-order",
         edits=[dict(file=CSF, find="    subtraction_circuit::<_, S, N>(ctx, record_id, x, y, &mut carry).await?;\n    Ok(carry)", replace="    subtraction_circuit::<_, S, N>(ctx, record_id, y, x, &mut carry).await?;\n    Ok(carry)")]),
    dict(prop="C07", name="sat-sub-select-swapped", expect="WIRE-result|integer_sat_sub",
         edits=[dict(file=CSF, find="        &carry,\n        &result,\n        &AdditiveShare::<S>::ZERO,", replace="        &carry,\n        &AdditiveShare::<S>::ZERO,\n        &result,")]),
    dict(prop="C07", name="or-plus-ab", expect="GADGET|or",
         edits=[dict(file=ORF, find="    let ab = a.multiply(b, ctx, record_id).await?;\n    Ok(-ab + a + b)\n}", replace="    let ab = a.multiply(b, ctx, record_id).await?;\n    Ok(ab + a + b)\n}")]),
    dict(prop="C07", name="bool-or-plus-ab-mod2", benign=True,
         edits=[dict(file=ORF, find="                Ok::<_, Error>(-ab + a + b)", replace="                Ok::<_, Error>(ab + a + b)")]),
    dict(prop="C07", name="select-branches-swapped", expect="GADGET|select",
         edits=[dict(file=IEF, find="    let false_value = B::Vectorized::from(false_value.clone());\n    let true_value = B::Vectorized::from(true_value.clone());", replace="    let (false_value, true_value) = (\n        B::Vectorized::from(true_value.clone()),\n        B::Vectorized::from(false_value.clone()),\n    );")]),
    dict(prop="C07", name="mul-masks-swapped-still-cancel", benign=True,
         edits=[dict(file=SHM, find="        + prss_left\n        - prss_right;", replace="        + prss_right\n        - prss_left;")]),
    dict(prop="C07", name="mul-cross-term-duplicated", expect="POLY|sh_multiply:three-party-identity",
         edits=[dict(file=SHM, find="        + a.right_arr().clone() * b.left_arr()", replace="        + a.right_arr().clone() * b.right_arr()")]),
    dict(prop="C07", name="mul-send-right", expect="POLY|sh_multiply:send-left-recv-right",
         edits=[dict(file=SHM, find="role.peer(Direction::Left))\n        .send(record_id, &z_left)", replace="role.peer(Direction::Right))\n        .send(record_id, &z_left)")]),
    dict(prop="C07", name="adder-y-not-padded", expect="WIRE-loop|addition_circuit:zip",
         edits=[dict(file=ASF, find="x.zip(y.chain(repeat(&AdditiveShare::ZERO))).enumerate()", replace="x.zip(y).enumerate()")]),
]

VARIANTS += [
    dict(prop="C07", name="known-value-h3-left", expect="POLY|share_known_value",
         edits=[dict(file="ipa-core/src/protocol/basics/share_known_value.rs", find="            Role::H3 => Self::new(V::ZERO, value),", replace="            Role::H3 => Self::new(value, V::ZERO),")]),
    dict(prop="C07", name="reshare-right-helper-uses-right-share", expect="POLY|reshare:sum-preserved",
         edits=[dict(file="ipa-core/src/protocol/basics/reshare.rs", find="            let part2 = self.left() - r.0;", replace="            let part2 = self.right() - r.0;")]),
    dict(prop="C07", name="reshare-mask-not-stored", expect="POLY|reshare:replicated",
         edits=[dict(file="ipa-core/src/protocol/basics/reshare.rs", find="            Ok(Replicated::new(part1 + part2, r.1))", replace="            Ok(Replicated::new(part1 + part2, r.0))")]),
]

_ISE_OLD = "    /// Read bytes from the buffer.\n    ///\n    /// Returns [`Bytes`] with length `len` from the buffered data."
VARIANTS += [
    dict(prop="C17", name="eof-test-looks-at-front-chunk-only", expect="EOF|extend:finished-only-if-empty",
         edits=[dict(file=SIF, find=_ISE_OLD, replace="    fn is_empty(&self) -> bool {\n        self.contiguous_len() == 0\n    }\n\n" + _ISE_OLD),
                dict(file=SIF, find="            None if self.buffered_size > 0 => ExtendResult::Error(", replace="            None if !self.is_empty() => ExtendResult::Error(")]),
    dict(prop="C17", name="eof-test-through-size-helper", benign=True,
         edits=[dict(file=SIF, find=_ISE_OLD, replace="    fn is_empty(&self) -> bool {\n        self.buffered_size == 0\n    }\n\n" + _ISE_OLD),
                dict(file=SIF, find="            None if self.buffered_size > 0 => ExtendResult::Error(", replace="            None if !self.is_empty() => ExtendResult::Error(")]),
]

HAF = "ipa-core/src/protocol/hybrid/agg.rs"
HMF = "ipa-core/src/protocol/hybrid/mod.rs"
VARIANTS += [
    # ---------------- C01 ----------------
    dict(prop="C01", name="third-report-keeps-pair", expect="TABLE-match|add_report:Pair->MoreThanTwo",
         edits=[dict(file=HAF, find="            Self::Pair { .. } | Self::MoreThanTwo => *self = Self::MoreThanTwo,", replace="            Self::Pair { .. } => {}\n            Self::MoreThanTwo => *self = Self::MoreThanTwo,")]),
    dict(prop="C01", name="into-pair-accepts-single", expect="TABLE-match|into_pair:some-iff-pair",
         edits=[dict(file=HAF, find="            Self::Pair(r1, r2) => Some([r1, r2]),\n            _ => None,", replace="            Self::Pair(r1, r2) => Some([r1, r2]),\n            Self::Single(r) => Some([r.clone(), r]),\n            Self::MoreThanTwo => None,")]),
    dict(prop="C01", name="value-sum-uses-breakdown-key", expect="WIRE-agg|AddV",
         edits=[dict(file=HAF, find="                    &reports[0].value.to_bits(),\n                    &reports[1].value.to_bits(),", replace="                    &reports[0].value.to_bits(),\n                    &reports[0].value.to_bits(),")]),
    dict(prop="C01", name="aggregate-fields-swapped", expect="WIRE-agg|result-fields",
         edits=[dict(file=HAF, find="                let (breakdown_key, _) = integer_add::<_, EightBitStep, 1>(\n                    agg_ctx.narrow(&AggregateReportsStep::AddBK),", replace="                let (value, _) = integer_add::<_, EightBitStep, 1>(\n                    agg_ctx.narrow(&AggregateReportsStep::AddBK),"),
                dict(file=HAF, find="                let (value, _) = integer_add::<_, EightBitStep, 1>(\n                    agg_ctx.narrow(&AggregateReportsStep::AddV),", replace="                let (breakdown_key, _) = integer_add::<_, EightBitStep, 1>(\n                    agg_ctx.narrow(&AggregateReportsStep::AddV),")]),
    dict(prop="C01", name="second-early-return", expect="COLLECTIVE|ok-return-skips-prf+reshard",
         edits=[dict(file=HMF, find="    let sharded_reports = compute_prf_and_reshard(ctx.clone(), shuffled_input_rows).await?;", replace="    if shuffled_input_rows.len() < 2 {\n        return Ok(vec![Replicated::ZERO; B]);\n    }\n    let sharded_reports = compute_prf_and_reshard(ctx.clone(), shuffled_input_rows).await?;")]),
    dict(prop="C01", name="empty-input-early-return-restored", expect="COLLECTIVE|ok-return-skips-shuffle",
         edits=[dict(file=HMF, find='    // Apply DP padding for OPRF\n    let padded_input_rows = apply_dp_padding', replace='    if input_rows.is_empty() {\n        return Ok(vec![Replicated::ZERO; B]);\n    }\n\n    // Apply DP padding for OPRF\n    let padded_input_rows = apply_dp_padding')]),
    dict(prop="C01", name="prf-stage-empty-returns-without-reshard", expect="COLLECTIVE|compute_prf_and_reshard:reshard:success-return-skips",
         edits=[dict(file="ipa-core/src/protocol/hybrid/oprf.rs", find='        return reshard_try_stream(\n            ctx.narrow(&HybridStep::ReshardByPrf),\n            stream::iter(Vec::<Result<PrfHybridReport<BK, V>, Error>>::new()),\n            |ctx, _, report| report.match_key % ctx.shard_count(),\n        )\n        .await;\n', replace='        return Ok(Vec::new());\n')]),
    dict(prop="C01", name="h1-shuffle-empty-shard-leaves", expect="COLLECTIVE|h1_shuffle_for_shard:step",
         edits=[dict(file="ipa-core/src/protocol/ipa_prf/shuffle/sharded.rs", find='    // Generate X_1 = perm_12(left ⊕ right ⊕ z_12).\n    let x1: Vec<S::Share> = ctx\n        .narrow(&ShuffleStep::Permute12)\n        .mask_and_shuffle(\n            Direction::Right,\n            shares.into_iter().map(|share| share.left() + share.right()),\n        )\n        .await?;\n\n    // Generate X_2 = perm_31(X_1 ⊕ z_31) and reshard it using the randomness', replace='    // Generate X_1 = perm_12(left ⊕ right ⊕ z_12).\n    let shares = shares.into_iter();\n    if shares.len() == 0 {\n        return Ok((Vec::new(), IntermediateShuffleMessages::H1 { x1: Vec::new() }));\n    }\n    let x1: Vec<S::Share> = ctx\n        .narrow(&ShuffleStep::Permute12)\n        .mask_and_shuffle(\n            Direction::Right,\n            shares.map(|share| share.left() + share.right()),\n        )\n        .await?;\n\n    // Generate X_2 = perm_31(X_1 ⊕ z_31) and reshard it using the randomness')]),
    dict(prop="C01", name="sharded-shuffle-empty-shard-leaves", expect="COLLECTIVE|malicious_sharded_shuffle:shuffle-for-shard:success-return-skips",
         edits=[dict(file="ipa-core/src/protocol/ipa_prf/shuffle/malicious.rs", find='    let (shuffled_shares, messages) = match ctx.role() {\n        Role::H1 => h1_shuffle_for_shard(ctx.clone(), shares_and_tags).await,', replace='    if shares_and_tags.is_empty() {\n        return Ok(Vec::new());\n    }\n    let (shuffled_shares, messages) = match ctx.role() {\n        Role::H1 => h1_shuffle_for_shard(ctx.clone(), shares_and_tags).await,')]),
    dict(prop="C01", name="match-entry-arms-split", benign=True,
         edits=[dict(file=HAF, find="            Self::Pair { .. } | Self::MoreThanTwo => *self = Self::MoreThanTwo,", replace="            Self::Pair { .. } => *self = Self::MoreThanTwo,\n            Self::MoreThanTwo => {}")]),
]

MSF = "ipa-core/src/protocol/ipa_prf/shuffle/malicious.rs"
VARIANTS += [
    dict(prop="C05", name="mac-keys-floor", expect="KEYS-cover|amount_of_keys",
         edits=[dict(file=MSF, find="    let amount_of_keys: usize = usize::try_from(S::Share::BITS).unwrap().div_ceil(32);", replace="    let amount_of_keys: usize = usize::try_from(S::Share::BITS).unwrap() / 32;")]),
    dict(prop="C05", name="mac-keys-ceil-by-hand", benign=True,
         edits=[dict(file=MSF, find="    let amount_of_keys: usize = usize::try_from(S::Share::BITS).unwrap().div_ceil(32);", replace="    let amount_of_keys: usize = (usize::try_from(S::Share::BITS).unwrap() + 31) / 32;")]),
]

VARIANTS += [
    dict(prop="C13", name="read-size-next-power-of-two", expect="ALIGN|new_with:formula",
         edits=[dict(file=GSF, find="            non_zero_prev_power_of_two(target)\n        };", replace="            std::cmp::max(1, target)\n        };")]),
    dict(prop="C13", name="read-size-assert-removed", expect="ALIGN|new_with:assert:capacity%read_size==0",
         edits=[dict(file=GSF, find="        assert_eq!(0, this.total_capacity.get() % this.read_size.get());\n", replace="")]),
    dict(prop="C13", name="read-size-min-swapped", benign=True,
         edits=[dict(file=GSF, find="                std::cmp::min(total_capacity, read_size_multiplier * record_size)", replace="                std::cmp::min(read_size_multiplier * record_size, total_capacity)")]),
]

QEF = "ipa-core/src/query/executor.rs"
VARIANTS += [
    dict(prop="C09", name="result-rows-reversed", expect="LAYOUT-result",
         edits=[dict(file=QEF, find="        for (i, row) in self.iter().enumerate() {\n            row.serialize(GenericArray::from_mut_slice(", replace="        for (i, row) in self.iter().rev().enumerate() {\n            row.serialize(GenericArray::from_mut_slice(")]),
    dict(prop="C09", name="result-skips-last-row", expect="LAYOUT-result|no-truncation",
         edits=[dict(file=QEF, find="        for (i, row) in self.iter().enumerate() {\n            row.serialize(GenericArray::from_mut_slice(", replace="        for (i, row) in self.iter().enumerate().take(self.len().saturating_sub(1).max(1)) {\n            row.serialize(GenericArray::from_mut_slice(")]),
]

PCF = "ipa-core/src/protocol/prss/crypto.rs"
VARIANTS += [
    dict(prop="C06", name="generator-key-ignores-step", expect="SHAPE-generator|generator:key=HKDF(secret, step)",
         edits=[dict(file=PCF, find="        self.kdf.expand(context, &mut k).unwrap();", replace="        self.kdf.expand(&[], &mut k).unwrap();")]),
    dict(prop="C06", name="generate-without-feed-forward", expect="SHAPE-generator|generate:AES(index)^index",
         edits=[dict(file=PCF, find="        u128::from_le_bytes(buf) ^ index\n", replace="        u128::from_le_bytes(buf)\n")]),
]

import json as _json, os as _os
_C16H = _json.load(open(_os.path.join(_os.path.dirname(_os.path.abspath(__file__)), "c16_helper.json")))
BTF = "ipa-core/src/protocol/context/batcher.rs"
VARIANTS += [
    dict(prop="C16", name="take-batch-helper-extracted", benign=True,
         edits=[dict(file=BTF, find=_C16H["benign"][0], replace=_C16H["benign"][1])]),
    dict(prop="C16", name="single-record-batch-fast-path", expect="GUARD-ready|yes-on-true-edge",
         edits=[dict(file=BTF, find=_C16H["seeded"][0], replace=_C16H["seeded"][1])]),
]

VARIANTS += [
    # behaviour-preserving renames: rules must identify operands by position / role, not by source name
    dict(prop="C07", name="rename-adder-params", benign=True,
         edits=[dict(file=ASF, find="    x: &AdditiveShare<Boolean, N>,\n    y: &AdditiveShare<Boolean, N>,\n    carry: &mut AdditiveShare<Boolean, N>,\n) -> Result<AdditiveShare<Boolean, N>, Error>\nwhere\n    C: Context,\n    Boolean: FieldSimd<N>,\n    AdditiveShare<Boolean, N>: BooleanProtocols<C, N>,\n{\n    let output = x + y + &*carry;\n\n    *carry = &*carry\n        + (x + &*carry)\n            .multiply(&(y + &*carry), ctx, record_id)\n            .await?;\n\n    Ok(output)",
                     replace="    lhs: &AdditiveShare<Boolean, N>,\n    rhs: &AdditiveShare<Boolean, N>,\n    c_in: &mut AdditiveShare<Boolean, N>,\n) -> Result<AdditiveShare<Boolean, N>, Error>\nwhere\n    C: Context,\n    Boolean: FieldSimd<N>,\n    AdditiveShare<Boolean, N>: BooleanProtocols<C, N>,\n{\n    let sum_bit = lhs + rhs + &*c_in;\n\n    *c_in = &*c_in\n        + (lhs + &*c_in)\n            .multiply(&(rhs + &*c_in), ctx, record_id)\n            .await?;\n\n    Ok(sum_bit)")]),
    dict(prop="C07", name="rename-mul-params", benign=True,
         edits=[dict(file=SHM, find="    a: &Replicated<F, N>,\n    b: &Replicated<F, N>,\n    prss_left: &<F as Vectorizable<N>>::Array,\n    prss_right: &<F as Vectorizable<N>>::Array,\n) -> Result<Replicated<F, N>, Error>\nwhere\n    C: Context,\n    F: Field + FieldSimd<N>,\n{\n    let role = ctx.role();\n\n    // Compute the value z_i we want to send to the left helper, i.e. (i-1).\n    let z_left = a.left_arr().clone() * b.left_arr()\n        + a.left_arr().clone() * b.right_arr()\n        + a.right_arr().clone() * b.left_arr()\n        + prss_left\n        - prss_right;",
                     replace="    lhs: &Replicated<F, N>,\n    rhs: &Replicated<F, N>,\n    mask_l: &<F as Vectorizable<N>>::Array,\n    mask_r: &<F as Vectorizable<N>>::Array,\n) -> Result<Replicated<F, N>, Error>\nwhere\n    C: Context,\n    F: Field + FieldSimd<N>,\n{\n    let role = ctx.role();\n\n    // Compute the value z_i we want to send to the left helper, i.e. (i-1).\n    let z_left = lhs.left_arr().clone() * rhs.left_arr()\n        + lhs.left_arr().clone() * rhs.right_arr()\n        + lhs.right_arr().clone() * rhs.left_arr()\n        + mask_l\n        - mask_r;")]),
    dict(prop="C01", name="rename-group-loop-var", benign=True,
         edits=[dict(file=HAF, find="    for report in reports {\n        reports_by_matchkey\n            .entry(report.match_key)\n            .and_modify(|e| e.add_report(report.clone().into()))\n            .or_insert(MatchEntry::Single(report.into()));\n    }", replace="    for r in reports {\n        reports_by_matchkey\n            .entry(r.match_key)\n            .and_modify(|entry| entry.add_report(r.clone().into()))\n            .or_insert(MatchEntry::Single(r.into()));\n    }")]),
]

DPF = "ipa-core/src/protocol/dp/mod.rs"
VARIANTS += [
    dict(prop="C12", name="rename-prss-rng-halves", benign=True,
         edits=[dict(file=DPF, find="            let (mut left, mut right) = ctx.prss_rng();\n            let rng = match direction_to_excluded_helper {\n                Direction::Left => &mut right,\n                Direction::Right => &mut left,\n            };", replace="            let (mut rng_l, mut rng_r) = ctx.prss_rng();\n            let rng = match direction_to_excluded_helper {\n                Direction::Left => &mut rng_r,\n                Direction::Right => &mut rng_l,\n            };")]),
    dict(prop="C12", name="rename-prss-rng-halves-swapped", expect="WIRE-passes|direction-to-generator",
         edits=[dict(file=DPF, find="            let (mut left, mut right) = ctx.prss_rng();\n            let rng = match direction_to_excluded_helper {\n                Direction::Left => &mut right,\n                Direction::Right => &mut left,\n            };", replace="            let (mut right, mut left) = ctx.prss_rng();\n            let rng = match direction_to_excluded_helper {\n                Direction::Left => &mut right,\n                Direction::Right => &mut left,\n            };")]),
]

AGF = "ipa-core/src/protocol/ipa_prf/aggregation/mod.rs"
VARIANTS += [
    dict(prop="C07", name="aggregate-grows-one-bit-too-far", expect="WIRE-aggregate|grow-while-narrower-than-output",
         edits=[dict(file=AGF, find="                                if a.len() < usize::try_from(OV::BITS).unwrap() {", replace="                                if a.len() <= usize::try_from(OV::BITS).unwrap() {")]),
    dict(prop="C07", name="aggregate-adds-a-to-a", expect="WIRE-aggregate|integer_sat_add:operands-are-the-pair",
         edits=[dict(file=AGF, find="                                        record_id,\n                                        &a,\n                                        &b,\n                                    )\n                                    .await\n                                }", replace="                                        record_id,\n                                        &a,\n                                        &a,\n                                    )\n                                    .await\n                                }")]),
    dict(prop="C07", name="aggregate-carry-dropped", expect="WIRE-aggregate|carry-becomes-top-bit",
         edits=[dict(file=AGF, find="                                    let (mut sum, carry) = integer_add::<_, AdditionStep, B>(", replace="                                    let (sum, _carry) = integer_add::<_, AdditionStep, B>("),
                dict(file=AGF, find="                                    sum.push(carry);\n", replace="")]),
]

# behaviour-preserving: a log line added in the middle of the analysed function (extra calls, branches and
# temporaries in MIR must not disturb any rule)
def _log_before(prop, name, file, line, indent):
    return dict(prop=prop, name=name, benign=True,
                edits=[dict(file=file, find=line, replace=indent + 'tracing::trace!("checkpoint");\n' + line)])

VARIANTS += [
    _log_before("C17", "log-in-read-bytes", SIF, "        // not enough bytes buffered\n", "        "),
    _log_before("C17", "log-in-length-delimited-poll", SIF, "            // We need more data, poll the stream.\n", "            "),
    _log_before("C16", "log-in-is-ready", BTF, "        let total_count = min(self.records_per_batch, remaining_records);\n", "        "),
    _log_before("C01", "log-in-hybrid-protocol", HMF, "    let sharded_reports = compute_prf_and_reshard(ctx.clone(), shuffled_input_rows).await?;\n", "    "),
    _log_before("C07", "log-in-bit-adder", ASF, "    let output = x + y + &*carry;\n", "    "),
    _log_before("C07", "log-in-multiplication-protocol", SHM, "    let role = ctx.role();\n", "    "),
    _log_before("C13", "log-in-send-config", GSF, "        let total_capacity = gateway_config.active.get() * record_size;\n", "        "),
    _log_before("C20", "log-in-identify-cert", "ipa-core/src/config.rs", "        let cert = cert?;\n", "        "),
    _log_before("C05", "log-in-malicious-shuffle", MSF, "    // prepare keys\n", "    "),
    _log_before("C12", "log-in-truncated-sample", DSF, "        // samples are truncated to be within [0, 2*shift]\n", "        "),
]

VARIANTS += [
    dict(prop="C03", name="pack-block-from-unrounded-width", expect="PACK-slots|small:slots-disjoint",
         edits=[dict(file=DZV, find="        let block_id = (length * id_within_batch) >> BIT_ARRAY_SHIFT;\n        // segments are small", replace="        let block_id = (segment.len() * id_within_batch) >> BIT_ARRAY_SHIFT;\n        // segments are small")]),
    dict(prop="C03", name="pack-position-via-mask", benign=True,
         edits=[dict(file=DZV, find="        let position_within_block_start = (length * id_within_batch) % 256;", replace="        let position_within_block_start = (length * id_within_batch) & 255;")]),
]

OSF = "ipa-core/src/helpers/buffers/ordering_sender.rs"
URF = "ipa-core/src/helpers/buffers/unordered_receiver.rs"
SCF = "ipa-core/src/helpers/transport/stream/collection.rs"
VARIANTS += [
    dict(prop="C14", name="save-waker-keeps-first", expect="SLOT-latest|save_waker",
         edits=[dict(file=OSF, find="        if let Some(waker) = v {\n            waker.clone_from(cx.waker());\n        } else {\n            v.replace(cx.waker().clone());\n        }", replace="        v.get_or_insert_with(|| cx.waker().clone());")]),
    dict(prop="C14", name="save-waker-always-replace", benign=True,
         edits=[dict(file=OSF, find="        if let Some(waker) = v {\n            waker.clone_from(cx.waker());\n        } else {\n            v.replace(cx.waker().clone());\n        }", replace="        v.replace(cx.waker().clone());")]),
    dict(prop="C14", name="add-waker-keeps-old", expect="SLOT-latest|add_waker",
         edits=[dict(file=URF, find="            if let Some(old) = self.wakers[index].as_mut() {\n                old.clone_from(waker);\n            } else {", replace="            if self.wakers[index].is_some() {\n                // already registered\n            } else {")]),
    dict(prop="C14", name="overflow-refreshes-last-entry", cfg="N", expect="OVERFLOW-append|add_waker",
         edits=[dict(file=URF, find='            #[cfg(feature = "stall-detection")]\n            let overflow = (waker.clone(), i);\n            #[cfg(not(feature = "stall-detection"))]\n            let overflow = waker.clone();\n            self.overflow_wakers.push(overflow);', replace='            #[cfg(feature = "stall-detection")]\n            if let Some((old, _)) = self.overflow_wakers.iter_mut().find(|(_, idx)| *idx == i) {\n                old.clone_from(waker);\n            } else {\n                self.overflow_wakers.push((waker.clone(), i));\n            }\n            #[cfg(not(feature = "stall-detection"))]\n            if let Some(old) = self.overflow_wakers.last_mut() {\n                old.clone_from(waker);\n            } else {\n                self.overflow_wakers.push(waker.clone());\n            }')]),
    dict(prop="C14", name="overflow-refresh-keyed-by-index", benign=True,
         edits=[dict(file=URF, find='            #[cfg(feature = "stall-detection")]\n            let overflow = (waker.clone(), i);\n            #[cfg(not(feature = "stall-detection"))]\n            let overflow = waker.clone();\n            self.overflow_wakers.push(overflow);', replace='            #[cfg(feature = "stall-detection")]\n            if let Some((old, _)) = self.overflow_wakers.iter_mut().find(|(_, idx)| *idx == i) {\n                old.clone_from(waker);\n            } else {\n                self.overflow_wakers.push((waker.clone(), i));\n            }\n            #[cfg(not(feature = "stall-detection"))]\n            self.overflow_wakers.push(waker.clone());')]),
    dict(prop="C14", name="overflow-refresh-keyed-by-ge", expect="OVERFLOW-append|add_waker",
         edits=[dict(file=URF, find='            #[cfg(feature = "stall-detection")]\n            let overflow = (waker.clone(), i);\n            #[cfg(not(feature = "stall-detection"))]\n            let overflow = waker.clone();\n            self.overflow_wakers.push(overflow);', replace='            #[cfg(feature = "stall-detection")]\n            if let Some((old, _)) = self.overflow_wakers.iter_mut().find(|(_, idx)| *idx >= i) {\n                old.clone_from(waker);\n            } else {\n                self.overflow_wakers.push((waker.clone(), i));\n            }\n            #[cfg(not(feature = "stall-detection"))]\n            self.overflow_wakers.push(waker.clone());')]),
    dict(prop="C14", name="overflow-drain-skipped-when-slot-empty", expect="OVERFLOW-drain|wake_next:drain-depends-on-cursor-only",
         edits=[dict(file=URF, find='        if let Some(w) = self.wakers[index].take() {\n            w.wake();\n        }\n        if self.next % (self.wakers.len() / 2) == 0 {', replace='        let Some(w) = self.wakers[index].take() else {\n            return;\n        };\n        w.wake();\n        if self.next % (self.wakers.len() / 2) == 0 {')]),
    dict(prop="C14", name="overflow-drain-every-2len", expect="OVERFLOW-drain|wake_next:cadence-meets-every-window",
         edits=[dict(file=URF, find='        if self.next % (self.wakers.len() / 2) == 0 {', replace='        if self.next % (self.wakers.len() * 2) == 0 {')]),
    dict(prop="C14", name="overflow-drain-every-len", benign=True,
         edits=[dict(file=URF, find='        if self.next % (self.wakers.len() / 2) == 0 {', replace='        if self.next % self.wakers.len() == 0 {')]),
    dict(prop="C14", name="overflow-drain-every-step", benign=True,
         edits=[dict(file=URF, find='        if self.next % (self.wakers.len() / 2) == 0 {', replace='        if !self.overflow_wakers.is_empty() {')]),
    dict(prop="C14", name="overflow-drain-wakes-first-only", expect="OVERFLOW-drain|wake_next:wakes-every-parked-waker",
         edits=[dict(file=URF, find='            for (w, _) in take(&mut self.overflow_wakers) {\n                w.wake();\n            }', replace='            for (w, _) in take(&mut self.overflow_wakers) {\n                w.wake();\n                break;\n            }'), dict(file=URF, find='            for w in take(&mut self.overflow_wakers) {\n                w.wake();\n            }', replace='            for w in take(&mut self.overflow_wakers) {\n                w.wake();\n                break;\n            }')]),
    dict(prop="C14", name="overflow-drain-wakes-first-only-n", cfg="N", expect="OVERFLOW-drain|wake_next:wakes-every-parked-waker",
         edits=[dict(file=URF, find='            for (w, _) in take(&mut self.overflow_wakers) {\n                w.wake();\n            }', replace='            for (w, _) in take(&mut self.overflow_wakers) {\n                w.wake();\n                break;\n            }'), dict(file=URF, find='            for w in take(&mut self.overflow_wakers) {\n                w.wake();\n            }', replace='            for w in take(&mut self.overflow_wakers) {\n                w.wake();\n                break;\n            }')]),
    dict(prop="C13", name="rendezvous-keeps-old-waker", expect="WAKE-latest|add_waker",
         edits=[dict(file=SCF, find="                StreamState::Waiting(old_waker) => {\n                    old_waker.clone_from(waker);\n                    None", replace="                StreamState::Waiting(_old_waker) => {\n                    None")]),
]

SVA = "ipa-core/src/secret_sharing/vector/array.rs"
VARIANTS += [
    dict(prop="C06", name="from-random-overlapping-blocks", expect="COVER-random|StdArray<Fp25519, 16>:blocks-tile-source",
         edits=[dict(file=SVA, find="                        GenericArray::from_slice(&src[$item_len * i..$item_len * (i + 1)]).clone(),", replace="                        GenericArray::from_slice(&src[i..i + $item_len]).clone(),")]),
    dict(prop="C06", name="from-random-offset-rewritten", benign=True,
         edits=[dict(file=SVA, find="                        GenericArray::from_slice(&src[$item_len * i..$item_len * (i + 1)]).clone(),", replace="                        GenericArray::from_slice(&src[i * $item_len..i * $item_len + $item_len]).clone(),")]),
]

_C20H = _json.load(open(_os.path.join(_os.path.dirname(_os.path.abspath(__file__)), "c20_hoist.json")))
NSF = "ipa-core/src/net/server/mod.rs"
VARIANTS += [
    dict(prop="C20", name="make-service-hoisted", benign=True,
         edits=[dict(file=NSF, find=_C20H["benign"][0], replace=_C20H["benign"][1])]),
    dict(prop="C20", name="make-service-hoisted-header-on-tls-arm", expect="ARM-tls|serve#3:tls-server-ignores-identity-header",
         edits=[dict(file=NSF, find=_C20H["seeded"][0], replace=_C20H["seeded"][1])]),
]

HRF = "ipa-core/src/hpke/registry.rs"
QPF = "ipa-core/src/query/processor.rs"
VARIANTS += [
    dict(prop="C10", name="single-key-registry-ignores-key-id", expect="KEY-lookup|<KeyRegistry<PrivateKeyOnly> as PrivateKeyRegistry>::private_key",
         edits=[dict(file=HRF, find="        self.key(key_id).map(|sk| &**sk)", replace="        let sk = match &*self.keys {\n            [only] => Some(only),\n            _ => self.key(key_id),\n        };\n        sk.map(|sk| &**sk)")]),
    dict(prop="C10", name="registry-key-off-by-one", expect="KEY-lookup|KeyRegistry::key:indexed-by-id",
         edits=[dict(file=HRF, find="            key_id if key_id < self.keys.len() => Some(&self.keys[key_id]),", replace="            key_id if key_id + 1 < self.keys.len() => Some(&self.keys[key_id + 1]),")]),
    dict(prop="C18", name="shard-status-fields-swapped", expect="FLOW-shard-status|error-carries-own-status",
         edits=[dict(file=QPF, find="                my_status: status,\n                other_status: req.status,", replace="                my_status: req.status,\n                other_status: status,")]),
]

OIF = "ipa-core/src/protocol/ipa_prf/oprf_padding/insecure.rs"
VARIANTS += [
    dict(prop="C12", name="eq11-sum-one-term-short", expect="SHAPE-eq11|right_hand_side:sum-range",
         edits=[dict(file=OIF, find="    for k in n - big_delta + 1..=n {", replace="    for k in n - big_delta + 1..n {")]),
    dict(prop="C12", name="eq11-prefactor-exponent", expect="SHAPE-eq11|right_hand_side:prefactor",
         edits=[dict(file=OIF, find="    let r = E.powf(-epsilon);\n    let a = (1.0 - r) / (1.0 + r - 2.0 * (pow_u32(r, n + 1)));", replace="    let r = E.powf(-epsilon);\n    let a = (1.0 - r) / (1.0 + r - 2.0 * (pow_u32(r, n)));")]),
    dict(prop="C12", name="eq11-prefactor-rewritten", benign=True,
         edits=[dict(file=OIF, find="    let r = E.powf(-epsilon);\n    let a = (1.0 - r) / (1.0 + r - 2.0 * (pow_u32(r, n + 1)));", replace="    let r = E.powf(-epsilon);\n    let a = (1.0 - r) / ((1.0 - 2.0 * pow_u32(r, n + 1)) + r);")]),
    dict(prop="C12", name="eq11-strict-acceptance", expect="SHAPE-eq11|find_smallest_n:first-n-with-rhs<=delta",
         edits=[dict(file=OIF, find="        if small_delta >= right_hand_side(n, big_delta, epsilon) {", replace="        if small_delta > right_hand_side(n, big_delta, epsilon) {")]),
    dict(prop="C12", name="eq11-scan-from-zero", expect="SHAPE-eq11|find_smallest_n",
         edits=[dict(file=OIF, find="    for n in big_delta.. {", replace="    for n in big_delta + 1.. {")]),
]

RVF = "ipa-core/src/protocol/basics/reveal.rs"
GFF = "ipa-core/src/ff/galois_field.rs"
HSF = "ipa-core/src/net/http_serde.rs"
RHQ = "ipa-core/src/query/runner/hybrid.rs"
VARIANTS += [
    dict(prop="C17", name="records-stream-skips-parse-errors", expect="PARSE-err|RecordsStream:no-test-of-inner-result",
         edits=[dict(file=SIF, find="            if let Some(v) = M::read_from(this.buffer) {\n                return Poll::Ready(Some(v.map_err(|e: T::DeserializationError| {\n                    crate::error::Error::ParseError(e.into())\n                })));\n            }", replace="            if let Some(Ok(v)) = M::read_from::<T>(this.buffer) {\n                return Poll::Ready(Some(Ok(v)));\n            }")]),
    dict(prop="C08", name="galois-from-slice-full-length", expect="PAD-construct|Gf9Bit@convert::TryFrom::try_from",
         edits=[dict(file=GFF, find="                    if value.len()<=usize::try_from(Self::BITS/8).unwrap() {", replace="                    if value.len()<={($bits+7)/8} {")]),
    dict(prop="C09", name="query-string-epsilon-conditional", expect="FIELDS-query|HybridQueryParams.epsilon",
         edits=[dict(file=HSF, find="                        \"&max_breakdown_key={}&with_dp={}&epsilon={}\",\n                        config.max_breakdown_key, config.with_dp, config.epsilon,\n                    )?;", replace="                        \"&max_breakdown_key={}&with_dp={}\",\n                        config.max_breakdown_key, config.with_dp,\n                    )?;\n                    if config.with_dp != 0 {\n                        write!(f, \"&epsilon={}\", config.epsilon)?;\n                    }")]),
    dict(prop="C11", name="per-shard-size-bound", expect="BOUND-input|size-handed-through",
         edits=[dict(file=RHQ, find=_json.load(open(_os.path.join(_os.path.dirname(_os.path.abspath(__file__)), "c11_size.json")))["seeded"][0], replace=_json.load(open(_os.path.join(_os.path.dirname(_os.path.abspath(__file__)), "c11_size.json")))["seeded"][1])]),
]

VARIANTS += [
    dict(prop="C04", name="sharded-mac-reveal-uses-semi-honest", expect="WHO-reveal|AdditiveShare<F, N> / malicious::Upgraded<Sharded>",
         edits=[dict(file=RVF, find="        ShardedUpgradedMaliciousContext<'a, F>: 'fut,\n    {\n        use crate::secret_sharing::replicated::malicious::ThisCodeIsAuthorizedToDowngradeFromMalicious;\n\n        let x_share = self.x().access_without_downgrade();\n        malicious_reveal(ctx, record_id, excluded, x_share).await", replace="        ShardedUpgradedMaliciousContext<'a, F>: 'fut,\n    {\n        use crate::secret_sharing::replicated::malicious::ThisCodeIsAuthorizedToDowngradeFromMalicious;\n\n        let x_share = self.x().access_without_downgrade();\n        semi_honest_reveal(ctx, record_id, excluded, x_share).await")]),
    dict(prop="C02", name="dzkp-multiply-skips-proof", expect="WHO-multiply|SecureMul<dzkp_malicious::DZKPUpgraded>",
         edits=[dict(file="ipa-core/src/protocol/basics/mul/dzkp_malicious.rs", find="        zkp_multiply(ctx, record_id, self, rhs).await", replace="        crate::protocol::basics::mul::semi_honest::sh_multiply(ctx, record_id, self, rhs).await")]),
]

SMF = "ipa-core/src/protocol/ipa_prf/shuffle/malicious.rs"
MTF = "ipa-core/src/seq_join/multi_thread.rs"
SFF = "ipa-core/src/protocol/basics/shard_fin.rs"
VARIANTS += [
    dict(prop="C05", name="verify-shuffle-skips-empty-output", expect="PATH-verify|verify_shuffle:no-ok-without-verify",
         edits=[dict(file=SMF, find="    // reveal keys\n    let k_ctx = ctx\n        .narrow(&VerifyShuffleStep::RevealMACKey)", replace="    if shuffled_shares.is_empty() {\n        return Ok(());\n    }\n    // reveal keys\n    let k_ctx = ctx\n        .narrow(&VerifyShuffleStep::RevealMACKey)")]),
    dict(prop="C05", name="verify-shuffle-keys-not-opened", expect="PATH-verify|verify_shuffle:h2_verify:uses-opened-keys",
         edits=[dict(file=SMF, find="            h2_verify::<_, S>(ctx, &keys, shuffled_shares, x2).await", replace="            h2_verify::<_, S>(ctx, &vec![Gf32Bit::ZERO; keys.len()], shuffled_shares, x2).await")]),
    dict(prop="C05", name="verify-shuffle-match-bound-first", benign=True,
         edits=[dict(file=SMF, find="    // verify messages and shares\n    match messages {\n        IntermediateShuffleMessages::H1 { x1 } => {\n            h1_verify::<_, S>(ctx, &keys, shuffled_shares, x1).await\n        }", replace="    // verify messages and shares\n    let keys = keys.as_slice();\n    match messages {\n        IntermediateShuffleMessages::H1 { x1 } => {\n            let verdict = h1_verify::<_, S>(ctx, keys, shuffled_shares, x1).await;\n            verdict\n        }")]),
    dict(prop="C15", name="parallel-join-drains-before-errors", cfg="M", expect="JOIN-parallel|mt:no-drain-await",
         edits=[dict(file=MTF, find="        let mut result = Vec::with_capacity(scope.len());\n        while let Some(item) = scope.next().await {\n            // join error is nothing we can do about\n            result.push(item.expect(\"parallel_join: received JoinError\")?);\n        }\n        Ok(result)", replace="        Spawner::collect(&mut scope)\n            .await\n            .into_iter()\n            .map(|item| item.expect(\"parallel_join: received JoinError\"))\n            .collect()")]),
    dict(prop="C15", name="parallel-join-errors-after-loop", cfg="M", expect="JOIN-parallel|mt:error-returned-on-arrival",
         edits=[dict(file=MTF, find="        let mut result = Vec::with_capacity(scope.len());\n        while let Some(item) = scope.next().await {\n            // join error is nothing we can do about\n            result.push(item.expect(\"parallel_join: received JoinError\")?);\n        }\n        Ok(result)", replace="        let mut result = Vec::with_capacity(scope.len());\n        while let Some(item) = scope.next().await {\n            // join error is nothing we can do about\n            result.push(item.expect(\"parallel_join: received JoinError\"));\n        }\n        result.into_iter().collect()")]),
    dict(prop="C15", name="parallel-join-explicit-match", cfg="M", benign=True,
         edits=[dict(file=MTF, find="            result.push(item.expect(\"parallel_join: received JoinError\")?);", replace="            match item.expect(\"parallel_join: received JoinError\") {\n                Ok(v) => result.push(v),\n                Err(e) => return Err(e),\n            }")]),
    dict(prop="C07", name="shard-merge-wraps", expect="SAT-merge|saturating-addition",
         edits=[dict(file=SFF, find="            self.values = integer_sat_add::<_, ThirtyTwoBitStep, B>(\n                ctx,\n                record_id,\n                &self.values,\n                &other.values,\n            )\n            .await?;", replace="            let (sum, _) = crate::protocol::ipa_prf::boolean_ops::addition_sequential::integer_add::<_, ThirtyTwoBitStep, B>(\n                ctx.narrow(&crate::protocol::ipa_prf::boolean_ops::step::SaturatedAdditionStep::Add),\n                record_id,\n                &self.values,\n                &other.values,\n            )\n            .await?;\n            self.values = sum;")]),
    dict(prop="C01", name="shard-merge-wraps", expect="SAT-merge|saturating-addition",
         edits=[dict(file=SFF, find="            self.values = integer_sat_add::<_, ThirtyTwoBitStep, B>(\n                ctx,\n                record_id,\n                &self.values,\n                &other.values,\n            )\n            .await?;", replace="            let (sum, _) = crate::protocol::ipa_prf::boolean_ops::addition_sequential::integer_add::<_, ThirtyTwoBitStep, B>(\n                ctx.narrow(&crate::protocol::ipa_prf::boolean_ops::step::SaturatedAdditionStep::Add),\n                record_id,\n                &self.values,\n                &other.values,\n            )\n            .await?;\n            self.values = sum;")]),
]

SSF = "ipa-core/src/protocol/ipa_prf/shuffle/sharded.rs"
VARIANTS += [
    dict(prop="C05", name="shuffle-h2-masks-with-wrong-pair", expect="ALGEBRA|",
         edits=[dict(file=SSF, find="        .narrow(&ShuffleStep::Permute23)\n        .mask_and_shuffle(Direction::Right, &x2)", replace="        .narrow(&ShuffleStep::Permute23)\n        .mask_and_shuffle(Direction::Left, &x2)")]),
    dict(prop="C05", name="shuffle-rng-sides-swapped", expect="ALGEBRA|",
         edits=[dict(file=SSF, find="                Direction::Left => ctx.prss_rng().0,\n                Direction::Right => ctx.prss_rng().1,", replace="                Direction::Left => ctx.prss_rng().1,\n                Direction::Right => ctx.prss_rng().0,")]),
    dict(prop="C05", name="shuffle-h3-share-sides-swapped", expect="ALGEBRA|replicated",
         edits=[dict(file=SSF, find="                Ok::<_, Error<_>>(S::new(c1 + c2, a))", replace="                Ok::<_, Error<_>>(S::new(a, c1 + c2))")]),
    dict(prop="C05", name="shuffle-h2-result-without-c2", expect="ALGEBRA|reconstructs-to-input",
         edits=[dict(file=SSF, find="                Ok::<_, Error<_>>(S::new(b, c1 + c2))", replace="                let _ = c2;\n                Ok::<_, Error<_>>(S::new(b, c1))")]),
    dict(prop="C05", name="shuffle-h3-keeps-unmasked-y2", expect="ALGEBRA|verification-pair:x2~y2",
         edits=[dict(file=SSF, find="    Ok((res, IntermediateShuffleMessages::H3 { y1, y2 }))\n}", replace="    let y2 = y1.clone();\n    Ok((res, IntermediateShuffleMessages::H3 { y1, y2 }))\n}")]),
    dict(prop="C05", name="shuffle-h1-sum-helper", benign=True,
         edits=[dict(file=SSF, find="            shares.into_iter().map(|share| share.left() + share.right()),", replace="            shares.into_iter().map(sum_of_sides::<S>),"),
                dict(file=SSF, find="/// Sharded shuffle as performed by shards on H2.", replace="fn sum_of_sides<S: Shuffleable>(share: S) -> S::Share {\n    let l = share.left();\n    l + share.right()\n}\n\n/// Sharded shuffle as performed by shards on H2.")]),
    dict(prop="C05", name="shuffle-mask-right-operand-first", benign=True,
         edits=[dict(file=SSF, find="                let c2 = y3 + &a;", replace="                let masked: S::Share = y3 + &a;\n                let c2 = masked;")]),
]

CMF = "ipa-core/src/protocol/context/mod.rs"
VARIANTS += [
    dict(prop="C05", name="recv-all-any-error-ends-table", expect="TRANSFER|recv_all:ends-only-on-end-of-stream",
         edits=[dict(file=SSF, find="                    Err(Error::EndOfStream { .. }) => break,\n                    Err(e) => return Err(e.into()),", replace="                    Err(_) => break,")]),
    dict(prop="C05", name="recv-all-skips-a-record-id", expect="TRANSFER|recv_all:next-record-id",
         edits=[dict(file=SSF, find="                    Ok(v) => buf.push(v),\n                    Err(Error::EndOfStream { .. }) => break,", replace="                    Ok(v) => {\n                        buf.push(v);\n                        rid += 1;\n                    }\n                    Err(Error::EndOfStream { .. }) => break,")]),
    dict(prop="C05", name="send-all-ok-without-close", expect="TRANSFER|send_all:closes-before-ok",
         edits=[dict(file=SSF, find="            send_channel.close(RecordId::from(sz)).await;\n\n            Ok(())", replace="            if sz > 0 {\n                send_channel.close(RecordId::from(sz)).await;\n            }\n\n            Ok(())")]),
    dict(prop="C05", name="send-all-ignores-send-errors", expect="TRANSFER|send_all:send-errors-propagate",
         edits=[dict(file=SSF, find="            while let Some(v) = send_stream.next().await {\n                v?;\n            }", replace="            while let Some(v) = send_stream.next().await {\n                let _ = v;\n            }")]),
    dict(prop="C05", name="h2-empty-return-before-size-word", expect="TRANSFER|h2:size-reported-before-any-return",
         edits=[dict(file=SSF, find="    // at this moment we know the cardinality of C, and we let H1 know it, so it can start\n    // setting up its own shares.\n    ctx.narrow(&ShuffleStep::Cardinality)\n        .send_word(Direction::Left, x3.len())\n        .await?;\n\n    let Some(x3_len) = NonZeroUsize::new(x3.len()) else {\n        return Ok((Vec::new(), IntermediateShuffleMessages::H2 { x2 }));\n    };", replace="    let Some(x3_len) = NonZeroUsize::new(x3.len()) else {\n        return Ok((Vec::new(), IntermediateShuffleMessages::H2 { x2 }));\n    };\n    ctx.narrow(&ShuffleStep::Cardinality)\n        .send_word(Direction::Left, x3.len())\n        .await?;")]),
    dict(prop="C05", name="h3-empty-return-on-empty-y1", expect="TRANSFER|h3:empty-return-only-if-empty",
         edits=[dict(file=SSF, find="    let Some(y3_len) = NonZeroUsize::new(y3.len()) else {", replace="    let Some(y3_len) = NonZeroUsize::new(y3.len().min(y1.len())) else {")]),
    dict(prop="C05", name="pick-shard-ignores-direction", expect="TRANSFER|pick_shard:draw-mod-shard-count",
         edits=[dict(file=CMF, find="        let index: u128 = self.prss().generate_one_side(record_id, direction);", replace="        let _ = direction;\n        let index: u128 = self.prss().generate_one_side(record_id, Direction::Left);")]),
    dict(prop="C05", name="recv-all-match-rewritten", benign=True,
         edits=[dict(file=SSF, find="                match recv_channel.receive(rid).await {\n                    Ok(v) => buf.push(v),\n                    Err(Error::EndOfStream { .. }) => break,\n                    Err(e) => return Err(e.into()),\n                }", replace="                let item = recv_channel.receive(rid).await;\n                let v = match item {\n                    Ok(v) => v,\n                    Err(Error::EndOfStream { .. }) => break,\n                    Err(e) => return Err(e.into()),\n                };\n                buf.push(v);")]),
]

PRF = "ipa-core/src/protocol/prss/mod.rs"
VARIANTS += [
    dict(prop="C06", name="prss-offset-masked-to-11-bits", expect="RANGE-index|packing-injective",
         edits=[dict(file=PRF, find="            (u64::from(value.index.0) << 32) + u64::from(value.offset)", replace="            (u64::from(value.index.0) << 32) | u64::from(value.offset & (PrssIndex128::MAX_OFFSET - 1))")]),
    dict(prop="C06", name="prss-packing-with-or", benign=True,
         edits=[dict(file=PRF, find="            (u64::from(value.index.0) << 32) + u64::from(value.offset)", replace="            (u64::from(value.index.0) << 32) | u64::from(value.offset)")]),
    dict(prop="C06", name="prss-packing-shift-11", expect="RANGE-index|packing-injective",
         edits=[dict(file=PRF, find="            (u64::from(value.index.0) << 32) + u64::from(value.offset)", replace="            (u64::from(value.index.0) << 11) + u64::from(value.offset)")]),
]

DPF = "ipa-core/src/protocol/dp/mod.rs"
VARIANTS += [
    dict(prop="C12", name="laplace-sampler-reads-defaulted-sensitivity", expect="FIELDS-noise|DiscreteLaplace:consumers-read-initialised-fields",
         edits=[dict(file=DPF, find="        let truncated_discrete_laplace = OPRFPaddingDp::new(\n            noise_params.epsilon,\n            noise_params.delta,\n            noise_params.per_user_credit_cap,\n        )?;\n        let shift = truncated_discrete_laplace.get_shift();", replace="        #[allow(clippy::cast_possible_truncation, clippy::cast_sign_loss)]\n        let sensitivity = noise_params.ell_1_sensitivity.ceil() as u32;\n        let truncated_discrete_laplace =\n            OPRFPaddingDp::new(noise_params.epsilon, noise_params.delta, sensitivity)?;\n        let shift = truncated_discrete_laplace.get_shift();")]),
    dict(prop="C12", name="laplace-sensitivity-field-moved-consistently", benign=True,
         edits=[dict(file=DPF, find="        let truncated_discrete_laplace = OPRFPaddingDp::new(\n            noise_params.epsilon,\n            noise_params.delta,\n            noise_params.per_user_credit_cap,\n        )?;\n        let shift = truncated_discrete_laplace.get_shift();", replace="        #[allow(clippy::cast_possible_truncation, clippy::cast_sign_loss)]\n        let sensitivity = noise_params.ell_1_sensitivity.ceil() as u32;\n        let truncated_discrete_laplace =\n            OPRFPaddingDp::new(noise_params.epsilon, noise_params.delta, sensitivity)?;\n        let shift = truncated_discrete_laplace.get_shift();"),
                dict(file=DPF, find="                per_user_credit_cap: 2_u32.pow(u32::try_from(SS_BITS).unwrap()),\n                ..Default::default()\n            };\n\n            let truncated_discret_laplace", replace="                per_user_credit_cap: 2_u32.pow(u32::try_from(SS_BITS).unwrap()),\n                ell_1_sensitivity: f64::from(2_u32.pow(u32::try_from(SS_BITS).unwrap())),\n                ..Default::default()\n            };\n\n            let truncated_discret_laplace")]),
]

DVF = "ipa-core/src/protocol/context/dzkp_validator.rs"
DMF = "ipa-core/src/protocol/basics/mul/dzkp_malicious.rs"
VARIANTS += [
    dict(prop="C03", name="block-set-prss-sides-exchanged", expect="FIELDS-block|set@insert_segment_large",
         edits=[dict(file=DVF, find="                    &segment.y_right.0[256 * i..256 * (i + 1)],\n                    &segment.prss_left.0[256 * i..256 * (i + 1)],\n                    &segment.prss_right.0[256 * i..256 * (i + 1)],\n                    &segment.z_right.0[256 * i..256 * (i + 1)],\n                )\n                .unwrap();\n            } else {", replace="                    &segment.y_right.0[256 * i..256 * (i + 1)],\n                    &segment.prss_right.0[256 * i..256 * (i + 1)],\n                    &segment.prss_left.0[256 * i..256 * (i + 1)],\n                    &segment.z_right.0[256 * i..256 * (i + 1)],\n                )\n                .unwrap();\n            } else {")]),
    dict(prop="C03", name="small-segment-y-pair-crossed", expect="FIELDS-block|insert_segment_small:like-named-pairs",
         edits=[dict(file=DVF, find="            (segment.y_left, &mut block.y_left),\n            (segment.y_right, &mut block.y_right),", replace="            (segment.y_left, &mut block.y_right),\n            (segment.y_right, &mut block.y_left),")]),
    dict(prop="C03", name="zkp-multiply-records-b-for-x-right", expect="FIELDS-block|zkp_multiply:x_right",
         edits=[dict(file=DMF, find="        F::as_segment_entry(a.right_arr()),\n        F::as_segment_entry(b.left_arr()),", replace="        F::as_segment_entry(b.right_arr()),\n        F::as_segment_entry(b.left_arr()),")]),
    dict(prop="C03", name="block-setter-stores-twice", expect="FIELDS-block|MultiplicationInputsBlock::set:parameters-onto-fields",
         edits=[dict(file=DVF, find="        self.prss_right = BitArray::try_from(prss_right)?;\n        self.z_right = BitArray::try_from(z_right)?;\n\n        Ok(())", replace="        self.prss_right = BitArray::try_from(prss_left)?;\n        self.z_right = BitArray::try_from(z_right)?;\n        let _ = prss_right;\n\n        Ok(())")]),
    dict(prop="C03", name="large-segment-slices-bound-first", benign=True,
         edits=[dict(file=DVF, find="            if self.vec.len() > block_id + i {\n                MultiplicationInputsBlock::set(\n                    &mut self.vec[block_id + i],\n                    &segment.x_left.0[256 * i..256 * (i + 1)],", replace="            if self.vec.len() > block_id + i {\n                let range = 256 * i..256 * (i + 1);\n                let first = &segment.x_left.0[range];\n                MultiplicationInputsBlock::set(\n                    &mut self.vec[block_id + i],\n                    first,")]),
]

VARIANTS += [
    dict(prop="C18", name="status-fold-not-carried", expect="FLOW-status|fold#0:carried",
         edits=[dict(file=PR, find="        let shard_query_status_req = CompareStatusRequest { query_id, status };", replace="        let leader_status = status;\n        let shard_query_status_req = CompareStatusRequest { query_id, status };"),
                dict(file=PR, find="                    status = min_status(status, other);", replace="                    status = min_status(leader_status, other);")]),
    dict(prop="C18", name="status-fold-operands-swapped", benign=True,
         edits=[dict(file=PR, find="                    status = min_status(status, other);", replace="                    status = min_status(other, status);")]),
]

CSF = "ipa-core/src/protocol/ipa_prf/boolean_ops/comparison_and_subtraction_sequential.rs"
_c07cmp = _json.load(open(_os.path.join(_os.path.dirname(_os.path.abspath(__file__)), "c07_cmp.json")))
_c07calls = [dict(file=CSF, find="    subtraction_circuit::<_, S, 1>(ctx, record_id, x, y, &mut carry).await?;\n    Ok(carry)", replace="    comparison_circuit::<_, S, 1>(ctx, record_id, x, y, &mut carry).await?;\n    Ok(carry)"),
             dict(file=CSF, find="    subtraction_circuit::<_, S, N>(ctx, record_id, x, y, &mut carry).await?;\n    Ok(carry)", replace="    comparison_circuit::<_, S, N>(ctx, record_id, x, y, &mut carry).await?;\n    Ok(carry)")]
VARIANTS += [
    dict(prop="C07", name="comparison-carry-only-ripple-truncates-x", expect="WIRE-loop|comparison_circuit:zip",
         edits=_c07calls + [dict(file=CSF, find=_c07cmp["anchor"], replace=_c07cmp["bad"])]),
    dict(prop="C07", name="comparison-carry-only-ripple", benign=True,
         edits=_c07calls + [dict(file=CSF, find=_c07cmp["anchor"], replace=_c07cmp["good"])]),
]

CHF = "ipa-core/src/helpers/stream/chunks.rs"
_c01u = _json.load(open(_os.path.join(_os.path.dirname(_os.path.abspath(__file__)), "c01_unpack.json")))
VARIANTS += [
    dict(prop="C01", name="unpack-last-full-subchunk-tagged-partial-0", expect="RANGE-partial|nonzero:unpack",
         edits=[dict(file=CHF, find=_c01u["find"], replace=_c01u["bad"])]),
    dict(prop="C01", name="unpack-rewritten-with-index-arithmetic", benign=True,
         edits=[dict(file=CHF, find=_c01u["find"], replace=_c01u["good"])]),
    dict(prop="C01", name="slice-chunks-partial-without-remainder-guard", expect="RANGE-partial|nonzero:next_chunk",
         edits=[dict(file=CHF, find="        } else if *this.pos == whole_chunks && *this.remainder_len != 0 {", replace="        } else if *this.pos == whole_chunks {")]),
]

VARIANTS += [
    dict(prop="C19", name="reshard-iter-skips-first-item", expect="WRAP|reshard_iter:forwards",
         edits=[dict(file=CMF, find="    reshard_stream(ctx, stream::iter(input.into_iter()), shard_picker).await\n", replace="    reshard_stream(ctx, stream::iter(input.into_iter().skip(1)), shard_picker).await\n")]),
    dict(prop="C19", name="recv-from-shards-labels-with-own-id", expect="WRAP|recv_from_shards:labelled-with-origin",
         edits=[dict(file=CMF, find="                .map(|origin| self.shard_recv_channel(origin).map(move |v| (origin, v))),", replace="                .map(|origin| {\n                    let me = self.shard_id();\n                    self.shard_recv_channel(origin).map(move |v| (me, v))\n                }),")]),
    dict(prop="C19", name="reshard-iter-binds-stream-first", benign=True,
         edits=[dict(file=CMF, find="    reshard_stream(ctx, stream::iter(input.into_iter()), shard_picker).await\n", replace="    let items = stream::iter(input.into_iter());\n    let out = reshard_stream(ctx, items, shard_picker).await;\n    out\n")]),
]

CBF = "ipa-core/src/helpers/buffers/circular.rs"
VARIANTS += [
    dict(prop="C14", name="ring-len-wrapped-branch-rewritten", benign=True,
         edits=[dict(file=CBF, find="            self.capacity() + self.mask(self.write) - self.mask(self.read)", replace="            self.capacity() - (self.mask(self.read) - self.mask(self.write))")]),
    dict(prop="C14", name="ring-len-wrapped-branch-off", expect="RING|len-and-remaining",
         edits=[dict(file=CBF, find="            self.capacity() + self.mask(self.write) - self.mask(self.read)", replace="            self.capacity() + self.mask(self.write) - self.mask(self.read + 1)")]),
    dict(prop="C14", name="ring-range-end-off-by-one", expect="RING|range-covers-unit-cells",
         edits=[dict(file=CBF, find="        self.mask(ptr)..=self.mask(ptr + unit - 1)", replace="        self.mask(ptr)..=self.mask(ptr + unit)")]),
    dict(prop="C14", name="ring-inc-wraps-at-capacity", expect="RING|inc-wraps-at-2N",
         edits=[dict(file=CBF, find="    fn inc(&self, val: usize, delta: usize) -> usize {\n        self.wrap(val + delta)", replace="    fn inc(&self, val: usize, delta: usize) -> usize {\n        self.mask(val + delta)")]),
    dict(prop="C14", name="ring-take-wrap-test-not-strict", expect="RING-ops|take:wrap-arms",
         edits=[dict(file=CBF, find="        if range.end() < range.start() {", replace="        if range.end() <= range.start() {")]),
    dict(prop="C14", name="ring-take-wrap-test-flipped-operands", benign=True,
         edits=[dict(file=CBF, find="        if range.end() < range.start() {", replace="        if range.start() > range.end() {")]),
    dict(prop="C14", name="ring-take-advances-by-read-size", expect="RING-ops|take:copies-what-it-consumes",
         edits=[dict(file=CBF, find="        self.read = self.inc(self.read, delta);", replace="        self.read = self.inc(self.read, self.read_size);")]),
]

VARIANTS += [
    dict(prop="C03", name="challenge-rewritten-equivalently", benign=True,
         edits=[dict(file="ipa-core/src/helpers/hashing.rs", find="    F::truncate_from(val % (prime - exclude_to) + exclude_to)", replace="    let span = prime - exclude_to;\n    F::truncate_from(exclude_to + (val % span))")]),
    dict(prop="C03", name="challenge-span-one-short", expect="RANGE-challenge|shape",
         edits=[dict(file="ipa-core/src/helpers/hashing.rs", find="    F::truncate_from(val % (prime - exclude_to) + exclude_to)", replace="    F::truncate_from(val % (prime - exclude_to - 1) + exclude_to)")]),
]

BTF = "ipa-core/src/protocol/context/batcher.rs"
VARIANTS += [
    dict(prop="C16", name="batch-threshold-ignores-short-last-batch", expect="INDEX-arith|batch-position-size",
         edits=[dict(file=BTF, find="        let total_count = min(self.records_per_batch, remaining_records);", replace="        let total_count = min(self.records_per_batch, remaining_records.max(self.records_per_batch));")]),
    dict(prop="C16", name="batch-position-from-batch-offset-only", expect="INDEX-arith|batch-position-size",
         edits=[dict(file=BTF, find="        let record_offset_in_batch = usize::from(record_id) - first_record_in_batch;", replace="        let record_offset_in_batch =\n            usize::from(record_id) - batch_offset * self.records_per_batch;")]),
    dict(prop="C16", name="batch-position-by-modulo", benign=True,
         edits=[dict(file=BTF, find="        let record_offset_in_batch = usize::from(record_id) - first_record_in_batch;", replace="        let record_offset_in_batch = usize::from(record_id) % self.records_per_batch;")]),
]

VARIANTS += [
    dict(prop="C05", name="tag-hash-fold-starts-at-one", expect="TAG|hash:fold-from-zero",
         edits=[dict(file=SMF, find="            .fold(<Gf32Bit as SharedValue>::ZERO, |acc, (row_entry, key)| {", replace="            .fold(<Gf32Bit as crate::ff::Field>::ONE, |acc, (row_entry, key)| {")]),
    dict(prop="C05", name="tag-hash-step-ignores-key", expect="TAG|hash:fold-step",
         edits=[dict(file=SMF, find="                acc + row_entry * *key\n", replace="                let _ = key;\n                acc + row_entry\n")]),
    dict(prop="C05", name="tag-hash-drops-the-tag-word", expect="TAG|hash:entries=row-words-then-tag",
         edits=[dict(file=SMF, find="            .into_iter()\n            .chain(iter::once(tag))\n    });", replace="            .into_iter()\n            .chain(iter::once(Gf32Bit::ZERO * tag))\n    });")]),
    dict(prop="C05", name="reveal-keys-appends-zero", expect="TAG|keys:opened-then-ONE",
         edits=[dict(file=SMF, find="        .chain(iter::once(Gf32Bit::ONE))\n        .collect::<Vec<_>>();", replace="        .chain(iter::once(Gf32Bit::ZERO))\n        .collect::<Vec<_>>();")]),
    dict(prop="C05", name="tag-hash-step-operands-commuted", benign=True,
         edits=[dict(file=SMF, find="                acc + row_entry * *key\n", replace="                *key * row_entry + acc\n")]),
]

VARIANTS += [
    dict(prop="C05", name="tag-gen-transpose-swapped", expect="TAG|gen:transpose",
         edits=[dict(file=SMF, find="                .map(|col| (0..TAG_CHUNK).map(|i| split_rows[i][col].clone()).collect())", replace="                .map(|col| (0..TAG_CHUNK).map(|i| split_rows[i % split_rows.len()][(col + i) % keys.len()].clone()).collect())")]),
    dict(prop="C05", name="tag-gen-row-gets-neighbours-tag", expect="TAG|gen:tag-i-to-row-i",
         edits=[dict(file=SMF, find="                .map(|i| concatenate_row_and_tag(&chunk[i], &tags[i]))", replace="                .map(|i| concatenate_row_and_tag(&chunk[i], &tags[i ^ 1]))")]),
    dict(prop="C05", name="tag-gen-extra-closure-before-fold", benign=True,
         edits=[dict(file=SMF, find="            // Join tags to rows\n", replace="            let check_len = |n: usize| debug_assert_eq!(n, TAG_CHUNK);\n            check_len(tags.len());\n            // Join tags to rows\n")]),
]

OPF = "ipa-core/src/protocol/hybrid/oprf.rs"
VARIANTS += [
    dict(prop="C01", name="prf-key-from-per-shard-prss", expect="WIRE-prf|key-from-cross-shard-prss",
         edits=[dict(file=OPF, find="    let v: Replicated<Fp25519, 1> = ctx.cross_shard_prss().generate(RecordId::FIRST);", replace="    let v: Replicated<Fp25519, 1> = ctx.prss().generate(RecordId::FIRST);")]),
    dict(prop="C01", name="prf-report-takes-breakdown-from-value", expect="WIRE-prf|report-fields",
         edits=[dict(file=OPF, find="            value: input.value,\n            breakdown_key: input.breakdown_key,", replace="            breakdown_key: input.breakdown_key.clone(),\n            value: { let _ = input.value; Replicated::<V>::ZERO },")]),
    dict(prop="C01", name="prf-picker-mixes-in-record-id", expect="WIRE-prf|route-by-prf-value-only",
         edits=[dict(file=OPF, find="        report_stream,\n        |ctx, _, report| report.match_key % ctx.shard_count(),", replace="        report_stream,\n        |ctx, rid, report| (report.match_key + u64::from(u32::from(rid) & 1)) % ctx.shard_count(),")]),
    dict(prop="C01", name="prf-zip-skips-first-row", expect="WIRE-prf|zip(prf values, the same rows)",
         edits=[dict(file=OPF, find="        .zip(stream::iter(input_rows))", replace="        .zip(stream::iter(input_rows).skip(0).filter(|_| std::future::ready(true)))")]),
]

APF = "ipa-core/src/app.rs"
VARIANTS += [
    dict(prop="C18", name="shard-handler-accepts-kill", expect="TABLE-dispatch|shard:",
         edits=[dict(file=APF, find="            RouteId::CompleteQuery => {\n                // The processing flow for this API is exactly the same, regardless", replace="            RouteId::KillQuery | RouteId::CompleteQuery => {\n                // The processing flow for this API is exactly the same, regardless")]),
]

VLF = "ipa-core/src/protocol/context/validator.rs"
_c04_new_sig = dict(file=VLF, find="    pub fn new(ctx: MaliciousContext<'a, B>, offset: usize) -> Self {\n        // Each invocation requires 3 calls to PRSS to generate the state.", replace="    pub fn new(ctx: MaliciousContext<'a, B>, offset: usize, r_share: Replicated<F::ExtendedField>) -> Self {\n        // Each invocation requires 3 calls to PRSS to generate the state.")
_c04_new_body = dict(file=VLF, find="        let r_share: Replicated<F::ExtendedField> = ctx\n            .prss()\n            .generate(Self::r_share_record(offset, TOTAL_CALLS_TO_PRSS));\n        let prss = ctx.prss();", replace="        let prss = ctx.prss();")
VARIANTS += [
    dict(prop="C04", name="mac-key-sampled-once-per-validator", expect="FRESH-r|r-per-batch",
         edits=[_c04_new_sig, _c04_new_body,
                dict(file=VLF, find="                Box::new(move |batch_index| Malicious::new(ctx.clone(), batch_index)),", replace="                Box::new({\n                    let r_share: Replicated<F::ExtendedField> = ctx.prss().generate(Malicious::<F, B>::r_share_record(0, 3));\n                    move |batch_index| Malicious::new(ctx.clone(), batch_index, r_share.clone())\n                }),")]),
    dict(prop="C04", name="mac-key-drawn-by-the-batch-constructor", benign=True,
         edits=[_c04_new_sig, _c04_new_body,
                dict(file=VLF, find="                Box::new(move |batch_index| Malicious::new(ctx.clone(), batch_index)),", replace="                Box::new(move |batch_index| {\n                    let r_share: Replicated<F::ExtendedField> = ctx.prss().generate(Malicious::<F, B>::r_share_record(batch_index, 3));\n                    Malicious::new(ctx.clone(), batch_index, r_share)\n                }),")]),
    dict(prop="C04", name="mac-key-index-ignores-offset", expect="FRESH-r|r-per-batch",
         edits=[dict(file=VLF, find="            .generate(Self::r_share_record(offset, TOTAL_CALLS_TO_PRSS));", replace="            .generate(Self::r_share_record(0, TOTAL_CALLS_TO_PRSS));")]),
]

VARIANTS += [
    dict(prop="C01", name="slice-chunks-remainder-from-rounded-len", expect="CHUNK-cover|ranges-tile-the-slice",
         edits=[dict(file=CHF, find="        remainder_len: slice.len() % N,", replace="        remainder_len: (slice.len() + 1) % N,")]),
    dict(prop="C01", name="slice-chunks-whole-count-rounds-up", expect="CHUNK-cover|ranges-tile-the-slice",
         edits=[dict(file=CHF, find="        let whole_chunks = this.slice.len() / N;", replace="        let whole_chunks = this.slice.len().div_ceil(N).saturating_sub(usize::from(this.slice.len() % N == 1));")]),
    dict(prop="C01", name="slice-chunks-range-by-offset", benign=True,
         edits=[dict(file=CHF, find="            let slice = &this.slice[N * idx..N * (idx + 1)];", replace="            let start = N * idx;\n            let slice = &this.slice[start..start + N];")]),
]

VPF = "ipa-core/src/protocol/ipa_prf/validation_protocol/validation.rs"
VARIANTS += [
    dict(prop="C03", name="verifier-excludes-smaller-domain-for-later-proofs", expect="EXCLUDE-domain|verifier:exclude-sequence",
         edits=[dict(file=VPF, find="        let exclude_small = u128::try_from(CRF).unwrap();", replace="        let exclude_small = u128::try_from(CRF).unwrap() - 1;")]),
    dict(prop="C03", name="verifier-right-prover-hashes-paired-with-own-twice", expect="EXCLUDE-domain|verifier:hash-order",
         edits=[dict(file=VPF, find="            .zip(other_hashes_prover_right.hashes.iter())", replace="            .zip(my_hashes_prover_right.hashes.iter())")]),
]

_c17c = _json.load(open(_os.path.join(_os.path.dirname(_os.path.abspath(__file__)), "c17_carrier.json")))
VARIANTS += [
    dict(prop="C17", name="pending-length-in-a-local-lost-on-pending", expect="STATE|carried-state-stored-back",
         edits=[dict(file=SIF, find=_c17c["find"], replace=_c17c["bad"])]),
    dict(prop="C17", name="pending-length-in-a-local-stored-back", benign=True,
         edits=[dict(file=SIF, find=_c17c["find"], replace=_c17c["good"])]),
]

VARIANTS += [
    dict(prop="C12", name="excluded-direction-sides-swapped", expect="SHARE-excluded|zero-towards-excluded-helper",
         edits=[dict(file="ipa-core/src/secret_sharing/replicated/mod.rs", find="            Direction::Left => Self::new(V::ZERO, v),\n            Direction::Right => Self::new(v, V::ZERO),", replace="            Direction::Left => Self::new(v, V::ZERO),\n            Direction::Right => Self::new(V::ZERO, v),")]),
]

VARIANTS += [
    dict(prop="C03", name="batch-empty-if-any-gate-empty", expect="PATH-verdict|Batch::is_empty:all-gates-empty",
         edits=[dict(file=DVF, find="        self.inner.is_empty() || self.inner.values().all(MultiplicationInputsBatch::is_empty)", replace="        self.inner.is_empty() || self.inner.values().any(MultiplicationInputsBatch::is_empty)")]),
]

VARIANTS += [
    dict(prop="C03", name="batch-first-record-off-by-one-batch", expect="PACK-slots|batch-origin",
         edits=[dict(file=DVF, find="                    .then(|| RecordId::from(batch_index * max_multiplications_per_gate));", replace="                    .then(|| RecordId::from((batch_index + 1) * max_multiplications_per_gate - max_multiplications_per_gate.min(batch_index)));")]),
]

OSF = "ipa-core/src/helpers/buffers/ordering_sender.rs"
VARIANTS += [
    dict(prop="C14", name="waker-smallest-index-appended-at-back", expect="SORTED-wakers|sorted-insert",
         edits=[dict(file=OSF, find="        self.wakers.insert(0, item);\n        Ok(())", replace="        self.wakers.push_back(item);\n        Ok(())")]),
    dict(prop="C14", name="waker-inserted-before-smaller-entry", expect="SORTED-wakers|sorted-insert",
         edits=[dict(file=OSF, find="                    self.wakers.insert(j + 1, item);", replace="                    self.wakers.insert(j, item);")]),
    dict(prop="C14", name="wake-looks-in-shard-of-previous-index", expect="SORTED-wakers|same-shard-for-add-and-wake",
         edits=[dict(file=OSF, find="    fn wake(&self, i: usize) {\n        self.shard(i).wake(i);", replace="    fn wake(&self, i: usize) {\n        self.shard(i.saturating_sub(1)).wake(i);")]),
]

HIF = "ipa-core/src/report/hybrid_info.rs"
VARIANTS += [
    dict(prop="C09", name="impression-info-ignores-trailing-bytes", expect="EXACT-length|HybridImpressionInfo",
         edits=[dict(file=HIF, find="        let &[key_id] = bytes else {\n            return Err(InvalidHybridReportError::Length(bytes.len(), 1));\n        };", replace="        let Some(&key_id) = bytes.first() else {\n            return Err(InvalidHybridReportError::Length(bytes.len(), 1));\n        };")]),
    dict(prop="C09", name="conversion-info-accepts-longer-rest", expect="EXACT-length|HybridConversionInfo",
         edits=[dict(file=HIF, find="        if rest.len() != FIXED_LEN {", replace="        if rest.len() < FIXED_LEN {")]),
    dict(prop="C09", name="impression-info-length-checked-explicitly", benign=True,
         edits=[dict(file=HIF, find="        let &[key_id] = bytes else {\n            return Err(InvalidHybridReportError::Length(bytes.len(), 1));\n        };", replace="        if bytes.len() != 1 {\n            return Err(InvalidHybridReportError::Length(bytes.len(), 1));\n        }\n        let key_id = bytes[0];")]),
]

URF = "ipa-core/src/helpers/buffers/unordered_receiver.rs"
VARIANTS += [
    dict(prop="C13", name="spare-keeps-head-instead-of-tail", expect="SPARE|extend:keeps-tail-then-chunk",
         edits=[dict(file=URF, find="            self.buf = self.buf.split_off(self.offset);", replace="            self.buf.truncate(self.buf.len() - self.offset);")]),
    dict(prop="C13", name="spare-leftover-starts-at-size", expect="SPARE|extend:slices",
         edits=[dict(file=URF, find="            self.replace(&v[needed..]);", replace="            self.replace(&v[sz.min(v.len())..]);")]),
    dict(prop="C13", name="spare-read-allows-one-past", expect="SPARE|read:slice-and-advance",
         edits=[dict(file=URF, find="        if end <= self.buf.len() {", replace="        if end < self.buf.len() {")]),
    dict(prop="C13", name="spare-needed-bound-first", benign=True,
         edits=[dict(file=URF, find="            let needed = sz - remainder;\n            let mut tmp = GenericArray::<u8, M::Size>::default();\n            tmp[..remainder].copy_from_slice(&self.buf[self.offset..]);", replace="            let mut tmp = GenericArray::<u8, M::Size>::default();\n            let tail = &self.buf[self.offset..];\n            tmp[..remainder].copy_from_slice(tail);\n            let needed = sz - remainder;")]),
]

VARIANTS += [
    dict(prop="C06", name="leader-distributes-seeds-swapped", expect="SIDES-seed|leader-sends-(left, right)",
         edits=[dict(file="ipa-core/src/helpers/cross_shard_prss.rs", find="                async move { sender.send(RecordId::FIRST, (l_seed, r_seed)).await }", replace="                async move { sender.send(RecordId::FIRST, (r_seed, l_seed)).await }")]),
    dict(prop="C06", name="seed-setup-builds-generators-crossed", expect="SIDES-seed|setup-keeps-sides",
         edits=[dict(file="ipa-core/src/protocol/prss/seed.rs", find="        let fl = GeneratorFactory::from(self.left);\n        let fr = GeneratorFactory::from(self.right);", replace="        let fl = GeneratorFactory::from(self.right);\n        let fr = GeneratorFactory::from(self.left);")]),
]

VARIANTS += [
    dict(prop="C14", name="receiver-waker-window-one-too-wide", expect="SLOT-ring|window-maps-injectively-to-slots",
         edits=[dict(file=URF, find="        if i > self.next + self.wakers.len() {", replace="        if i > self.next + self.wakers.len() + 1 {")]),
    dict(prop="C14", name="receiver-waker-window-test-rewritten", benign=True,
         edits=[dict(file=URF, find="        if i > self.next + self.wakers.len() {", replace="        if i - self.next > self.wakers.len() {")]),
]

OPM = "ipa-core/src/protocol/ipa_prf/oprf_padding/mod.rs"
VARIANTS += [
    dict(prop="C12", name="padding-skips-the-cap-cardinality", expect="COUNT-padding|oprf:every-cardinality-1..=cap",
         edits=[dict(file=OPM, find="                for cardinality in 1..=matchkey_cardinality_cap {", replace="                for cardinality in 1..matchkey_cardinality_cap {")]),
    dict(prop="C12", name="padding-total-counts-groups-not-rows", expect="COUNT-padding|oprf:total=rows",
         edits=[dict(file=OPM, find="                    total_number_of_fake_rows += sample * cardinality;", replace="                    total_number_of_fake_rows += sample + cardinality - cardinality;")]),
    dict(prop="C12", name="aggregation-dummy-key-share-sides-swapped", expect="COUNT-padding|aggregation:key-share-zero-towards-excluded",
         edits=[dict(file=OPM, find="                            Direction::Left => AdditiveShare::new(\n                                BK::ZERO,\n                                BK::truncate_from(u128::from(breakdownkey)),\n                            ),\n                            Direction::Right => AdditiveShare::new(\n                                BK::truncate_from(u128::from(breakdownkey)),\n                                BK::ZERO,\n                            ),", replace="                            Direction::Right => AdditiveShare::new(\n                                BK::ZERO,\n                                BK::truncate_from(u128::from(breakdownkey)),\n                            ),\n                            Direction::Left => AdditiveShare::new(\n                                BK::truncate_from(u128::from(breakdownkey)),\n                                BK::ZERO,\n                            ),")]),
]

MAS = "ipa-core/src/secret_sharing/replicated/malicious/additive_share.rs"
SAS = "ipa-core/src/secret_sharing/replicated/semi_honest/additive_share.rs"
VARIANTS += [
    dict(prop="C04", name="mac-share-sub-assign-adds-rx", expect="LINEAR-mac|SubAssign",
         edits=[dict(file=MAS, find="        self.x -= &rhs.x;\n        self.rx -= &rhs.rx;", replace="        self.x -= &rhs.x;\n        self.rx += &rhs.rx;")]),
    dict(prop="C04", name="mac-share-sub-assign-components-reordered",
         edits=[dict(file=MAS, find="        self.x -= &rhs.x;\n        self.rx -= &rhs.rx;", replace="        self.rx -= &rhs.rx;\n        self.x -= &rhs.x;")], benign=True),
]

VARIANTS += [
    dict(prop="C07", name="aggregate-width-test-on-second-operand", expect="WIRE-aggregate|width-test-on-first-operand",
         edits=[dict(file="ipa-core/src/protocol/ipa_prf/aggregation/mod.rs", find="                                if a.len() < usize::try_from(OV::BITS).unwrap() {", replace="                                if b.len() < usize::try_from(OV::BITS).unwrap() {")]),
]

VARIANTS += [
    dict(prop="C07", name="reveal-sends-right-component-to-right-peer", expect="POLY-reveal|semi_honest_reveal:sends-the-missing-component",
         edits=[dict(file=RVF, find="            .send(record_id, left)\n            .await?;", replace="            .send(record_id, right)\n            .await?;")]),
    dict(prop="C07", name="malicious-reveal-sends-left-both-ways", expect="POLY-reveal|malicious_reveal:sends-the-missing-component",
         edits=[dict(file=RVF, find="            left_sender.send(record_id, right)", replace="            left_sender.send(record_id, left)")]),
    dict(prop="C07", name="reveal-opened-value-drops-right", expect="POLY-reveal|semi_honest_reveal:opened=received+left+right",
         edits=[dict(file=RVF, find="        Ok(Some(share + left + right))", replace="        let _ = right;\n        Ok(Some(share + left))")]),
    dict(prop="C07", name="reveal-sum-reordered", benign=True,
         edits=[dict(file=RVF, find="        Ok(Some(share + left + right))", replace="        let opened = share + right;\n        Ok(Some(opened + left))")]),
]

SJL = "ipa-core/src/seq_join/local.rs"
VARIANTS += [
    dict(prop="C15", name="poll-others-short-circuits-with-any", expect="PAIR-poll|others-polled-before-pending",
         edits=[dict(file=SJL, find="                for f in this.active.iter_mut().skip(1) {\n                    f.check_ready(cx);\n                }", replace="                let _ready_behind_head = this.active.iter_mut().skip(1).any(|f| f.check_ready(cx));")]),
    dict(prop="C15", name="poll-others-with-for-each", benign=True,
         edits=[dict(file=SJL, find="                for f in this.active.iter_mut().skip(1) {\n                    f.check_ready(cx);\n                }", replace="                this.active.iter_mut().skip(1).for_each(|f| {\n                    f.check_ready(cx);\n                });")]),
]

VARIANTS += [
    dict(prop="C20", name="identity-from-last-chain-certificate", expect="WHO-identity|end-entity-cert",
         edits=[dict(file=NS, find="                .and_then(<[_]>::first);", replace="                .and_then(<[_]>::last);")]),
    dict(prop="C20", name="identity-from-chain-element-zero", benign=True,
         edits=[dict(file=NS, find="                .and_then(<[_]>::first);", replace="                .and_then(|chain| chain.first());")]),
]

VARIANTS += [
    dict(prop="C19", name="reshard-closes-channels-on-input-error", expect=["PAIR-close", "only-after-clean-end-of-input"],
         edits=[dict(file="ipa-core/src/protocol/context/mod.rs", find='                if let Some(val) = input.try_next().await? {\n                    if usize::try_from(*i).unwrap() >= input_len {', replace='                let next = input.try_next().await;\n                if !matches!(next, Ok(Some(_))) {\n                    for (last_record, send_channel) in send_channels.values() {\n                        send_channel.close(*last_record).await;\n                    }\n                }\n                if let Some(val) = next? {\n                    if usize::try_from(*i).unwrap() >= input_len {'), dict(file="ipa-core/src/protocol/context/mod.rs", find='                } else {\n                    for (last_record, send_channel) in send_channels.values() {\n                        send_channel.close(*last_record).await;\n                    }\n                    Ok(None)\n                }', replace='                } else {\n                    Ok(None)\n                }')]),
    dict(prop="C19", name="reshard-closes-before-matching-none", benign=True,
         edits=[dict(file="ipa-core/src/protocol/context/mod.rs", find='                if let Some(val) = input.try_next().await? {\n                    if usize::try_from(*i).unwrap() >= input_len {', replace='                let next = input.try_next().await?;\n                if next.is_none() {\n                    for (last_record, send_channel) in send_channels.values() {\n                        send_channel.close(*last_record).await;\n                    }\n                }\n                if let Some(val) = next {\n                    if usize::try_from(*i).unwrap() >= input_len {'), dict(file="ipa-core/src/protocol/context/mod.rs", find='                } else {\n                    for (last_record, send_channel) in send_channels.values() {\n                        send_channel.close(*last_record).await;\n                    }\n                    Ok(None)\n                }', replace='                } else {\n                    Ok(None)\n                }')]),
    dict(prop="C19", name="reshard-closes-on-out-of-range-error", expect=["PAIR-close", "only-after-clean-end-of-input"],
         edits=[dict(file="ipa-core/src/protocol/context/mod.rs", find='                    if usize::try_from(*i).unwrap() >= input_len {\n                        return Err(crate::error::Error::RecordIdOutOfRange {', replace='                    if usize::try_from(*i).unwrap() >= input_len {\n                        for (last_record, send_channel) in send_channels.values() {\n                            send_channel.close(*last_record).await;\n                        }\n                        return Err(crate::error::Error::RecordIdOutOfRange {')]),
]

VARIANTS += [
    dict(prop="C19", name="peer-shards-only-higher", expect=['WRAP', 'peer_shards'],
         edits=[dict(file="ipa-core/src/sharding.rs", find='        max.iter().filter(move |&v| v != this)', replace='        max.iter().filter(move |&v| v > this)')]),
    dict(prop="C19", name="peer-shards-filter-by-ref", benign=True,
         edits=[dict(file="ipa-core/src/sharding.rs", find='        max.iter().filter(move |&v| v != this)', replace='        max.iter().filter(move |v| *v != this)')]),
    dict(prop="C19", name="shard-index-iter-from-one", expect=['WRAP', 'peer_shards'],
         edits=[dict(file="ipa-core/src/sharding.rs", find='        (0..self.0).map(Self)', replace='        (1..self.0).map(Self)')]),
]

VARIANTS += [
    dict(prop="C13", name="rendezvous-arrival-does-not-wake", expect=['RENDEZVOUS', 'add_stream:Waiting=>wake'],
         edits=[dict(file="ipa-core/src/helpers/transport/stream/collection.rs", find='                    let StreamState::Waiting(waker) =\n                        std::mem::replace(rs, StreamState::Ready(stream))\n                    else {\n                        unreachable!()\n                    };\n                    waker.wake();\n', replace='                    let StreamState::Waiting(waker) =\n                        std::mem::replace(rs, StreamState::Ready(stream))\n                    else {\n                        unreachable!()\n                    };\n                    drop(waker);\n')]),
    dict(prop="C13", name="rendezvous-arrival-if-let", benign=True,
         edits=[dict(file="ipa-core/src/helpers/transport/stream/collection.rs", find='                    let StreamState::Waiting(waker) =\n                        std::mem::replace(rs, StreamState::Ready(stream))\n                    else {\n                        unreachable!()\n                    };\n                    waker.wake();\n', replace='                    if let StreamState::Waiting(waker) =\n                        std::mem::replace(rs, StreamState::Ready(stream))\n                    {\n                        waker.wake();\n                    }\n')]),
    dict(prop="C13", name="rendezvous-consumed-answers-none", expect=['RENDEZVOUS', 'add_waker:Completed=>panic'],
         edits=[dict(file="ipa-core/src/helpers/transport/stream/collection.rs", find='                StreamState::Completed => {\n                    drop(streams);\n                    panic!("{key:?} stream has been consumed already")\n                }\n', replace='                StreamState::Completed => None,\n')]),
    dict(prop="C13", name="rendezvous-second-stream-replaces", expect=['RENDEZVOUS', 'add_stream:Ready=>panic'],
         edits=[dict(file="ipa-core/src/helpers/transport/stream/collection.rs", find='                rs @ (StreamState::Ready(_) | StreamState::Completed) => {\n                    let state = format!("{rs:?}");\n                    let key = entry.key().clone();\n                    drop(streams);\n                    panic!("{key:?} entry state expected to be waiting, got {state:?}");\n                }\n', replace='                rs @ StreamState::Ready(_) => {\n                    // the peer retried its request: keep the newer stream\n                    *rs = StreamState::Ready(stream);\n                }\n                rs @ StreamState::Completed => {\n                    let state = format!("{rs:?}");\n                    let key = entry.key().clone();\n                    drop(streams);\n                    panic!("{key:?} entry state expected to be waiting, got {state:?}");\n                }\n')]),
]

# round B7 (second pass: C18, C13, C16, C01)
VARIANTS += [
    dict(prop="C16", name="b7-count-dupcheck-form", benign=True,
         edits=[dict(file='ipa-core/src/protocol/context/batcher.rs', find='        let total_count = min(self.records_per_batch, remaining_records);\n        let record_offset_in_batch = usize::from(record_id) - first_record_in_batch;\n        let batch = self.get_batch_by_offset(batch_offset);\n        if batch.pending_records.len() <= record_offset_in_batch {\n            batch\n                .pending_records\n                .resize(record_offset_in_batch + 1, false);\n        } else {\n            assert!(\n                !batch.pending_records[record_offset_in_batch],\n                "validate_record called twice for record {record_id}",\n            );\n        }\n        // This assertion is stricter than the bounds check in `BitVec::set` when the\n        // batch size is not a multiple of 8, or for a partial final batch.\n', replace='        let total_count = min(self.records_per_batch, remaining_records);\n        let record_offset_in_batch = usize::from(record_id) - first_record_in_batch;\n        let batch = self.get_batch_by_offset(batch_offset);\n        // A record beyond the current length of `pending_records` cannot have been\n        // marked pending yet, so treat a missing bit the same as a clear bit.\n        let already_pending = batch\n            .pending_records\n            .get(record_offset_in_batch)\n            .is_some_and(|bit| *bit);\n        assert!(\n            !already_pending,\n            "validate_record called twice for record {record_id}",\n        );\n        if batch.pending_records.len() <= record_offset_in_batch {\n            batch\n                .pending_records\n                .resize(record_offset_in_batch + 1, false);\n        }\n        // This assertion is stricter than the bounds check in `BitVec::set` when the\n        // batch size is not a multiple of 8, or for a partial final batch.\n')]),
    dict(prop="C16", name="b7-callers-value-switch", benign=True,
         edits=[dict(file='ipa-core/src/protocol/context/batcher.rs', find='        );\n        batch.pending_records.set(record_offset_in_batch, true);\n        batch.pending_count += 1;\n        if batch.pending_count == total_count {\n            assert!(\n                batch.pending_records[0..total_count].all(),\n                "Expected batch of {total_count} records to be ready for validation, but only have {:?}.",\n                &batch.pending_records[0..total_count],\n            );\n            tracing::info!("batch {batch_index} is ready for validation");\n            let batch;\n            if batch_offset == 0 {\n                batch = self.batches.pop_front().unwrap();\n                self.first_batch += 1;\n                // Also remove any batches that completed out of order\n                while let Some(None) = self.batches.front() {\n                    self.batches.pop_front();\n                    self.first_batch += 1;\n                }\n            } else {\n                batch = self.batches[batch_offset].take();\n            }\n            let batch = batch.expect_not_yet_validated(self.first_batch + batch_offset);\n            Ok(Ready::Yes { batch_index, batch })\n        } else {\n            Ok(Ready::No(batch.validation_result.subscribe()))\n        }\n    }\n\n    /// # Panics\n', replace='        );\n        batch.pending_records.set(record_offset_in_batch, true);\n        batch.pending_count += 1;\n        if batch.pending_count != total_count {\n            return Ok(Ready::No(batch.validation_result.subscribe()));\n        }\n\n        assert!(\n            batch.pending_records[0..total_count].all(),\n            "Expected batch of {total_count} records to be ready for validation, but only have {:?}.",\n            &batch.pending_records[0..total_count],\n        );\n        tracing::info!("batch {batch_index} is ready for validation");\n        let batch;\n        if batch_offset == 0 {\n            batch = self.batches.pop_front().unwrap();\n            self.first_batch += 1;\n            // Also remove any batches that completed out of order\n            while let Some(None) = self.batches.front() {\n                self.batches.pop_front();\n                self.first_batch += 1;\n            }\n        } else {\n            batch = self.batches[batch_offset].take();\n        }\n        let batch = batch.expect_not_yet_validated(self.first_batch + batch_offset);\n        Ok(Ready::Yes { batch_index, batch })\n    }\n\n    /// # Panics\n')]),
    dict(prop="C16", name="b7-guard-ready-ne", benign=True,
         edits=[dict(file='ipa-core/src/protocol/context/dzkp_malicious.rs', find="        base_ctx: MaliciousContext<'a, B>,\n    ) -> Self {\n        let records_per_batch = validator_inner.batcher.lock().unwrap().records_per_batch();\n        let active_work = if records_per_batch == 1 || records_per_batch == usize::MAX {\n            // If records_per_batch is 1, let active_work be anything. This only happens\n            // in tests; there shouldn't be a risk of deadlocks with one record per\n            // batch; and UnorderedReceiver capacity (which is set from active_work)\n", replace="        base_ctx: MaliciousContext<'a, B>,\n    ) -> Self {\n        let records_per_batch = validator_inner.batcher.lock().unwrap().records_per_batch();\n        let keep_base_active_work = matches!(records_per_batch, 1 | usize::MAX);\n        let active_work = if keep_base_active_work {\n            // If records_per_batch is 1, let active_work be anything. This only happens\n            // in tests; there shouldn't be a risk of deadlocks with one record per\n            // batch; and UnorderedReceiver capacity (which is set from active_work)\n")]),
    dict(prop="C01", name="b7-table-match-let-next", benign=True,
         edits=[dict(file='ipa-core/src/protocol/hybrid/agg.rs', find='    V: BooleanArray,\n{\n    pub fn add_report(&mut self, new_report: AggregateableHybridReport<BK, V>) {\n        match self {\n            Self::Single(old_report) => {\n                *self = Self::Pair(old_report.clone(), new_report);\n            }\n            Self::Pair { .. } | Self::MoreThanTwo => *self = Self::MoreThanTwo,\n        }\n    }\n\n    pub fn into_pair(self) -> Option<[AggregateableHybridReport<BK, V>; 2]> {\n', replace='    V: BooleanArray,\n{\n    pub fn add_report(&mut self, new_report: AggregateableHybridReport<BK, V>) {\n        // Compute the successor state first, then store it: one report becomes a pair, anything\n        // that already holds two or more reports is discarded.\n        let next_state = match self {\n            Self::Single(first_report) => Self::Pair(first_report.clone(), new_report),\n            Self::Pair { .. } | Self::MoreThanTwo => Self::MoreThanTwo,\n        };\n        *self = next_state;\n    }\n\n    pub fn into_pair(self) -> Option<[AggregateableHybridReport<BK, V>; 2]> {\n')]),
    dict(prop="C18", name="b7-shard-status-eq-edges", benign=True,
         edits=[dict(file='ipa-core/src/query/processor.rs', find='        if shard_index == ShardIndex::FIRST {\n            return Err(QueryStatusError::Leader);\n        }\n        let status = self\n            .get_status(req.query_id)\n            .ok_or(QueryStatusError::NoSuchQuery(req.query_id))?;\n        if req.status != status {\n            return Err(QueryStatusError::DifferentStatus {\n                query_id: req.query_id,\n                my_status: status,\n                other_status: req.status,\n            });\n        }\n        Ok(status)\n    }\n\n    /// Awaits the query completion\n', replace='        if shard_index == ShardIndex::FIRST {\n            return Err(QueryStatusError::Leader);\n        }\n        let query_id = req.query_id;\n        let Some(my_status) = self.get_status(query_id) else {\n            return Err(QueryStatusError::NoSuchQuery(query_id));\n        };\n        if req.status == my_status {\n            Ok(my_status)\n        } else {\n            Err(QueryStatusError::DifferentStatus {\n                query_id,\n                my_status,\n                other_status: req.status,\n            })\n        }\n    }\n\n    /// Awaits the query completion\n')]),
    dict(prop="C13", name="b7-wakers-shard-helper", benign=True,
         edits=[dict(file='ipa-core/src/helpers/buffers/ordering_sender.rs', find="    /// `seq_join()`.\n    const CONTIGUOUS_BITS: u32 = 6;\n\n    /// Find a shard.  This ensures that sequential values pick the same shard\n    /// in a contiguous block.\n    fn shard(&self, i: usize) -> MutexGuard<'_, WaitingShard> {\n        let idx = (i >> Self::CONTIGUOUS_BITS) % Self::SHARDS;\n        self.shards[idx].lock().unwrap()\n    }\n\n", replace="    /// `seq_join()`.\n    const CONTIGUOUS_BITS: u32 = 6;\n\n    /// The position, within `shards`, of the shard that is responsible for index `i`.\n    /// The result is always less than [`Self::SHARDS`].\n    const fn shard_index(i: usize) -> usize {\n        (i >> Self::CONTIGUOUS_BITS) % Self::SHARDS\n    }\n\n    /// Find a shard.  This ensures that sequential values pick the same shard\n    /// in a contiguous block.\n    fn shard(&self, i: usize) -> MutexGuard<'_, WaitingShard> {\n        let idx = Self::shard_index(i);\n        debug_assert!(idx < self.shards.len());\n        self.shards[idx].lock().unwrap()\n    }\n\n")]),
    dict(prop="C13", name="b7-add-stream-get-mut", benign=True,
         edits=[dict(file='ipa-core/src/helpers/transport/stream/collection.rs', find='    /// If there was another stream associated with the same key some time in the past.\n    pub fn add_stream(&self, key: StreamKey<I>, stream: S) {\n        let mut streams = self.inner.lock().unwrap();\n        match streams.entry(key) {\n            Entry::Occupied(mut entry) => match entry.get_mut() {\n                rs @ StreamState::Waiting(_) => {\n                    let StreamState::Waiting(waker) =\n                        std::mem::replace(rs, StreamState::Ready(stream))\n                    else {\n                        unreachable!()\n                    };\n                    waker.wake();\n                }\n                rs @ (StreamState::Ready(_) | StreamState::Completed) => {\n                    let state = format!("{rs:?}");\n                    let key = entry.key().clone();\n                    drop(streams);\n                    panic!("{key:?} entry state expected to be waiting, got {state:?}");\n                }\n            },\n            Entry::Vacant(entry) => {\n                entry.insert(StreamState::Ready(stream));\n            }\n        }\n    }\n', replace='    /// If there was another stream associated with the same key some time in the past.\n    pub fn add_stream(&self, key: StreamKey<I>, stream: S) {\n        let mut streams = self.inner.lock().unwrap();\n        match streams.get_mut(&key) {\n            Some(rs @ StreamState::Waiting(_)) => {\n                let StreamState::Waiting(waker) = std::mem::replace(rs, StreamState::Ready(stream))\n                else {\n                    unreachable!()\n                };\n                waker.wake();\n            }\n            Some(rs @ (StreamState::Ready(_) | StreamState::Completed)) => {\n                let state = format!("{rs:?}");\n                drop(streams);\n                panic!("{key:?} entry state expected to be waiting, got {state:?}");\n            }\n            None => {\n                streams.insert(key, StreamState::Ready(stream));\n            }\n        }\n    }\n')]),
]


# positional PRF key (audit of name-based matches)
VARIANTS += [
    dict(prop="C01", name="prf-key-renamed", benign=True,
         edits=[dict(file='ipa-core/src/protocol/hybrid/oprf.rs', find='    .try_collect::<Vec<_>>()\n    .await?;\n\n    let prf_key = gen_prf_key(&ctx.narrow(&HybridStep::PrfKeyGen));\n\n    let validator = ctx\n        .narrow(&HybridStep::EvalPrf)\n', replace='    .try_collect::<Vec<_>>()\n    .await?;\n\n    let k0 = gen_prf_key(&ctx.narrow(&HybridStep::PrfKeyGen));\n\n    let validator = ctx\n        .narrow(&HybridStep::EvalPrf)\n'), dict(file='ipa-core/src/protocol/hybrid/oprf.rs', find='        stream::iter(curve_pts).enumerate().map(|(i, curve_pts)| {\n            let record_id = RecordId::from(i);\n            let eval_ctx = eval_ctx.clone();\n            let prf_key = &prf_key;\n            curve_pts\n                .then(move |pts| eval_dy_prf::<_, PRF_CHUNK>(eval_ctx, record_id, prf_key, pts))\n        }),\n    )\n    .try_flatten_iters();\n', replace='        stream::iter(curve_pts).enumerate().map(|(i, curve_pts)| {\n            let record_id = RecordId::from(i);\n            let eval_ctx = eval_ctx.clone();\n            let kk = &k0;\n            curve_pts\n                .then(move |pts| eval_dy_prf::<_, PRF_CHUNK>(eval_ctx, record_id, kk, pts))\n        }),\n    )\n    .try_flatten_iters();\n')]),
    dict(prop="C01", name="prf-key-cancelled-to-zero", expect=['WIRE-prf', 'eval(ctx'],
         edits=[dict(file='ipa-core/src/protocol/hybrid/oprf.rs', find='    .await?;\n\n    let prf_key = gen_prf_key(&ctx.narrow(&HybridStep::PrfKeyGen));\n\n    let validator = ctx\n        .narrow(&HybridStep::EvalPrf)\n', replace='    .await?;\n\n    let prf_key = gen_prf_key(&ctx.narrow(&HybridStep::PrfKeyGen));\n    let zero_key = prf_key.clone() - &prf_key;\n\n    let validator = ctx\n        .narrow(&HybridStep::EvalPrf)\n'), dict(file='ipa-core/src/protocol/hybrid/oprf.rs', find='        stream::iter(curve_pts).enumerate().map(|(i, curve_pts)| {\n            let record_id = RecordId::from(i);\n            let eval_ctx = eval_ctx.clone();\n            let prf_key = &prf_key;\n            curve_pts\n                .then(move |pts| eval_dy_prf::<_, PRF_CHUNK>(eval_ctx, record_id, prf_key, pts))\n        }),\n', replace='        stream::iter(curve_pts).enumerate().map(|(i, curve_pts)| {\n            let record_id = RecordId::from(i);\n            let eval_ctx = eval_ctx.clone();\n            let prf_key = &zero_key;\n            curve_pts\n                .then(move |pts| eval_dy_prf::<_, PRF_CHUNK>(eval_ctx, record_id, prf_key, pts))\n        }),\n')]),
]


# renamed locals / parameters (audit of name-based matches)
VARIANTS += [
    dict(prop="C19", name="send-channels-local-renamed", benign=True,
         edits=[dict(file='ipa-core/src/protocol/context/mod.rs', find='\n    // Open communication channels to all shards on this helper and keep track of records sent\n    // through any of them.\n    let mut send_channels = ctx\n        .peer_shards()\n        .map(|shard_id| {\n            (\n', replace='\n    // Open communication channels to all shards on this helper and keep track of records sent\n    // through any of them.\n    let mut chans = ctx\n        .peer_shards()\n        .map(|shard_id| {\n            (\n'), dict(file='ipa-core/src/protocol/context/mod.rs', find='        // it is crucial that the following execution is completed sequentially, in order for record id\n        // tracking per shard to work correctly. If tasks complete out of order, this will cause share\n        // misplacement on the recipient side.\n        (input, &mut send_channels, &mut counter),\n        |(mut input, send_channels, i)| {\n            let ctx = ctx.clone();\n            async {\n                // Process more data as it comes in, or close the sending channels, if there is nothing\n', replace='        // it is crucial that the following execution is completed sequentially, in order for record id\n        // tracking per shard to work correctly. If tasks complete out of order, this will cause share\n        // misplacement on the recipient side.\n        (input, &mut chans, &mut counter),\n        |(mut input, chans, i)| {\n            let ctx = ctx.clone();\n            async {\n                // Process more data as it comes in, or close the sending channels, if there is nothing\n'), dict(file='ipa-core/src/protocol/context/mod.rs', find='                    let dest_shard = shard_picker(ctx, RecordId::from(*i), &val);\n                    *i += 1;\n                    if dest_shard == my_shard {\n                        Ok(Some(((my_shard, Some(val)), (input, send_channels, i))))\n                    } else {\n                        let (record_id, se) = send_channels.get_mut(&dest_shard).unwrap();\n                        se.send(*record_id, val)\n                            .await\n                            .map_err(crate::error::Error::from)?;\n                        *record_id += 1;\n                        Ok(Some(((my_shard, None), (input, send_channels, i))))\n                    }\n                } else {\n                    for (last_record, send_channel) in send_channels.values() {\n                        send_channel.close(*last_record).await;\n                    }\n                    Ok(None)\n', replace='                    let dest_shard = shard_picker(ctx, RecordId::from(*i), &val);\n                    *i += 1;\n                    if dest_shard == my_shard {\n                        Ok(Some(((my_shard, Some(val)), (input, chans, i))))\n                    } else {\n                        let (record_id, se) = chans.get_mut(&dest_shard).unwrap();\n                        se.send(*record_id, val)\n                            .await\n                            .map_err(crate::error::Error::from)?;\n                        *record_id += 1;\n                        Ok(Some(((my_shard, None), (input, chans, i))))\n                    }\n                } else {\n                    for (last_record, send_channel) in chans.values() {\n                        send_channel.close(*last_record).await;\n                    }\n                    Ok(None)\n')]),
    dict(prop="C07", name="reveal-excluded-param-renamed", benign=True,
         edits=[dict(file='ipa-core/src/protocol/basics/reveal.rs', find="pub async fn semi_honest_reveal<'fut, C, V, const N: usize>(\n    ctx: C,\n    record_id: RecordId,\n    excluded: Option<Role>,\n    share: &'fut Replicated<V, N>,\n) -> Result<Option<<V as Vectorizable<N>>::Array>, Error>\nwhere\n", replace="pub async fn semi_honest_reveal<'fut, C, V, const N: usize>(\n    ctx: C,\n    record_id: RecordId,\n    skip: Option<Role>,\n    share: &'fut Replicated<V, N>,\n) -> Result<Option<<V as Vectorizable<N>>::Array>, Error>\nwhere\n"), dict(file='ipa-core/src/protocol/basics/reveal.rs', find="    let left = share.left_arr();\n    let right = share.right_arr();\n\n    // Send shares, unless the target helper is excluded\n    if Some(ctx.role().peer(Direction::Right)) != excluded {\n        ctx.send_channel::<<V as Vectorizable<N>>::Array>(ctx.role().peer(Direction::Right))\n            .send(record_id, left)\n            .await?;\n    }\n\n    if Some(ctx.role()) == excluded {\n        Ok(None)\n    } else {\n        // Sleep until `helper's left` sends their share\n", replace="    let left = share.left_arr();\n    let right = share.right_arr();\n\n    // Send shares, unless the target helper is skip\n    if Some(ctx.role().peer(Direction::Right)) != skip {\n        ctx.send_channel::<<V as Vectorizable<N>>::Array>(ctx.role().peer(Direction::Right))\n            .send(record_id, left)\n            .await?;\n    }\n\n    if Some(ctx.role()) == skip {\n        Ok(None)\n    } else {\n        // Sleep until `helper's left` sends their share\n"), dict(file='ipa-core/src/protocol/basics/reveal.rs', find="pub async fn malicious_reveal<'fut, C, V, const N: usize>(\n    ctx: C,\n    record_id: RecordId,\n    excluded: Option<Role>,\n    share: &'fut Replicated<V, N>,\n) -> Result<Option<<V as Vectorizable<N>>::Array>, Error>\nwhere\n", replace="pub async fn malicious_reveal<'fut, C, V, const N: usize>(\n    ctx: C,\n    record_id: RecordId,\n    skip: Option<Role>,\n    share: &'fut Replicated<V, N>,\n) -> Result<Option<<V as Vectorizable<N>>::Array>, Error>\nwhere\n"), dict(file='ipa-core/src/protocol/basics/reveal.rs', find='    let right_receiver =\n        ctx.recv_channel::<<V as Vectorizable<N>>::Array>(ctx.role().peer(Direction::Right));\n\n    // Send shares to the left and right helpers, unless excluded.\n    let send_left_fut =\n        MaybeFuture::future_or_ok(Some(ctx.role().peer(Direction::Left)) != excluded, || {\n            left_sender.send(record_id, right)\n        });\n\n    let send_right_fut =\n        MaybeFuture::future_or_ok(Some(ctx.role().peer(Direction::Right)) != excluded, || {\n            right_sender.send(record_id, left)\n        });\n    try_join(send_left_fut, send_right_fut).await?;\n\n    if Some(ctx.role()) == excluded {\n        Ok(None)\n    } else {\n        let (share_from_left, share_from_right) = try_join(\n', replace='    let right_receiver =\n        ctx.recv_channel::<<V as Vectorizable<N>>::Array>(ctx.role().peer(Direction::Right));\n\n    // Send shares to the left and right helpers, unless skip.\n    let send_left_fut =\n        MaybeFuture::future_or_ok(Some(ctx.role().peer(Direction::Left)) != skip, || {\n            left_sender.send(record_id, right)\n        });\n\n    let send_right_fut =\n        MaybeFuture::future_or_ok(Some(ctx.role().peer(Direction::Right)) != skip, || {\n            right_sender.send(record_id, left)\n        });\n    try_join(send_left_fut, send_right_fut).await?;\n\n    if Some(ctx.role()) == skip {\n        Ok(None)\n    } else {\n        let (share_from_left, share_from_right) = try_join(\n')]),
    dict(prop="C12", name="noise-param-names-renamed", benign=True,
         edits=[dict(file='ipa-core/src/protocol/dp/mod.rs', find='    /// `success_prob` not in the range [0,1]\n    #[allow(clippy::too_many_arguments)]\n    pub fn new(\n        epsilon: f64,\n        delta: f64,\n        per_user_credit_cap: u32,\n        success_prob: f64,\n', replace='    /// `success_prob` not in the range [0,1]\n    #[allow(clippy::too_many_arguments)]\n    pub fn new(\n        eps: f64,\n        delta: f64,\n        per_user_credit_cap: u32,\n        success_prob: f64,\n'), dict(file='ipa-core/src/protocol/dp/mod.rs', find='        ell_2_sensitivity: f64,\n        ell_infty_sensitivity: f64,\n    ) -> Result<NoiseParams, String> {\n        if epsilon <= 0.0 {\n            return Err("epsilon must be > 0.0".to_string());\n        }\n        if delta <= 0.0 {\n', replace='        ell_2_sensitivity: f64,\n        ell_infty_sensitivity: f64,\n    ) -> Result<NoiseParams, String> {\n        if eps <= 0.0 {\n            return Err("epsilon must be > 0.0".to_string());\n        }\n        if delta <= 0.0 {\n'), dict(file='ipa-core/src/protocol/dp/mod.rs', find='            return Err("ell_infty_sensitivity must be > 0.0".to_string());\n        }\n        Ok(NoiseParams {\n            epsilon,\n            delta,\n            per_user_credit_cap,\n            success_prob,\n', replace='            return Err("ell_infty_sensitivity must be > 0.0".to_string());\n        }\n        Ok(NoiseParams {\n            epsilon: eps,\n            delta,\n            per_user_credit_cap,\n            success_prob,\n'), dict(file='ipa-core/src/protocol/ipa_prf/oprf_padding/insecure.rs', find='    // See dp/README.md\n    /// # Errors\n    /// will return errors if invalid DP parameters are provided.\n    pub fn new(new_epsilon: f64, new_delta: f64, new_sensitivity: u32) -> Result<Self, Error> {\n        // make sure delta and epsilon are in range, i.e. >min and delta<1-min\n        if new_epsilon < f64::MIN_POSITIVE {\n            return Err(Error::BadEpsilon(new_epsilon));\n        }\n\n        if !(f64::MIN_POSITIVE..=1.0 - f64::MIN_POSITIVE).contains(&new_delta) {\n            return Err(Error::BadDelta(new_delta));\n        }\n        if new_sensitivity > 1_000_000 {\n            return Err(Error::BadSensitivity(new_sensitivity));\n        }\n\n        // compute the smallest shift needed to achieve this delta\n        let smallest_n = find_smallest_n(new_sensitivity, new_epsilon, new_delta);\n\n        Ok(Self {\n            epsilon: new_epsilon,\n            delta: new_delta,\n            sensitivity: new_sensitivity,\n            truncated_double_geometric: TruncatedDoubleGeometric::new(\n                1.0 / new_epsilon,\n                smallest_n,\n            )?,\n        })\n', replace='    // See dp/README.md\n    /// # Errors\n    /// will return errors if invalid DP parameters are provided.\n    pub fn new(eps: f64, dlt: f64, sens: u32) -> Result<Self, Error> {\n        // make sure delta and epsilon are in range, i.e. >min and delta<1-min\n        if eps < f64::MIN_POSITIVE {\n            return Err(Error::BadEpsilon(eps));\n        }\n\n        if !(f64::MIN_POSITIVE..=1.0 - f64::MIN_POSITIVE).contains(&dlt) {\n            return Err(Error::BadDelta(dlt));\n        }\n        if sens > 1_000_000 {\n            return Err(Error::BadSensitivity(sens));\n        }\n\n        // compute the smallest shift needed to achieve this delta\n        let smallest_n = find_smallest_n(sens, eps, dlt);\n\n        Ok(Self {\n            epsilon: eps,\n            delta: dlt,\n            sensitivity: sens,\n            truncated_double_geometric: TruncatedDoubleGeometric::new(\n                1.0 / eps,\n                smallest_n,\n            )?,\n        })\n')]),
]


# positional operands (alpha-rename audit)
VARIANTS += [
    dict(prop="C01", name="shard-merge-adds-self-twice", expect=["SAT-merge", "operands"],
         edits=[dict(file='ipa-core/src/protocol/basics/shard_fin.rs', find='                &self.values,\n                &other.values,\n', replace='                &self.values,\n                &self.values,\n')]),
    dict(prop="C13", name="send-route-uses-default-gate", expect=["KEY-send", "route-from-channel-id"],
         edits=[dict(file='ipa-core/src/helpers/gateway/send.rs', find='                    let ChannelId { peer, gate } = channel_id.clone();\n', replace='                    let ChannelId { peer, gate: _ } = channel_id.clone();\n                    let gate = crate::protocol::Gate::default();\n')]),
]


# round B8 (second pass: C05, C06, C08, C20, C15, C11, C02, C10)
VARIANTS += [
    dict(prop="C05", name="b8-h1-table-push-loop", benign=True,
         edits=[dict(file='ipa-core/src/protocol/ipa_prf/shuffle/sharded.rs', find='\n    // set our shares\n    let ctx = ctx.narrow(&ShuffleStep::PseudoRandomTable);\n    let res = (0..sz)\n        .map(|i| {\n            // This may be confusing as paper specifies Ã and B̃ as independent tables, but\n            // there is really no reason to generate them using unique PRSS keys.\n            let (a, b) = ctx.prss().generate(RecordId::from(i));\n\n            S::new(a, b)\n        })\n        .collect();\n\n    Ok((res, IntermediateShuffleMessages::H1 { x1 }))\n}\n', replace='\n    // set our shares\n    let ctx = ctx.narrow(&ShuffleStep::PseudoRandomTable);\n    let mut res = Vec::with_capacity(sz);\n    for i in 0..sz {\n        // This may be confusing as paper specifies Ã and B̃ as independent tables, but\n        // there is really no reason to generate them using unique PRSS keys.\n        let (a, b) = ctx.prss().generate(RecordId::from(i));\n\n        res.push(S::new(a, b));\n    }\n\n    Ok((res, IntermediateShuffleMessages::H1 { x1 }))\n}\n')]),
    dict(prop="C05", name="b8-tags-zipped-to-rows", benign=True,
         edits=[dict(file='ipa-core/src/protocol/ipa_prf/shuffle/malicious.rs', find='                    .into_unpacking_iter()\n                    .collect::<Vec<_>>();\n            // Join tags to rows\n            Ok((0..TAG_CHUNK)\n                .map(|i| concatenate_row_and_tag(&chunk[i], &tags[i]))\n                .collect::<Vec<_>>())\n        }),\n    )\n', replace='                    .into_unpacking_iter()\n                    .collect::<Vec<_>>();\n            // Join tags to rows\n            debug_assert_eq!(tags.len(), TAG_CHUNK);\n            Ok(chunk\n                .iter()\n                .zip(&tags)\n                .map(|(row, tag)| concatenate_row_and_tag(row, tag))\n                .collect::<Vec<_>>())\n        }),\n    )\n')]),
    dict(prop="C05", name="h1-push-loop-swaps-shares", expect=["ALGEBRA", ""],
         edits=[dict(file='ipa-core/src/protocol/ipa_prf/shuffle/sharded.rs', find='\n    // set our shares\n    let ctx = ctx.narrow(&ShuffleStep::PseudoRandomTable);\n    let res = (0..sz)\n        .map(|i| {\n            // This may be confusing as paper specifies Ã and B̃ as independent tables, but\n            // there is really no reason to generate them using unique PRSS keys.\n            let (a, b) = ctx.prss().generate(RecordId::from(i));\n\n            S::new(a, b)\n        })\n        .collect();\n\n    Ok((res, IntermediateShuffleMessages::H1 { x1 }))\n}\n', replace='\n    // set our shares\n    let ctx = ctx.narrow(&ShuffleStep::PseudoRandomTable);\n    let mut res = Vec::with_capacity(sz);\n    for i in 0..sz {\n        // This may be confusing as paper specifies Ã and B̃ as independent tables, but\n        // there is really no reason to generate them using unique PRSS keys.\n        let (a, b) = ctx.prss().generate(RecordId::from(i));\n\n        res.push(S::new(b, a));\n    }\n\n    Ok((res, IntermediateShuffleMessages::H1 { x1 }))\n}\n')]),
    dict(prop="C06", name="b8-sequential-reuse-is-some", benign=True,
         edits=[dict(file='ipa-core/src/protocol/prss/mod.rs', find='        &mut self,\n        key: &Gate,\n    ) -> (SequentialSharedRandomness, SequentialSharedRandomness) {\n        let prev = self.items.insert(key.clone(), EndpointItem::Sequential);\n        assert!(\n            prev.is_none(),\n            "Attempt access a sequential PRSS for {key} after another access"\n        );\n        (\n            SequentialSharedRandomness::new(self.left.generator(key.as_ref().as_bytes())),\n            SequentialSharedRandomness::new(self.right.generator(key.as_ref().as_bytes())),\n        )\n    }\n}\n', replace='        &mut self,\n        key: &Gate,\n    ) -> (SequentialSharedRandomness, SequentialSharedRandomness) {\n        if self\n            .items\n            .insert(key.clone(), EndpointItem::Sequential)\n            .is_some()\n        {\n            panic!("Attempt access a sequential PRSS for {key} after another access");\n        }\n        let context = key.as_ref().as_bytes();\n        (\n            SequentialSharedRandomness::new(self.left.generator(context)),\n            SequentialSharedRandomness::new(self.right.generator(context)),\n        )\n    }\n}\n')]),
    dict(prop="C08", name="b8-deserialize-bool-then", benign=True,
         edits=[dict(file='ipa-core/src/ff/prime_field.rs', find='                buf: &GenericArray<u8, Self::Size>,\n            ) -> Result<Self, Self::DeserializationError> {\n                let v = <$backend_store>::from_le_bytes((*buf).into());\n                if v < Self::PRIME {\n                    Ok(Self(v))\n                } else {\n                    Err(GreaterThanPrimeError(v, Self::PRIME.into()))\n                }\n            }\n        }\n\n', replace='                buf: &GenericArray<u8, Self::Size>,\n            ) -> Result<Self, Self::DeserializationError> {\n                let v = <$backend_store>::from_le_bytes((*buf).into());\n                // only canonical representatives, i.e. values in `0..PRIME`, are accepted\n                (v < Self::PRIME)\n                    .then(|| Self(v))\n                    .ok_or_else(|| GreaterThanPrimeError(v, Self::PRIME.into()))\n            }\n        }\n\n')]),
    dict(prop="C08", name="deserialize-then-accepts-prime", expect=['RANGE-invariant', 'deserialize'],
         edits=[dict(file='ipa-core/src/ff/prime_field.rs', find='                buf: &GenericArray<u8, Self::Size>,\n            ) -> Result<Self, Self::DeserializationError> {\n                let v = <$backend_store>::from_le_bytes((*buf).into());\n                if v < Self::PRIME {\n                    Ok(Self(v))\n                } else {\n                    Err(GreaterThanPrimeError(v, Self::PRIME.into()))\n                }\n            }\n        }\n\n', replace='                buf: &GenericArray<u8, Self::Size>,\n            ) -> Result<Self, Self::DeserializationError> {\n                let v = <$backend_store>::from_le_bytes((*buf).into());\n                // only canonical representatives, i.e. values in `0..PRIME`, are accepted\n                (v <= Self::PRIME)\n                    .then(|| Self(v))\n                    .ok_or_else(|| GreaterThanPrimeError(v, Self::PRIME.into()))\n            }\n        }\n\n')]),
    dict(prop="C08", name="b8-window-test-ne-early-return", benign=True,
         edits=[dict(file='ipa-core/src/ff/accumulator.rs', find='\n    #[inline]\n    fn multiply_accumulate(&mut self, lhs: F, rhs: F) {\n        self.value += A::from(lhs.as_u128()) * A::from(rhs.as_u128());\n        self.count += 1;\n        if self.count == REDUCE_INTERVAL {\n            // Modulo, not really a truncation.\n            self.value = A::from(F::truncate_from(self.value).as_u128());\n            self.count = 0;\n        }\n    }\n\n    #[inline]\n', replace='\n    #[inline]\n    fn multiply_accumulate(&mut self, lhs: F, rhs: F) {\n        let product = A::from(lhs.as_u128()) * A::from(rhs.as_u128());\n        self.value += product;\n        self.count += 1;\n        if self.count != REDUCE_INTERVAL {\n            // There is still room for more products before a reduction is required.\n            return;\n        }\n        // Modulo, not really a truncation.\n        let reduced = F::truncate_from(self.value);\n        self.value = A::from(reduced.as_u128());\n        self.count = 0;\n    }\n\n    #[inline]\n')]),
    dict(prop="C20", name="b8-unauthorized-response-helper", benign=True,
         edits=[dict(file='ipa-core/src/net/server/handlers/query/mod.rs', find='    fn call(&mut self, req: Request<B>) -> Self::Future {\n        match req.extensions().get::<ClientIdentity<F::Identity>>() {\n            Some(ClientIdentity(_)) => self.inner.call(req).left_future(),\n            None => ready(Ok((\n                StatusCode::UNAUTHORIZED,\n                "This API requires the client helper to authenticate",\n            )\n                .into_response()))\n            .right_future(),\n        }\n    }\n}\n\n#[cfg(all(test, unit_test))]\npub mod test_helpers {\n    use std::{any::Any, sync::Arc};\n', replace='    fn call(&mut self, req: Request<B>) -> Self::Future {\n        match req.extensions().get::<ClientIdentity<F::Identity>>() {\n            Some(ClientIdentity(_)) => self.inner.call(req).left_future(),\n            None => ready(Ok(unauthorized_response())).right_future(),\n        }\n    }\n}\n\n/// The response given to callers that did not present a verified peer identity.\nfn unauthorized_response() -> Response {\n    (\n        StatusCode::UNAUTHORIZED,\n        "This API requires the client helper to authenticate",\n    )\n        .into_response()\n}\n\n#[cfg(all(test, unit_test))]\npub mod test_helpers {\n    use std::{any::Any, sync::Arc};\n')]),
    dict(prop="C20", name="b8-acceptor-closure-hoisted", benign=True,
         edits=[dict(file='ipa-core/src/net/server/mod.rs', find='                }),\n        );\n        let handle = Handle::new();\n\n        let task_handle = match (self.config.disable_https, listener) {\n            (true, Some(listener)) => {\n', replace='                }),\n        );\n        let handle = Handle::new();\n        // Address to bind when the caller did not supply a listening socket.\n        let bind_addr = || SocketAddr::new(BIND_ADDRESS.into(), self.config.port.unwrap_or(0));\n        // TLS only: wraps the acceptor so that the peer identity comes from the client certificate.\n        let recognize_client_cert = |tls_acceptor: RustlsAcceptor| {\n            ClientCertRecognizingAcceptor::new(tls_acceptor, self.network_config.clone())\n        };\n\n        let task_handle = match (self.config.disable_https, listener) {\n            (true, Some(listener)) => {\n'), dict(file='ipa-core/src/net/server/mod.rs', find='                .await\n            }\n            (true, None) => {\n                let addr = SocketAddr::new(BIND_ADDRESS.into(), self.config.port.unwrap_or(0));\n                let svc = svc\n                    .layer(layer_fn(SetClientIdentityFromHeader::<_, F>::new))\n                    .into_make_service();\n', replace='                .await\n            }\n            (true, None) => {\n                let addr = bind_addr();\n                let svc = svc\n                    .layer(layer_fn(SetClientIdentityFromHeader::<_, F>::new))\n                    .into_make_service();\n'), dict(file='ipa-core/src/net/server/mod.rs', find='                    .expect("invalid TLS configuration");\n                spawn_server(\n                    runtime,\n                    axum_server::from_tcp_rustls(listener, rustls_config).map(|a| {\n                        ClientCertRecognizingAcceptor::new(a, self.network_config.clone())\n                    }),\n                    handle.clone(),\n                    svc.into_make_service(),\n                )\n                .await\n            }\n            (false, None) => {\n                let addr = SocketAddr::new(BIND_ADDRESS.into(), self.config.port.unwrap_or(0));\n                let rustls_config = rustls_config(&self.config, self.network_config.vec_peers())\n                    .await\n                    .expect("invalid TLS configuration");\n                spawn_server(\n                    runtime,\n                    axum_server::bind_rustls(addr, rustls_config).map(|a| {\n                        ClientCertRecognizingAcceptor::new(a, self.network_config.clone())\n                    }),\n                    handle.clone(),\n                    svc.into_make_service(),\n                )\n', replace='                    .expect("invalid TLS configuration");\n                spawn_server(\n                    runtime,\n                    axum_server::from_tcp_rustls(listener, rustls_config)\n                        .map(recognize_client_cert),\n                    handle.clone(),\n                    svc.into_make_service(),\n                )\n                .await\n            }\n            (false, None) => {\n                let addr = bind_addr();\n                let rustls_config = rustls_config(&self.config, self.network_config.vec_peers())\n                    .await\n                    .expect("invalid TLS configuration");\n                spawn_server(\n                    runtime,\n                    axum_server::bind_rustls(addr, rustls_config).map(recognize_client_cert),\n                    handle.clone(),\n                    svc.into_make_service(),\n                )\n')]),
    dict(prop="C08", name="b8-padding-any-early-return", benign=True,
         edits=[dict(file='ipa-core/src/ff/boolean_array.rs', find='                let raw_val = <$store>::new(assert_copy(*buf).into());\n\n                // make sure trailing bits (padding) are zeroes.\n                if raw_val[$bits..].not_any() {\n                    Ok(Self(raw_val))\n                } else {\n                    Err(NonZeroPadding(\n                        GenericArray::from_array(raw_val.into_inner()),\n                        $bits,\n                    ))\n                }\n            }\n        }\n\n', replace='                let raw_val = <$store>::new(assert_copy(*buf).into());\n\n                // make sure trailing bits (padding) are zeroes.\n                let padding = &raw_val[$bits..];\n                if padding.any() {\n                    return Err(NonZeroPadding(\n                        GenericArray::from_array(raw_val.into_inner()),\n                        $bits,\n                    ));\n                }\n                Ok(Self(raw_val))\n            }\n        }\n\n')]),
    dict(prop="C03", name="b8-sum-of-uv-in-helper", benign=True,
         edits=[dict(file='ipa-core/src/protocol/context/dzkp_validator.rs', find='            .flat_map(MultiplicationInputsBatch::get_field_values_from_left_prover)\n    }\n\n    /// ## Panics\n    /// If `usize` to `u128` conversion fails.\n    pub(super) async fn validate<B: ShardBinding>(\n', replace='            .flat_map(MultiplicationInputsBatch::get_field_values_from_left_prover)\n    }\n\n    /// Computes the value that the sum of all `u * v` products in this batch must have\n    /// if every multiplication was carried out honestly, i.e. `-m/2` for `m` multiplies.\n    ///\n    /// ## Panics\n    /// If `usize` to `u128` conversion fails.\n    fn expected_sum_of_uv(&self) -> Fp61BitPrime {\n        // get number of multiplications\n        let m = self.get_number_of_multiplications();\n        tracing::info!("validating {m} multiplications");\n        debug_assert_eq!(\n            m,\n            self.get_field_values_prover().count(),\n            "Number of multiplications is counted incorrectly"\n        );\n        Fp61BitPrime::truncate_from(u128::try_from(m).unwrap()) * Fp61BitPrime::MINUS_ONE_HALF\n    }\n\n    /// ## Panics\n    /// If `usize` to `u128` conversion fails.\n    pub(super) async fn validate<B: ShardBinding>(\n'), dict(file='ipa-core/src/protocol/context/dzkp_validator.rs', find='            .await;\n\n        let (sum_of_uv, p_r_right_prover, q_r_left_prover) = {\n            // get number of multiplications\n            let m = self.get_number_of_multiplications();\n            tracing::info!("validating {m} multiplications");\n            debug_assert_eq!(\n                m,\n                self.get_field_values_prover().count(),\n                "Number of multiplications is counted incorrectly"\n            );\n            let sum_of_uv = Fp61BitPrime::truncate_from(u128::try_from(m).unwrap())\n                * Fp61BitPrime::MINUS_ONE_HALF;\n\n            let (p_r_right_prover, q_r_left_prover) = chunk_batch.compute_p_and_q_r(\n                &challenges_for_left_prover,\n', replace='            .await;\n\n        let (sum_of_uv, p_r_right_prover, q_r_left_prover) = {\n            let sum_of_uv = self.expected_sum_of_uv();\n\n            let (p_r_right_prover, q_r_left_prover) = chunk_batch.compute_p_and_q_r(\n                &challenges_for_left_prover,\n')]),
    dict(prop="C02", name="b8-reveal-then-ok-or", benign=True,
         edits=[dict(file='ipa-core/src/protocol/basics/reveal.rs', find="    try_join(send_left_fut, send_right_fut).await?;\n\n    if Some(ctx.role()) == excluded {\n        Ok(None)\n    } else {\n        let (share_from_left, share_from_right) = try_join(\n            left_receiver.receive(record_id),\n            right_receiver.receive(record_id),\n        )\n        .await?;\n\n        if share_from_left == share_from_right {\n            Ok(Some(share_from_left + left + right))\n        } else {\n            Err(Error::MaliciousRevealFailed)\n        }\n    }\n}\n\nimpl<'a, V, const N: usize, CtxF> Reveal<UpgradedMaliciousContext<'a, CtxF>> for Replicated<V, N>\n", replace="    try_join(send_left_fut, send_right_fut).await?;\n\n    if Some(ctx.role()) == excluded {\n        return Ok(None);\n    }\n\n    let (share_from_left, share_from_right) = try_join(\n        left_receiver.receive(record_id),\n        right_receiver.receive(record_id),\n    )\n    .await?;\n\n    // Both peers hold a copy of the one share this helper is missing: the copies must agree.\n    (share_from_left == share_from_right)\n        .then(|| Some(share_from_left + left + right))\n        .ok_or(Error::MaliciousRevealFailed)\n}\n\nimpl<'a, V, const N: usize, CtxF> Reveal<UpgradedMaliciousContext<'a, CtxF>> for Replicated<V, N>\n")]),
    dict(prop="C02", name="reveal-then-compares-copy-with-itself", expect=['GUARD-reveal', 'malicious_reveal'],
         edits=[dict(file='ipa-core/src/protocol/basics/reveal.rs', find="    try_join(send_left_fut, send_right_fut).await?;\n\n    if Some(ctx.role()) == excluded {\n        Ok(None)\n    } else {\n        let (share_from_left, share_from_right) = try_join(\n            left_receiver.receive(record_id),\n            right_receiver.receive(record_id),\n        )\n        .await?;\n\n        if share_from_left == share_from_right {\n            Ok(Some(share_from_left + left + right))\n        } else {\n            Err(Error::MaliciousRevealFailed)\n        }\n    }\n}\n\nimpl<'a, V, const N: usize, CtxF> Reveal<UpgradedMaliciousContext<'a, CtxF>> for Replicated<V, N>\n", replace="    try_join(send_left_fut, send_right_fut).await?;\n\n    if Some(ctx.role()) == excluded {\n        return Ok(None);\n    }\n\n    let (share_from_left, share_from_right) = try_join(\n        left_receiver.receive(record_id),\n        right_receiver.receive(record_id),\n    )\n    .await?;\n\n    // Both peers hold a copy of the one share this helper is missing: the copies must agree.\n    (share_from_left == share_from_left)\n        .then(|| Some(share_from_left + left + right))\n        .ok_or(Error::MaliciousRevealFailed)\n}\n\nimpl<'a, V, const N: usize, CtxF> Reveal<UpgradedMaliciousContext<'a, CtxF>> for Replicated<V, N>\n")]),
]


VARIANTS += [
    dict(prop="C03", name="hash-skips-first-element", expect=['HASH-cover', 'iterates-its-whole-argument'],
         edits=[dict(file="ipa-core/src/helpers/hashing.rs", find='    for x in input {\n        is_empty = false;\n        x.serialize(&mut buf);\n        sha.update(&buf);\n    }', replace='    for x in input.into_iter().skip(1) {\n        is_empty = false;\n        x.serialize(&mut buf);\n        sha.update(&buf);\n    }')]),
    dict(prop="C03", name="hash-absorbs-buffer-prefix", expect=['HASH-cover', 'element->buffer->hasher'],
         edits=[dict(file="ipa-core/src/helpers/hashing.rs", find='    for x in input {\n        is_empty = false;\n        x.serialize(&mut buf);\n        sha.update(&buf);\n    }', replace='    for x in input {\n        is_empty = false;\n        x.serialize(&mut buf);\n        sha.update(&buf[..1]);\n    }')]),
    dict(prop="C03", name="hash-stops-after-64-elements", expect=['HASH-cover'],
         edits=[dict(file="ipa-core/src/helpers/hashing.rs", find='    for x in input {\n        is_empty = false;\n        x.serialize(&mut buf);\n        sha.update(&buf);\n    }', replace='    for (n, x) in input.into_iter().enumerate() {\n        if n >= 64 {\n            break;\n        }\n        is_empty = false;\n        x.serialize(&mut buf);\n        sha.update(&buf);\n    }')]),
    dict(prop="C03", name="hash-accepts-empty-input", expect=['HASH-cover', 'refuses-empty-input'],
         edits=[dict(file="ipa-core/src/helpers/hashing.rs", find='    let (hash, empty) = compute_hash_internal(input);\n    assert!(!empty, "must not provide an empty iterator");\n    hash', replace='    let (hash, _empty) = compute_hash_internal(input);\n    hash')]),
    dict(prop="C03", name="challenge-from-left-hash-only", expect=['HASH-cover', 'combines-both-hashes'],
         edits=[dict(file="ipa-core/src/helpers/hashing.rs", find='    let combine = compute_hash([left, right]);', replace='    let combine = compute_hash([left, left]);\n    let _ = right;')]),
    dict(prop="C03", name="hash-loop-flag-after-update", benign=True,
         edits=[dict(file="ipa-core/src/helpers/hashing.rs", find='    for x in input {\n        is_empty = false;\n        x.serialize(&mut buf);\n        sha.update(&buf);\n    }', replace='    for x in input {\n        x.serialize(&mut buf);\n        sha.update(&buf);\n        is_empty = false;\n    }')]),
]
VARIANTS += [dict(v, prop="C05", name=v["name"] + "@C05") for v in VARIANTS if v["name"] in ("hash-skips-first-element", "hash-absorbs-buffer-prefix", "hash-loop-flag-after-update")]

VARIANTS += [
    dict(prop="C17", name="batch-count-rounds-up", expect=['PROGRESS', 'Batch:count-fits-contiguous'],
         edits=[dict(file="ipa-core/src/helpers/transport/stream/input.rs", find='        let count = max(1, buf.contiguous_len() / T::Size::USIZE);', replace='        let count = max(1, buf.contiguous_len().div_ceil(T::Size::USIZE));')]),
    dict(prop="C17", name="batch-count-capped", benign=True,
         edits=[dict(file="ipa-core/src/helpers/transport/stream/input.rs", find='        let count = max(1, buf.contiguous_len() / T::Size::USIZE);', replace='        let count = max(1, buf.contiguous_len() / T::Size::USIZE).min(4096);')]),
]

VARIANTS += [
    dict(prop="C16", name="total-second-declaration-ignored", expect=['TABLE-total', 'overwrite:Specified->Specified'],
         edits=[dict(file="ipa-core/src/helpers/mod.rs", find='            (Self::Specified(_), Self::Indeterminate) => Self::Indeterminate,\n', replace='            (Self::Specified(_), Self::Indeterminate) => Self::Indeterminate,\n            (old @ Self::Specified(_), Self::Specified(_)) => *old,\n')]),
    dict(prop="C16", name="total-second-declaration-wins", expect=['TABLE-total', 'overwrite:Specified->Specified'],
         edits=[dict(file="ipa-core/src/helpers/mod.rs", find='            (Self::Specified(_), Self::Indeterminate) => Self::Indeterminate,\n', replace='            (Self::Specified(_), Self::Indeterminate) => Self::Indeterminate,\n            (Self::Specified(_), new @ Self::Specified(_)) => new,\n')]),
    dict(prop="C16", name="total-indeterminate-can-be-specified", expect=['TABLE-total', 'overwrite:Indeterminate->Specified'],
         edits=[dict(file="ipa-core/src/helpers/mod.rs", find='            (Self::Specified(_), Self::Indeterminate) => Self::Indeterminate,\n', replace='            (Self::Specified(_), Self::Indeterminate) => Self::Indeterminate,\n            (Self::Indeterminate, new @ Self::Specified(_)) => new,\n')]),
    dict(prop="C16", name="batcher-total-replaced-unchecked", expect=['TABLE-total', 'set_total_records'],
         edits=[dict(file="ipa-core/src/protocol/context/batcher.rs", find='        self.total_records = self.total_records.overwrite(total_records.into());', replace='        self.total_records = total_records.into();')]),
    dict(prop="C16", name="total-arms-reordered", benign=True,
         edits=[dict(file="ipa-core/src/helpers/mod.rs", find='            (Self::Unspecified, v) => v,\n            (_, Self::Unspecified) => panic!("TotalRecords needs a specific value for overwriting"),\n', replace='            (_, Self::Unspecified) if !matches!(self, Self::Unspecified) => {\n                panic!("TotalRecords needs a specific value for overwriting")\n            }\n            (Self::Unspecified, v) => v,\n')]),
]

VARIANTS += [
    dict(prop="C16", name="first-batch-advances-once-after-drain", expect=['INDEX-sync', 'balance'],
         edits=[dict(file="ipa-core/src/protocol/context/batcher.rs", find='                batch = self.batches.pop_front().unwrap();\n                self.first_batch += 1;\n                // Also remove any batches that completed out of order\n                while let Some(None) = self.batches.front() {\n                    self.batches.pop_front();\n                    self.first_batch += 1;\n                }\n', replace='                batch = self.batches.pop_front().unwrap();\n                // Also remove any batches that completed out of order\n                let completed = self.batches.iter().take_while(|b| b.is_none()).count();\n                self.batches.drain(..completed);\n                self.first_batch += 1;\n')]),
    dict(prop="C16", name="first-batch-advances-by-drained-count", benign=True,
         edits=[dict(file="ipa-core/src/protocol/context/batcher.rs", find='                batch = self.batches.pop_front().unwrap();\n                self.first_batch += 1;\n                // Also remove any batches that completed out of order\n                while let Some(None) = self.batches.front() {\n                    self.batches.pop_front();\n                    self.first_batch += 1;\n                }\n', replace='                batch = self.batches.pop_front().unwrap();\n                // Also remove any batches that completed out of order\n                let completed = self.batches.iter().take_while(|b| b.is_none()).count();\n                self.batches.drain(..completed);\n                self.first_batch += 1 + completed;\n')]),
    dict(prop="C16", name="first-batch-not-advanced-for-out-of-order-slots", expect=['INDEX-sync', 'balance'],
         edits=[dict(file="ipa-core/src/protocol/context/batcher.rs", find='                batch = self.batches.pop_front().unwrap();\n                self.first_batch += 1;\n                // Also remove any batches that completed out of order\n                while let Some(None) = self.batches.front() {\n                    self.batches.pop_front();\n                    self.first_batch += 1;\n                }\n', replace='                batch = self.batches.pop_front().unwrap();\n                self.first_batch += 1;\n                // Also remove any batches that completed out of order\n                while let Some(None) = self.batches.front() {\n                    self.batches.pop_front();\n                }\n')]),
]
VARIANTS += [dict(v, prop="C06", name=v["name"] + "@C06") for v in VARIANTS if v["name"] in ("first-batch-advances-once-after-drain", "first-batch-advances-by-drained-count")]

VARIANTS += [
    dict(prop="C03", name="boolean-array-mul-unproved", expect=['WHO-multiply', 'BooleanArrayMul<dzkp_malicious'],
         edits=[dict(file="ipa-core/src/protocol/basics/mul/mod.rs", find='                use crate::protocol::basics::mul::dzkp_malicious::zkp_multiply;\n                zkp_multiply(ctx, record_id, a, b)\n', replace='                semi_honest_multiply(ctx, record_id, a, b)\n')]),
    dict(prop="C03", name="boolean-array-mul-via-path", benign=True,
         edits=[dict(file="ipa-core/src/protocol/basics/mul/mod.rs", find='                use crate::protocol::basics::mul::dzkp_malicious::zkp_multiply;\n                zkp_multiply(ctx, record_id, a, b)\n', replace='                crate::protocol::basics::mul::dzkp_malicious::zkp_multiply(ctx, record_id, a, b)\n')]),
]
VARIANTS += [dict(v, prop=q, name=v["name"] + "@" + q) for v in VARIANTS if v["name"] == "boolean-array-mul-unproved" for q in ("C02", "C07")]

VARIANTS += [
    dict(prop="C04", name="check-zero-opens-unchecked", expect=['unchecked-open'],
         edits=[dict(file="ipa-core/src/protocol/basics/check_zero.rs", find='        &malicious_reveal(ctx.narrow(&Step::RevealR), record_id, None, &rv_share)\n', replace='        &crate::protocol::basics::reveal::semi_honest_reveal(ctx.narrow(&Step::RevealR), record_id, None, &rv_share)\n'), dict(file="ipa-core/src/protocol/basics/check_zero.rs", find='        basics::{malicious_reveal, mul::semi_honest_multiply, step::CheckZeroStep as Step},', replace='        basics::{mul::semi_honest_multiply, step::CheckZeroStep as Step},')]),
]

VARIANTS += [
    dict(prop="C03", name="prover-hash-accepts-empty-proof", expect=['HASH-cover', 'possibly-empty-hash'],
         edits=[dict(file="ipa-core/src/protocol/ipa_prf/malicious_security/prover.rs", find='            &compute_hash(proof_left),\n', replace='            &crate::helpers::hashing::compute_possibly_empty_hash(proof_left),\n')]),
]

VARIANTS += [
    dict(prop="C03", name="empty-hash-refused-in-debug-builds-only", expect=['HASH-cover', 'refuses-empty-input'],
         edits=[dict(file='ipa-core/src/helpers/hashing.rs', find='    assert!(!empty, "must not provide an empty iterator");', replace='    debug_assert!(!empty, "must not provide an empty iterator");')]),
    dict(prop="C03", name="exclude-range-checked-in-debug-builds-only", expect=['RANGE-challenge', 'exclude-range-asserted'],
         edits=[dict(file='ipa-core/src/helpers/hashing.rs', find='    assert!(\n        2 * exclude_to < prime,', replace='    debug_assert!(\n        2 * exclude_to < prime,')]),
    dict(prop="C03", name="proof-capacity-checked-in-debug-builds-only", expect=['CONST-capacity', 'generate-asserts-bound'],
         edits=[dict(file='ipa-core/src/protocol/ipa_prf/validation_protocol/proof_generation.rs', find='        assert!(\n            uv_values.len() <= max_uv_values,', replace='        debug_assert!(\n            uv_values.len() <= max_uv_values,')]),
    dict(prop="C13", name="alignment-checked-in-debug-builds-only", expect=['ALIGN', 'new_with:assert:capacity%read_size==0'],
         edits=[dict(file='ipa-core/src/helpers/gateway/send.rs', find='        assert_eq!(0, this.total_capacity.get() % this.read_size.get());', replace='        debug_assert_eq!(0, this.total_capacity.get() % this.read_size.get());')]),
    dict(prop="C13", name="capacity-checked-in-debug-builds-only", expect=['ALIGN', 'new_with:assert:capacity>=active*record'],
         edits=[dict(file='ipa-core/src/helpers/gateway/send.rs', find='        assert!(this.total_capacity.get() >= record_size * gateway_config.active.get());', replace='        debug_assert!(this.total_capacity.get() >= record_size * gateway_config.active.get());')]),
]

VARIANTS += [
    dict(prop="C19", name="http-shard-transport-counts-itself", cfg="N", expect=['COUNT-shards', 'peer_count:ShardHttpTransport'],
         edits=[dict(file='ipa-core/src/net/transport.rs', find='        u32::from(self.shard_count).saturating_sub(1)', replace='        u32::from(self.shard_count)')]),
    dict(prop="C19", name="http-shard-transport-counts-peers-by-iterating", cfg="N", benign=True,
         edits=[dict(file='ipa-core/src/net/transport.rs', find='        u32::from(self.shard_count).saturating_sub(1)', replace='        u32::try_from(self.peers().count()).unwrap()')]),
    dict(prop="C19", name="gateway-shard-count-without-self", cfg="N", expect=['COUNT-shards', 'shard_count:&Gateway'],
         edits=[dict(file='ipa-core/src/helpers/gateway/mod.rs', find='        ShardIndex::from(self.transports.shard.peer_count() + 1)', replace='        ShardIndex::from(self.transports.shard.peer_count())')]),
]
VARIANTS += [dict(v, prop="C11", name=v["name"] + "@C11") for v in VARIANTS if v["name"] in ("http-shard-transport-counts-itself",)]

VARIANTS += [
    dict(prop="C14", name="ring-window-bindings-and-is-multiple-of", benign=True,
         edits=[dict(file='ipa-core/src/helpers/buffers/unordered_receiver.rs', find='        if i > self.next + self.wakers.len() {\n', replace='        let window = self.wakers.len();\n        let ahead = i - self.next;\n        if ahead > window {\n'), dict(file='ipa-core/src/helpers/buffers/unordered_receiver.rs', find='            let index = i % self.wakers.len();\n            if let Some(old) = self.wakers[index].as_mut() {', replace='            let slot = &mut self.wakers[i % window];\n            if let Some(old) = slot.as_mut() {'), dict(file='ipa-core/src/helpers/buffers/unordered_receiver.rs', find='                self.wakers[index] = Some(waker.clone());', replace='                *slot = Some(waker.clone());'), dict(file='ipa-core/src/helpers/buffers/unordered_receiver.rs', find='        if self.next % (self.wakers.len() / 2) == 0 {', replace='        let half = self.wakers.len() / 2;\n        if self.next.is_multiple_of(half) {')]),
    dict(prop="C16", name="pop-loop-with-matches", benign=True,
         edits=[dict(file='ipa-core/src/protocol/context/batcher.rs', find='                while let Some(None) = self.batches.front() {\n                    self.batches.pop_front();\n                    self.first_batch += 1;\n                }', replace='                while matches!(self.batches.front(), Some(None)) {\n                    let _ = self.batches.pop_front();\n                    self.first_batch += 1;\n                }')]),
    dict(prop="C17", name="batch-count-selected-by-branch", benign=True,
         edits=[dict(file='ipa-core/src/helpers/transport/stream/input.rs', find='        let count = max(1, buf.contiguous_len() / T::Size::USIZE);\n        buf.read_multi(count)', replace='        let available = buf.contiguous_len() / T::Size::USIZE;\n        buf.read_multi(if available == 0 { 1 } else { available })')]),
]
VARIANTS += [dict(v, prop="C13", name=v["name"] + "@C13") for v in VARIANTS if v["name"] == "ring-window-bindings-and-is-multiple-of"]

VARIANTS += [
    dict(prop="C12", name="tail-sum-saturating-start-scan-from-max", benign=True,
         edits=[dict(file='ipa-core/src/protocol/ipa_prf/oprf_padding/insecure.rs', find='    for k in n - big_delta + 1..=n {', replace='    for k in n.saturating_sub(big_delta) + 1..=n {'), dict(file='ipa-core/src/protocol/ipa_prf/oprf_padding/insecure.rs', find='    for n in big_delta.. {', replace='    for n in big_delta.max(1).. {')]),
    dict(prop="C12", name="truncation-scan-from-one", expect=['SHAPE-eq11', 'scan-from-big_delta'],
         edits=[dict(file='ipa-core/src/protocol/ipa_prf/oprf_padding/insecure.rs', find='    for k in n - big_delta + 1..=n {', replace='    for k in n.saturating_sub(big_delta) + 1..=n {'), dict(file='ipa-core/src/protocol/ipa_prf/oprf_padding/insecure.rs', find='    for n in big_delta.. {', replace='    for n in 1.. {')]),
]

# behaviour-preserving refactorings written by independent sub-agents (round B1) that tripped a rule
VARIANTS += [
    dict(prop="C17", name="gather-loop-as-while-not-full", benign=True,
         edits=[dict(file='ipa-core/src/helpers/transport/stream/input.rs', find="            // this must loop through the bytes buffers because we don't know how many buffers will\n            // be needed to fulfill `len`. e.g. if every buffer had length 1, we'd need to\n            // visit `len` buffers in order to fill `out_bytes`\n            loop {\n                let remaining_bytes = out_bytes.capacity() - out_bytes.len();\n                if remaining_bytes == 0 {\n                    break;\n                }\n                // current buffer has more bytes than needed\n                if self.buffered[0].len() > remaining_bytes {\n                    let remaining = self.buffered[0].split_to(remaining_bytes);\n", replace="            // this must loop through the bytes buffers because we don't know how many buffers will\n            // be needed to fulfill `len`. e.g. if every buffer had length 1, we'd need to\n            // visit `len` buffers in order to fill `out_bytes`\n            while out_bytes.len() < out_bytes.capacity() {\n                let remaining_bytes = out_bytes.capacity() - out_bytes.len();\n                // current buffer has more bytes than needed\n                if self.buffered[0].len() > remaining_bytes {\n                    let remaining = self.buffered[0].split_to(remaining_bytes);\n")]),
    dict(prop="C17", name="payload-read-extracted-into-helper", benign=True,
         edits=[dict(file='ipa-core/src/helpers/transport/stream/input.rs', find='            .map(|bytes| T::deserialize(GenericArray::from_slice(&bytes)))\n    }\n\n    /// Update the buffer with the result of polling a stream.\n    fn extend(&mut self, bytes: Option<Result<Bytes, BoxError>>) -> ExtendResult {\n        match bytes {\n', replace='            .map(|bytes| T::deserialize(GenericArray::from_slice(&bytes)))\n    }\n\n    /// Read the payload of a length-delimited item whose length prefix was `len`.\n    ///\n    /// Unlike [`Self::read_bytes`], a zero `len` is a valid (empty) payload that is always\n    /// available. Returns `None` if there are less than `len` bytes in the buffer.\n    fn read_payload(&mut self, len: usize) -> Option<Bytes> {\n        if len == 0 {\n            Some(Bytes::from(&[] as &[u8]))\n        } else {\n            self.read_bytes(len)\n        }\n    }\n\n    /// Update the buffer with the result of polling a stream.\n    fn extend(&mut self, bytes: Option<Result<Bytes, BoxError>>) -> ExtendResult {\n        match bytes {\n'), dict(file='ipa-core/src/helpers/transport/stream/input.rs', find='            }\n\n            if let Some(len) = *this.pending_len {\n                let bytes = if len == 0 {\n                    Some(Bytes::from(&[] as &[u8]))\n                } else {\n                    this.buffer.read_bytes(len)\n                };\n                if let Some(bytes) = bytes {\n                    *this.pending_len = None;\n                    consumed_len += len;\n                    match T::try_from(bytes) {\n', replace='            }\n\n            if let Some(len) = *this.pending_len {\n                if let Some(bytes) = this.buffer.read_payload(len) {\n                    *this.pending_len = None;\n                    consumed_len += len;\n                    match T::try_from(bytes) {\n')]),
]

VARIANTS += [
    dict(prop="C03", name="batch-first-record-if-else", benign=True,
         edits=[dict(file='ipa-core/src/protocol/context/dzkp_validator.rs', find='            max_multiplications_per_gate,\n            ctx.total_records(),\n            Box::new(move |batch_index| {\n                let first_record = (max_multiplications_per_gate != usize::MAX)\n                    .then(|| RecordId::from(batch_index * max_multiplications_per_gate));\n                Batch::new(first_record, max_multiplications_per_gate)\n            }),\n        );\n', replace='            max_multiplications_per_gate,\n            ctx.total_records(),\n            Box::new(move |batch_index| {\n                // With an unlimited batch size there is a single batch, and its first\n                // record is determined when the first segment is added.\n                let first_record = if max_multiplications_per_gate == usize::MAX {\n                    None\n                } else {\n                    Some(RecordId::from(batch_index * max_multiplications_per_gate))\n                };\n                Batch::new(first_record, max_multiplications_per_gate)\n            }),\n        );\n')]),
]

VARIANTS += [
    dict(prop="C19", name="result-built-by-extend-loop", benign=True,
         edits=[dict(file='ipa-core/src/protocol/context/mod.rs', find='        }\n    }\n\n    Ok(r.into_iter().flatten().collect())\n}\n\n/// Provides the same functionality as [`reshard_try_stream`] on\n', replace='        }\n    }\n\n    // concatenate per-shard buckets in the ascending order of shard indices\n    let mut resharded = Vec::with_capacity(r.iter().map(Vec::len).sum());\n    for shard_records in r {\n        resharded.extend(shard_records);\n    }\n\n    Ok(resharded)\n}\n\n/// Provides the same functionality as [`reshard_try_stream`] on\n')]),
    dict(prop="C19", name="route-yield-hoisted", benign=True,
         edits=[dict(file='ipa-core/src/protocol/context/mod.rs', find='\n                    let dest_shard = shard_picker(ctx, RecordId::from(*i), &val);\n                    *i += 1;\n                    if dest_shard == my_shard {\n                        Ok(Some(((my_shard, Some(val)), (input, send_channels, i))))\n                    } else {\n                        let (record_id, se) = send_channels.get_mut(&dest_shard).unwrap();\n                        se.send(*record_id, val)\n                            .await\n                            .map_err(crate::error::Error::from)?;\n                        *record_id += 1;\n                        Ok(Some(((my_shard, None), (input, send_channels, i))))\n                    }\n                } else {\n                    for (last_record, send_channel) in send_channels.values() {\n                        send_channel.close(*last_record).await;\n', replace='\n                    let dest_shard = shard_picker(ctx, RecordId::from(*i), &val);\n                    *i += 1;\n                    // `Some` if the record stays on this shard, `None` if it has been sent out.\n                    let kept = if dest_shard == my_shard {\n                        Some(val)\n                    } else {\n                        let (record_id, se) = send_channels.get_mut(&dest_shard).unwrap();\n                        se.send(*record_id, val)\n                            .await\n                            .map_err(crate::error::Error::from)?;\n                        *record_id += 1;\n                        None\n                    };\n                    Ok(Some(((my_shard, kept), (input, send_channels, i))))\n                } else {\n                    for (last_record, send_channel) in send_channels.values() {\n                        send_channel.close(*last_record).await;\n')]),
    dict(prop="C19", name="result-buckets-reversed", expect=["ORDER", "flatten-in-shard-order"],
         edits=[dict(file='ipa-core/src/protocol/context/mod.rs', find="    Ok(r.into_iter().flatten().collect())\n", replace="    Ok(r.into_iter().rev().flatten().collect())\n")]),
]

VARIANTS += [
    dict(prop="C14", name="take-early-return-was-full", benign=True,
         edits=[dict(file='ipa-core/src/helpers/buffers/ordering_sender.rs', find="    }\n\n    fn take(&mut self, cx: &Context<'_>) -> Poll<Vec<u8>> {\n        if self.buf.can_read() {\n            let can_write = self.buf.can_write();\n            let next = self.buf.take();\n\n            if !can_write {\n                // We are ready to unblock writers by taking some data that we know is there off\n                // the buffer\n                Self::wake(&mut self.write_ready);\n            }\n\n            Poll::Ready(next)\n        } else {\n            Self::save_waker(&mut self.stream_ready, cx);\n            Poll::Pending\n        }\n    }\n\n    fn close(&mut self) {\n", replace="    }\n\n    fn take(&mut self, cx: &Context<'_>) -> Poll<Vec<u8>> {\n        if !self.buf.can_read() {\n            Self::save_waker(&mut self.stream_ready, cx);\n            return Poll::Pending;\n        }\n\n        let was_full = !self.buf.can_write();\n        let next = self.buf.take();\n\n        if was_full {\n            // We are ready to unblock writers by taking some data that we know is there off\n            // the buffer\n            Self::wake(&mut self.write_ready);\n        }\n\n        Poll::Ready(next)\n    }\n\n    fn close(&mut self) {\n")]),
    dict(prop="C14", name="woken-at-method-max", benign=True,
         edits=[dict(file='ipa-core/src/helpers/buffers/ordering_sender.rs', find='    fn wake(&mut self, i: usize) {\n        // Waking thread may have lost the race and got the lock after the successful write\n        // to the next element. Moving `woken_at` back will introduce a concurrency bug.\n        self.woken_at = std::cmp::max(self.woken_at, i);\n\n        if let Some(idx) = self\n            .wakers\n            .iter()\n            .take_while(|wi| wi.i <= i)\n            .position(|wi| wi.i == i)\n        {\n            // We only save one waker at each index, but if a future is polled without\n            // this function having to wake the task, it will sit here.  Clean those out.\n            drop(self.wakers.drain(0..idx));\n            self.wakers.pop_front().unwrap().w.wake();\n        }\n    }\n\n', replace='    fn wake(&mut self, i: usize) {\n        // Waking thread may have lost the race and got the lock after the successful write\n        // to the next element. Moving `woken_at` back will introduce a concurrency bug.\n        self.woken_at = self.woken_at.max(i);\n\n        let found = self\n            .wakers\n            .iter()\n            .take_while(|item| item.i <= i)\n            .position(|item| item.i == i);\n        if let Some(idx) = found {\n            // We only save one waker at each index, but if a future is polled without\n            // this function having to wake the task, it will sit here.  Clean those out.\n            drop(self.wakers.drain(0..idx));\n            let item = self\n                .wakers\n                .pop_front()\n                .expect("a waker for this index was just found");\n            item.w.wake();\n        }\n    }\n\n')]),
    dict(prop="C14", name="take-range-into-inner", benign=True,
         edits=[dict(file='ipa-core/src/helpers/buffers/circular.rs', find='        }\n\n        // Capacity is always a multiple of write_size, so delta is always aligned.\n        let delta = std::cmp::min(self.read_size, self.len());\n\n        let mut ret = Vec::with_capacity(delta);\n        let range = self.range(self.read, delta);\n\n        // If the read range wraps around, we need to split it\n        if range.end() < range.start() {\n            ret.extend_from_slice(&self.data[*range.start()..]);\n            ret.extend_from_slice(&self.data[..=*range.end()]);\n        } else {\n            ret.extend_from_slice(&self.data[range]);\n        }\n\n        self.read = self.inc(self.read, delta);\n', replace='        }\n\n        // Capacity is always a multiple of write_size, so delta is always aligned.\n        let delta = self.read_size.min(self.len());\n\n        let mut ret = Vec::with_capacity(delta);\n        let (first, last) = self.range(self.read, delta).into_inner();\n\n        // If the read range wraps around, we need to split it\n        if last < first {\n            ret.extend_from_slice(&self.data[first..]);\n            ret.extend_from_slice(&self.data[..=last]);\n        } else {\n            ret.extend_from_slice(&self.data[first..=last]);\n        }\n\n        self.read = self.inc(self.read, delta);\n')]),
    dict(prop="C14", name="len-by-checked-sub", benign=True,
         edits=[dict(file='ipa-core/src/helpers/buffers/circular.rs', find='        // It works well for power-of-two sizes, but for arbitrary\n        // buffer capacity, it is easier to use N - (a - b) because\n        // write is always ahead of read.\n        if self.write >= self.read {\n            self.wrap(self.write - self.read)\n        } else {\n            self.capacity() + self.mask(self.write) - self.mask(self.read)\n        }\n    }\n\n', replace='        // It works well for power-of-two sizes, but for arbitrary\n        // buffer capacity, it is easier to use N - (a - b) because\n        // write is always ahead of read.\n        match self.write.checked_sub(self.read) {\n            // `write >= read`\n            Some(distance) => self.wrap(distance),\n            // `write < read`: the write pointer has wrapped around `2 * capacity`.\n            None => self.capacity() + self.mask(self.write) - self.mask(self.read),\n        }\n    }\n\n')]),
    dict(prop="C14", name="poll-next-deliver-helper", benign=True,
         edits=[dict(file='ipa-core/src/helpers/buffers/unordered_receiver.rs', find="        }\n    }\n\n    /// Poll for the next record.  This should only be invoked when\n    /// the future for the next message is polled.\n    fn poll_next<M: Message>(&mut self, cx: &mut Context<'_>) -> Poll<Result<M, Error>> {\n        self.max_polled_idx = std::cmp::max(self.max_polled_idx, Some(self.next));\n        if let Some(m) = self.spare.read() {\n            self.wake_next();\n            return Poll::Ready(m.map_err(|e| DeserializeError::new::<M>(self.next, e).into()));\n        }\n\n        loop {\n", replace="        }\n    }\n\n    /// Hand a message that was just read off the stream to the caller, after advancing the\n    /// read cursor and waking the receiver for the following record.\n    fn deliver<M: Message>(\n        &mut self,\n        m: Result<M, M::DeserializationError>,\n    ) -> Poll<Result<M, Error>> {\n        self.wake_next();\n        Poll::Ready(m.map_err(|e| DeserializeError::new::<M>(self.next, e).into()))\n    }\n\n    /// Poll for the next record.  This should only be invoked when\n    /// the future for the next message is polled.\n    fn poll_next<M: Message>(&mut self, cx: &mut Context<'_>) -> Poll<Result<M, Error>> {\n        self.max_polled_idx = std::cmp::max(self.max_polled_idx, Some(self.next));\n        if let Some(m) = self.spare.read() {\n            return self.deliver(m);\n        }\n\n        loop {\n"), dict(file='ipa-core/src/helpers/buffers/unordered_receiver.rs', find='                    let b = b.as_ref();\n                    tracing::trace!(len = b.len(), "next chunk");\n                    if let Some(m) = self.spare.extend(b) {\n                        self.wake_next();\n                        return Poll::Ready(\n                            m.map_err(|e| DeserializeError::new::<M>(self.next, e).into()),\n                        );\n                    }\n                }\n                Poll::Ready(None) => {\n', replace='                    let b = b.as_ref();\n                    tracing::trace!(len = b.len(), "next chunk");\n                    if let Some(m) = self.spare.extend(b) {\n                        return self.deliver(m);\n                    }\n                }\n                Poll::Ready(None) => {\n')]),
    dict(prop="C14", name="waiting-add-rposition", benign=True,
         edits=[dict(file='ipa-core/src/helpers/buffers/ordering_sender.rs', find="            // this means this thread is out of sync and there was an update to channel's current\n            // position. Accepting a waker could mean it will never be awakened. Rejecting this operation\n            // will let the current thread to read the position again.\n            Err(())?;\n        }\n\n        // Each new addition will tend to have a larger index, so search backwards and\n        // replace an equal index or insert after a smaller index.\n        // TODO: consider a binary search if the item cannot be added to the end.\n        let item = WakerItem { i, w: w.clone() };\n        for j in (0..self.wakers.len()).rev() {\n            match self.wakers[j].i.cmp(&i) {\n                Ordering::Greater => (),\n                Ordering::Equal => {\n                    self.wakers[j] = item;\n                    return Ok(());\n                }\n                Ordering::Less => {\n                    self.wakers.insert(j + 1, item);\n                    return Ok(());\n                }\n            }\n        }\n        self.wakers.insert(0, item);\n        Ok(())\n    }\n\n", replace="            // this means this thread is out of sync and there was an update to channel's current\n            // position. Accepting a waker could mean it will never be awakened. Rejecting this operation\n            // will let the current thread to read the position again.\n            return Err(());\n        }\n\n        // Each new addition will tend to have a larger index, so search backwards and\n        // replace an equal index or insert after a smaller index.\n        // TODO: consider a binary search if the item cannot be added to the end.\n        let item = WakerItem { i, w: w.clone() };\n        match self.wakers.iter().rposition(|saved| saved.i <= i) {\n            Some(j) if self.wakers[j].i == i => self.wakers[j] = item,\n            Some(j) => self.wakers.insert(j + 1, item),\n            None => self.wakers.insert(0, item),\n        }\n        Ok(())\n    }\n\n")]),
    dict(prop="C19", name="splitter-with-map-closures", benign=True,
         edits=[dict(file='ipa-core/src/query/runner/reshard_tag.rs', find="\n    fn poll_next(self: Pin<&mut Self>, cx: &mut Context<'_>) -> Poll<Option<Self::Item>> {\n        let this = self.project();\n        match ready!(this.inner.poll_next(cx)) {\n            Some(Ok((k, a))) => {\n                this.buf.push(k);\n                Poll::Ready(Some(Ok(a)))\n            }\n            Some(Err(e)) => Poll::Ready(Some(Err(e))),\n            None => Poll::Ready(None),\n        }\n    }\n    fn size_hint(&self) -> (usize, Option<usize>) {\n        self.inner.size_hint()\n", replace="\n    fn poll_next(self: Pin<&mut Self>, cx: &mut Context<'_>) -> Poll<Option<Self::Item>> {\n        let this = self.project();\n        let next = ready!(this.inner.poll_next(cx));\n        // errors and the end of the stream are passed through as is\n        Poll::Ready(next.map(|item| {\n            item.map(|(data, tag)| {\n                this.buf.push(data);\n                tag\n            })\n        }))\n    }\n    fn size_hint(&self) -> (usize, Option<usize>) {\n        self.inner.size_hint()\n")]),
    dict(prop="C01", name="prf-picker-named-function", benign=True,
         edits=[dict(file='ipa-core/src/protocol/hybrid/oprf.rs', find='        replicated::{malicious, semi_honest::AdditiveShare as Replicated},\n    },\n    seq_join::{SeqJoin, seq_join},\n    utils::non_zero_prev_power_of_two,\n};\n\n', replace='        replicated::{malicious, semi_honest::AdditiveShare as Replicated},\n    },\n    seq_join::{SeqJoin, seq_join},\n    sharding::ShardIndex,\n    utils::non_zero_prev_power_of_two,\n};\n\n'), dict(file='ipa-core/src/protocol/hybrid/oprf.rs', find='        return reshard_try_stream(\n            ctx.narrow(&HybridStep::ReshardByPrf),\n            stream::iter(Vec::<Result<PrfHybridReport<BK, V>, Error>>::new()),\n            |ctx, _, report| report.match_key % ctx.shard_count(),\n        )\n        .await;\n    }\n', replace='        return reshard_try_stream(\n            ctx.narrow(&HybridStep::ReshardByPrf),\n            stream::iter(Vec::<Result<PrfHybridReport<BK, V>, Error>>::new()),\n            shard_by_prf,\n        )\n        .await;\n    }\n'), dict(file='ipa-core/src/protocol/hybrid/oprf.rs', find='    reshard_try_stream(\n        ctx.narrow(&HybridStep::ReshardByPrf),\n        report_stream,\n        |ctx, _, report| report.match_key % ctx.shard_count(),\n    )\n    .await\n}\n\n/// generates PRF key k as secret sharing over Fp25519\npub fn gen_prf_key<C, const N: usize>(ctx: &C) -> Replicated<Fp25519, N>\nwhere\n', replace='    reshard_try_stream(\n        ctx.narrow(&HybridStep::ReshardByPrf),\n        report_stream,\n        shard_by_prf,\n    )\n    .await\n}\n\n/// Selects the destination shard for a report based on its OPRF value. Reports with the\n/// same value are assigned to the same shard.\nfn shard_by_prf<C, BK, V>(ctx: C, _: RecordId, report: &PrfHybridReport<BK, V>) -> ShardIndex\nwhere\n    C: ShardedContext,\n    BK: BooleanArray,\n    V: BooleanArray,\n{\n    report.match_key % ctx.shard_count()\n}\n\n/// generates PRF key k as secret sharing over Fp25519\npub fn gen_prf_key<C, const N: usize>(ctx: &C) -> Replicated<Fp25519, N>\nwhere\n')]),
]

# round B2 (C13, C15, C18, C10)
VARIANTS += [
    dict(prop="C18", name="set-state-get-then-insert", benign=True,
         edits=[dict(file='ipa-core/src/query/state.rs', find='use std::{\n    collections::{HashMap, hash_map::Entry},\n    fmt::{Debug, Display, Formatter},\n    future::Future,\n    task::Poll,\n', replace='use std::{\n    collections::HashMap,\n    fmt::{Debug, Display, Formatter},\n    future::Future,\n    task::Poll,\n'), dict(file='ipa-core/src/query/state.rs', find="impl QueryHandle<'_> {\n    pub fn set_state(&self, new_state: QueryState) -> Result<(), StateError> {\n        let mut inner = self.queries.inner.lock().unwrap();\n        let entry = inner.entry(self.query_id);\n        match entry {\n            Entry::Occupied(mut entry) => {\n                entry.insert(QueryState::transition(entry.get(), new_state)?);\n            }\n            Entry::Vacant(entry) => {\n                entry.insert(QueryState::transition(&QueryState::Empty, new_state)?);\n            }\n        }\n\n        Ok(())\n    }\n", replace="impl QueryHandle<'_> {\n    pub fn set_state(&self, new_state: QueryState) -> Result<(), StateError> {\n        let mut inner = self.queries.inner.lock().unwrap();\n        let next_state = match inner.get(&self.query_id) {\n            Some(cur_state) => QueryState::transition(cur_state, new_state)?,\n            None => QueryState::transition(&QueryState::Empty, new_state)?,\n        };\n        inner.insert(self.query_id, next_state);\n\n        Ok(())\n    }\n")]),
    dict(prop="C18", name="get-status-nested-match", benign=True,
         edits=[dict(file='ipa-core/src/query/processor.rs', find='    /// If the query was completed it updates the state to reflect that.\n    fn get_status(&self, query_id: QueryId) -> Option<QueryStatus> {\n        let mut queries = self.queries.inner.lock().unwrap();\n        let mut state = queries.remove(&query_id)?;\n\n        if let QueryState::Running(ref mut running) = state {\n            if let Some(result) = running.try_complete() {\n                state = QueryState::Completed(result);\n            }\n        }\n\n        let status = QueryStatus::from(&state);\n        queries.insert(query_id, state);\n', replace='    /// If the query was completed it updates the state to reflect that.\n    fn get_status(&self, query_id: QueryId) -> Option<QueryStatus> {\n        let mut queries = self.queries.inner.lock().unwrap();\n        let state = match queries.remove(&query_id)? {\n            QueryState::Running(mut running) => match running.try_complete() {\n                Some(result) => QueryState::Completed(result),\n                None => QueryState::Running(running),\n            },\n            other => other,\n        };\n\n        let status = QueryStatus::from(&state);\n        queries.insert(query_id, state);\n')]),
    dict(prop="C18", name="min-status-by-rank", benign=True,
         edits=[dict(file='ipa-core/src/query/state.rs', find='/// that describes the helper.\n#[must_use]\npub fn min_status(a: QueryStatus, b: QueryStatus) -> QueryStatus {\n    match (a, b) {\n        (QueryStatus::Preparing, _) | (_, QueryStatus::Preparing) => QueryStatus::Preparing,\n        (QueryStatus::AwaitingInputs, _) | (_, QueryStatus::AwaitingInputs) => {\n            QueryStatus::AwaitingInputs\n        }\n        (QueryStatus::Running, _) | (_, QueryStatus::Running) => QueryStatus::Running,\n        (QueryStatus::AwaitingCompletion, _) | (_, QueryStatus::AwaitingCompletion) => {\n            QueryStatus::AwaitingCompletion\n        }\n        (QueryStatus::Completed, _) => QueryStatus::Completed,\n    }\n}\n\n/// TODO: a macro would be very useful here to keep it in sync with `QueryStatus`\n', replace='/// that describes the helper.\n#[must_use]\npub fn min_status(a: QueryStatus, b: QueryStatus) -> QueryStatus {\n    /// Position of a status in the query lifecycle, `Preparing` being the least advanced.\n    fn progress(status: QueryStatus) -> u8 {\n        match status {\n            QueryStatus::Preparing => 0,\n            QueryStatus::AwaitingInputs => 1,\n            QueryStatus::Running => 2,\n            QueryStatus::AwaitingCompletion => 3,\n            QueryStatus::Completed => 4,\n        }\n    }\n\n    if progress(a) <= progress(b) { a } else { b }\n}\n\n/// TODO: a macro would be very useful here to keep it in sync with `QueryStatus`\n')]),
    dict(prop="C15", name="mt-refill-loop-with-break", cfg="M", benign=True,
         edits=[dict(file='ipa-core/src/seq_join/multi_thread.rs', find='        let mut this = self.project();\n\n        // Draw more values from the input, up to the capacity.\n        while this.spawner.remaining() < *this.capacity {\n            if let Poll::Ready(Some(f)) = this.source.as_mut().poll_next(cx) {\n                // Making futures cancellable is critical to avoid hangs.\n                // if one of them panics, unwinding causes spawner to drop and, in turn,\n', replace='        let mut this = self.project();\n\n        // Draw more values from the input, up to the capacity.\n        loop {\n            let in_flight = this.spawner.remaining();\n            if in_flight >= *this.capacity {\n                break;\n            }\n            if let Poll::Ready(Some(f)) = this.source.as_mut().poll_next(cx) {\n                // Making futures cancellable is critical to avoid hangs.\n                // if one of them panics, unwinding causes spawner to drop and, in turn,\n'), dict(file='ipa-core/src/seq_join/multi_thread.rs', find='                        panic!("SequentialFutures: spawned task {task_index} cancelled")\n                    });\n\n                periodic_memory_report(*this.spawned);\n                *this.spawned += 1;\n            } else {\n                break;\n            }\n', replace='                        panic!("SequentialFutures: spawned task {task_index} cancelled")\n                    });\n\n                periodic_memory_report(task_index);\n                *this.spawned = task_index + 1;\n            } else {\n                break;\n            }\n')]),
    dict(prop="C15", name="validated-join-renamed-bindings", benign=True,
         edits=[dict(file='ipa-core/src/protocol/context/dzkp_validator.rs', find="        O: Send + Sync + 'static,\n    {\n        let ctx = self.context();\n        seq_join(\n            ctx.active_work(),\n            source.enumerate().map(move |(index, fut)| {\n                let ctx = ctx.clone();\n                fut.then(move |res| async move {\n                    let item = res?;\n                    ctx.validate_record(RecordId::from(index)).await?;\n                    Ok(item)\n                })\n            }),\n        )\n        .chain(stream::unfold(Some(self), move |mut validator| {\n            // This keeps the validator alive until the stream has finished.\n            drop(validator.take());\n            ready(None)\n", replace="        O: Send + Sync + 'static,\n    {\n        let ctx = self.context();\n        let window = ctx.active_work();\n        // Each task reports its own record for validation once its result is available.\n        let validated = source.enumerate().map(move |(record_index, task)| {\n            let record_ctx = ctx.clone();\n            task.then(move |res| async move {\n                let item = res?;\n                let record_id = RecordId::from(record_index);\n                record_ctx.validate_record(record_id).await?;\n                Ok(item)\n            })\n        });\n        seq_join(window, validated).chain(stream::unfold(Some(self), move |mut validator| {\n            // This keeps the validator alive until the stream has finished.\n            drop(validator.take());\n            ready(None)\n")]),
    dict(prop="C13", name="spare-read-via-get", benign=True,
         edits=[dict(file='ipa-core/src/helpers/buffers/unordered_receiver.rs', find="    /// Read a message from the buffer.  Returns `None` if there isn't enough data.\n    fn read<M: Message>(&mut self) -> Option<Result<M, M::DeserializationError>> {\n        let end = self.offset + M::Size::USIZE;\n        if end <= self.buf.len() {\n            let m = M::deserialize(GenericArray::from_slice(&self.buf[self.offset..end]));\n            self.offset = end;\n            Some(m)\n        } else {\n            None\n        }\n    }\n\n    /// Replace the stored value with the given slice.\n    fn replace(&mut self, v: &[u8]) {\n        self.offset = 0;\n        self.buf.truncate(0);\n        self.buf.extend_from_slice(v);\n    }\n\n    /// Extend the buffer with new data.\n", replace="    /// Read a message from the buffer.  Returns `None` if there isn't enough data.\n    fn read<M: Message>(&mut self) -> Option<Result<M, M::DeserializationError>> {\n        let end = self.offset + M::Size::USIZE;\n        // `offset <= end`, so this is `None` exactly when `end` is past the buffered data.\n        let bytes = self.buf.get(self.offset..end)?;\n        let m = M::deserialize(GenericArray::from_slice(bytes));\n        self.offset = end;\n        Some(m)\n    }\n\n    /// Replace the stored value with the given slice.\n    fn replace(&mut self, v: &[u8]) {\n        self.buf.clear();\n        self.buf.extend_from_slice(v);\n        self.offset = 0;\n    }\n\n    /// Extend the buffer with new data.\n")]),
    dict(prop="C13", name="rendezvous-occupied-insert", benign=True,
         edits=[dict(file='ipa-core/src/helpers/transport/receive.rs', find='        loop {\n            match self.as_mut().project() {\n                ReceiveRecordsInnerProj::Pending(key, streams) => {\n                    if let Some(stream) = streams.add_waker(key, cx.waker()) {\n                        self.set(Self::Ready(stream));\n                    } else {\n                        return Poll::Pending;\n                    }\n                }\n                ReceiveRecordsInnerProj::Ready(stream) => return stream.poll_next(cx),\n            }\n', replace='        loop {\n            match self.as_mut().project() {\n                ReceiveRecordsInnerProj::Pending(key, streams) => {\n                    let Some(stream) = streams.add_waker(key, cx.waker()) else {\n                        // the collection keeps our waker and notifies us when the stream arrives\n                        return Poll::Pending;\n                    };\n                    self.set(Self::Ready(stream));\n                }\n                ReceiveRecordsInnerProj::Ready(stream) => return stream.poll_next(cx),\n            }\n'), dict(file='ipa-core/src/helpers/transport/stream/collection.rs', find='        let mut streams = self.inner.lock().unwrap();\n        match streams.entry(key) {\n            Entry::Occupied(mut entry) => match entry.get_mut() {\n                rs @ StreamState::Waiting(_) => {\n                    let StreamState::Waiting(waker) =\n                        std::mem::replace(rs, StreamState::Ready(stream))\n                    else {\n                        unreachable!()\n                    };\n', replace='        let mut streams = self.inner.lock().unwrap();\n        match streams.entry(key) {\n            Entry::Occupied(mut entry) => match entry.get_mut() {\n                StreamState::Waiting(_) => {\n                    // `insert` on an occupied entry hands back the value it replaces.\n                    let StreamState::Waiting(waker) = entry.insert(StreamState::Ready(stream))\n                    else {\n                        unreachable!()\n                    };\n')]),
    dict(prop="C10", name="registry-key-via-get", benign=True,
         edits=[dict(file='ipa-core/src/hpke/registry.rs', find='    }\n\n    fn key(&self, key_id: KeyIdentifier) -> Option<&K> {\n        match key_id as usize {\n            key_id if key_id < self.keys.len() => Some(&self.keys[key_id]),\n            _ => None,\n        }\n    }\n}\n\n', replace='    }\n\n    fn key(&self, key_id: KeyIdentifier) -> Option<&K> {\n        // `get` performs the same bounds check and yields `None` for unknown identifiers.\n        self.keys.get(usize::from(key_id))\n    }\n}\n\n')]),
    dict(prop="C17", name="eof-arms-merged", benign=True,
         edits=[dict(file='ipa-core/src/helpers/transport/stream/input.rs', find='            };\n\n            match this.buffer.extend(polled_item) {\n                ExtendResult::Finished if this.pending_len.is_some() => {\n                    return Poll::Ready(Some(Err(io::Error::new(\n                        io::ErrorKind::WriteZero,\n                        format!(\n', replace='            };\n\n            match this.buffer.extend(polled_item) {\n                ExtendResult::Finished => {\n                    // a length prefix without its record means the input was truncated\n                    let Some(_missing_len) = *this.pending_len else {\n                        return Poll::Ready(None);\n                    };\n                    return Poll::Ready(Some(Err(io::Error::new(\n                        io::ErrorKind::WriteZero,\n                        format!(\n'), dict(file='ipa-core/src/helpers/transport/stream/input.rs', find='                        ),\n                    ))));\n                }\n                ExtendResult::Finished => return Poll::Ready(None),\n                ExtendResult::Error(err) => return Poll::Ready(Some(Err(err))),\n                ExtendResult::Ok if available_len == 0 => {\n                    available_len = this.buffer.contiguous_len();\n                    items.reserve(1 + available_len / ESTIMATED_AVERAGE_REPORT_SIZE);\n                }\n                ExtendResult::Ok => (),\n            }\n        }\n    }\n', replace='                        ),\n                    ))));\n                }\n                ExtendResult::Error(err) => return Poll::Ready(Some(Err(err))),\n                ExtendResult::Ok => {\n                    if available_len == 0 {\n                        available_len = this.buffer.contiguous_len();\n                        items.reserve(1 + available_len / ESTIMATED_AVERAGE_REPORT_SIZE);\n                    }\n                }\n            }\n        }\n    }\n')]),
    dict(prop="C10", name="missing-key-let-else", benign=True,
         edits=[dict(file='ipa-core/src/report/hybrid.rs', find='\n        let mut ct_mk: GenericArray<u8, CTMKLength> =\n            *GenericArray::from_slice(self.mk_ciphertext());\n        let sk = key_registry\n            .private_key(self.key_id())\n            .ok_or(CryptError::NoSuchKey(self.key_id()))?;\n        let info =\n            HybridImpressionInfo::from_bytes(&self.data[Self::INFO_OFFSET..]).map_err(|e| {\n                InvalidHybridReportError::DeserializationError("HybridImpressionInfo", e.into())\n', replace='\n        let mut ct_mk: GenericArray<u8, CTMKLength> =\n            *GenericArray::from_slice(self.mk_ciphertext());\n        let key_id = self.key_id();\n        let Some(sk) = key_registry.private_key(key_id) else {\n            return Err(CryptError::NoSuchKey(key_id).into());\n        };\n        let info =\n            HybridImpressionInfo::from_bytes(&self.data[Self::INFO_OFFSET..]).map_err(|e| {\n                InvalidHybridReportError::DeserializationError("HybridImpressionInfo", e.into())\n'), dict(file='ipa-core/src/report/hybrid.rs', find='\n        let mut ct_mk: GenericArray<u8, CTMKLength> =\n            *GenericArray::from_slice(self.mk_ciphertext());\n        let sk = key_registry\n            .private_key(self.key_id())\n            .ok_or(CryptError::NoSuchKey(self.key_id()))?;\n        let info =\n            HybridConversionInfo::from_bytes(&self.data[Self::INFO_OFFSET..]).map_err(|e| {\n                InvalidHybridReportError::DeserializationError("HybridConversionInfo", e.into())\n', replace='\n        let mut ct_mk: GenericArray<u8, CTMKLength> =\n            *GenericArray::from_slice(self.mk_ciphertext());\n        let key_id = self.key_id();\n        let Some(sk) = key_registry.private_key(key_id) else {\n            return Err(CryptError::NoSuchKey(key_id).into());\n        };\n        let info =\n            HybridConversionInfo::from_bytes(&self.data[Self::INFO_OFFSET..]).map_err(|e| {\n                InvalidHybridReportError::DeserializationError("HybridConversionInfo", e.into())\n')]),
]

# round B3 (C01, C05, C07, C12)
VARIANTS += [
    dict(prop="C01", name="group-explicit-entry-match", benign=True,
         edits=[dict(file='ipa-core/src/protocol/hybrid/agg.rs', find='use std::collections::BTreeMap;\n\nuse futures::{StreamExt, TryStreamExt, stream};\n\n', replace='use std::collections::{BTreeMap, btree_map::Entry};\n\nuse futures::{StreamExt, TryStreamExt, stream};\n\n'), dict(file='ipa-core/src/protocol/hybrid/agg.rs', find='    let mut reports_by_matchkey: BTreeMap<u64, MatchEntry<BK, V>> = BTreeMap::new();\n\n    for report in reports {\n        reports_by_matchkey\n            .entry(report.match_key)\n            .and_modify(|e| e.add_report(report.clone().into()))\n            .or_insert(MatchEntry::Single(report.into()));\n    }\n\n    // we only keep the reports from match_keys that provided exactly 2 reports\n', replace='    let mut reports_by_matchkey: BTreeMap<u64, MatchEntry<BK, V>> = BTreeMap::new();\n\n    for report in reports {\n        match reports_by_matchkey.entry(report.match_key) {\n            Entry::Occupied(mut seen) => seen.get_mut().add_report(report.into()),\n            Entry::Vacant(slot) => {\n                slot.insert(MatchEntry::Single(report.into()));\n            }\n        }\n    }\n\n    // we only keep the reports from match_keys that provided exactly 2 reports\n')]),
    dict(prop="C01", name="pair-destructured-in-closure-head", benign=True,
         edits=[dict(file='ipa-core/src/protocol/hybrid/agg.rs', find='        return Ok(Vec::new());\n    }\n\n    let chunk_size =\n        non_zero_prev_power_of_two(TARGET_PROOF_SIZE / (BK::BITS as usize + V::BITS as usize));\n\n    let ctx = ctx.set_total_records(TotalRecords::specified(report_pairs.len())?);\n\n', replace='        return Ok(Vec::new());\n    }\n\n    let bits_per_pair = BK::BITS as usize + V::BITS as usize;\n    let chunk_size = non_zero_prev_power_of_two(TARGET_PROOF_SIZE / bits_per_pair);\n\n    let ctx = ctx.set_total_records(TotalRecords::specified(report_pairs.len())?);\n\n'), dict(file='ipa-core/src/protocol/hybrid/agg.rs', find='\n    let agg_work = stream::iter(report_pairs)\n        .enumerate()\n        .map(|(idx, reports)| {\n            let agg_ctx = agg_ctx.clone();\n            async move {\n                let (breakdown_key, _) = integer_add::<_, EightBitStep, 1>(\n                    agg_ctx.narrow(&AggregateReportsStep::AddBK),\n                    idx.into(),\n                    &reports[0].breakdown_key.to_bits(),\n                    &reports[1].breakdown_key.to_bits(),\n                )\n                .await?;\n                let (value, _) = integer_add::<_, EightBitStep, 1>(\n                    agg_ctx.narrow(&AggregateReportsStep::AddV),\n                    idx.into(),\n                    &reports[0].value.to_bits(),\n                    &reports[1].value.to_bits(),\n                )\n                .await?;\n                Ok::<_, Error>(AggregateableHybridReport::<BK, V> {\n', replace='\n    let agg_work = stream::iter(report_pairs)\n        .enumerate()\n        .map(|(idx, [first, second])| {\n            let agg_ctx = agg_ctx.clone();\n            async move {\n                let (breakdown_key, _) = integer_add::<_, EightBitStep, 1>(\n                    agg_ctx.narrow(&AggregateReportsStep::AddBK),\n                    idx.into(),\n                    &first.breakdown_key.to_bits(),\n                    &second.breakdown_key.to_bits(),\n                )\n                .await?;\n                let (value, _) = integer_add::<_, EightBitStep, 1>(\n                    agg_ctx.narrow(&AggregateReportsStep::AddV),\n                    idx.into(),\n                    &first.value.to_bits(),\n                    &second.value.to_bits(),\n                )\n                .await?;\n                Ok::<_, Error>(AggregateableHybridReport::<BK, V> {\n')]),
    dict(prop="C12", name="tail-sum-by-fold", benign=True,
         edits=[dict(file='ipa-core/src/protocol/ipa_prf/oprf_padding/insecure.rs', find='    // Computes the right hand side of equation (11) in https://arxiv.org/pdf/2110.08177.pdf\n    let r = E.powf(-epsilon);\n    let a = (1.0 - r) / (1.0 + r - 2.0 * (pow_u32(r, n + 1)));\n    let mut result = 0.0;\n    for k in n - big_delta + 1..=n {\n        result += pow_u32(r, k);\n    }\n    a * result\n}\nfn find_smallest_n(big_delta: u32, epsilon: f64, small_delta: f64) -> u32 {\n    // for a fixed set of DP parameters, finds the smallest n that satisfies equation (11)\n', replace='    // Computes the right hand side of equation (11) in https://arxiv.org/pdf/2110.08177.pdf\n    let r = E.powf(-epsilon);\n    let a = (1.0 - r) / (1.0 + r - 2.0 * (pow_u32(r, n + 1)));\n    // total (unnormalised) mass of the `big_delta` outermost values, summed from the inside out\n    let tail_mass = (n - big_delta + 1..=n).fold(0.0, |acc, k| acc + pow_u32(r, k));\n    a * tail_mass\n}\nfn find_smallest_n(big_delta: u32, epsilon: f64, small_delta: f64) -> u32 {\n    // for a fixed set of DP parameters, finds the smallest n that satisfies equation (11)\n')]),
    dict(prop="C12", name="truncation-search-by-find", benign=True,
         edits=[dict(file='ipa-core/src/protocol/ipa_prf/oprf_padding/insecure.rs', find='    // for a fixed set of DP parameters, finds the smallest n that satisfies equation (11)\n    // of https://arxiv.org/pdf/2110.08177.pdf.  This gives the narrowest TruncatedDoubleGeometric\n    // that will satisfy the desired DP parameters.\n    for n in big_delta.. {\n        if small_delta >= right_hand_side(n, big_delta, epsilon) {\n            return n;\n        }\n    }\n    panic!("No smallest n found for OPRF padding DP");\n}\n\nimpl OPRFPaddingDp {\n', replace='    // for a fixed set of DP parameters, finds the smallest n that satisfies equation (11)\n    // of https://arxiv.org/pdf/2110.08177.pdf.  This gives the narrowest TruncatedDoubleGeometric\n    // that will satisfy the desired DP parameters.\n    (big_delta..)\n        .find(|&n| small_delta >= right_hand_side(n, big_delta, epsilon))\n        .expect("No smallest n found for OPRF padding DP")\n}\n\nimpl OPRFPaddingDp {\n')]),
    dict(prop="C12", name="sampler-accept-by-try-from", benign=True,
         edits=[dict(file='ipa-core/src/protocol/ipa_prf/oprf_padding/distributions.rs', find='        // samples are truncated to be within [0, 2*shift]\n        loop {\n            let s = self.double_geometric.sample(rng);\n            if s >= 0 && s <= (self.shift_doubled).try_into().unwrap() {\n                return s.try_into().unwrap();\n            }\n        }\n    }\n', replace='        // samples are truncated to be within [0, 2*shift]\n        loop {\n            let s = self.double_geometric.sample(rng);\n            // negative draws do not convert and are rejected like the ones above 2*shift\n            match u32::try_from(s) {\n                Ok(v) if v <= self.shift_doubled => return v,\n                _ => {}\n            }\n        }\n    }\n')]),
    dict(prop="C07", name="bool-or-delegates-to-or", benign=True,
         edits=[dict(file='ipa-core/src/protocol/boolean/or.rs', find='\n    BitDecomposed::try_from(\n        ctx.parallel_join(zip(a.iter(), b).enumerate().map(|(i, (a, b))| {\n            let ctx = ctx.narrow(&S::from(i));\n            async move {\n                let ab = a.multiply(b, ctx, record_id).await?;\n                Ok::<_, Error>(-ab + a + b)\n            }\n        }))\n        .await?,\n    )\n', replace='\n    BitDecomposed::try_from(\n        ctx.parallel_join(zip(a.iter(), b).enumerate().map(|(i, (a, b))| {\n            // Each bit is an independent instance of the scalar OR protocol.\n            or::<Boolean, _, _>(ctx.narrow(&S::from(i)), record_id, a, b)\n        }))\n        .await?,\n    )\n')]),
    dict(prop="C05", name="split-row-and-tag-split-at", benign=True,
         edits=[dict(file='ipa-core/src/protocol/ipa_prf/shuffle/malicious.rs', find=') -> (S::Share, Gf32Bit) {\n    let mut buf = GenericArray::default();\n    row_with_tag.serialize(&mut buf);\n    (\n        S::Share::deserialize(GenericArray::from_slice(&buf.as_slice()[0..S::TAG_OFFSET]))\n            .unwrap_or(S::Share::ZERO),\n        Gf32Bit::deserialize(GenericArray::from_slice(&buf.as_slice()[S::TAG_OFFSET..]))\n            .unwrap_or(<Gf32Bit as SharedValue>::ZERO),\n    )\n}\n', replace=') -> (S::Share, Gf32Bit) {\n    let mut buf = GenericArray::default();\n    row_with_tag.serialize(&mut buf);\n    let (row_bytes, tag_bytes) = buf.as_slice().split_at(S::TAG_OFFSET);\n    (\n        S::Share::deserialize(GenericArray::from_slice(row_bytes)).unwrap_or(S::Share::ZERO),\n        Gf32Bit::deserialize(GenericArray::from_slice(tag_bytes))\n            .unwrap_or(<Gf32Bit as SharedValue>::ZERO),\n    )\n}\n')]),
    dict(prop="C05", name="tag-hash-map-then-fold", benign=True,
         edits=[dict(file='ipa-core/src/protocol/ipa_prf/shuffle/malicious.rs', find='    compute_possibly_empty_hash(iterator.map(|row_entry_iterator| {\n        row_entry_iterator\n            .zip(keys)\n            .fold(<Gf32Bit as SharedValue>::ZERO, |acc, (row_entry, key)| {\n                acc + row_entry * *key\n            })\n    }))\n}\n\n', replace='    compute_possibly_empty_hash(iterator.map(|row_entry_iterator| {\n        row_entry_iterator\n            .zip(keys)\n            .map(|(row_entry, key)| row_entry * *key)\n            .fold(<Gf32Bit as SharedValue>::ZERO, |acc, product| acc + product)\n    }))\n}\n\n')]),
]

# round B4 (C02, C03, C04, C06)
VARIANTS += [
    dict(prop="C05", name="reveal-keys-push-one", benign=True,
         edits=[dict(file='ipa-core/src/protocol/ipa_prf/shuffle/malicious.rs', find='    key_shares: &[AdditiveShare<Gf32Bit>],\n) -> Result<Vec<Gf32Bit>, Error> {\n    // reveal MAC keys\n    let keys = ctx\n        .parallel_join(key_shares.iter().enumerate().map(|(i, key)| async move {\n            // uses malicious_reveal directly since we malicious_shuffle always needs the malicious_revel\n            malicious_reveal(ctx.clone(), RecordId::from(i), None, key)\n                .await\n                .map(|v| Gf32Bit::from_array(&v.unwrap()))\n        }))\n        .await?\n        .into_iter()\n        // add a one, since last row element is tag which is not multiplied with a key\n        .chain(iter::once(Gf32Bit::ONE))\n        .collect::<Vec<_>>();\n\n    Ok(keys)\n}\n', replace='    key_shares: &[AdditiveShare<Gf32Bit>],\n) -> Result<Vec<Gf32Bit>, Error> {\n    // reveal MAC keys\n    let mut keys: Vec<Gf32Bit> = ctx\n        .parallel_join(\n            key_shares\n                .iter()\n                .enumerate()\n                .map(|(i, key_share)| async move {\n                    // uses malicious_reveal directly since we malicious_shuffle always needs the malicious_revel\n                    malicious_reveal(ctx.clone(), RecordId::from(i), None, key_share)\n                        .await\n                        .map(|revealed| {\n                            let array = revealed.expect("full reveal should always return a value");\n                            Gf32Bit::from_array(&array)\n                        })\n                }),\n        )\n        .await?;\n    // add a one, since last row element is tag which is not multiplied with a key\n    keys.push(Gf32Bit::ONE);\n\n    Ok(keys)\n}\n')]),
    dict(prop="C03", name="large-segment-get-mut", benign=True,
         edits=[dict(file='ipa-core/src/protocol/context/dzkp_validator.rs', find='        }\n\n        for i in 0..length_in_blocks {\n            if self.vec.len() > block_id + i {\n                MultiplicationInputsBlock::set(\n                    &mut self.vec[block_id + i],\n                    &segment.x_left.0[256 * i..256 * (i + 1)],\n                    &segment.x_right.0[256 * i..256 * (i + 1)],\n                    &segment.y_left.0[256 * i..256 * (i + 1)],\n', replace='        }\n\n        for i in 0..length_in_blocks {\n            // overwrite the block if it already exists, otherwise append a new one\n            if let Some(existing_block) = self.vec.get_mut(block_id + i) {\n                MultiplicationInputsBlock::set(\n                    existing_block,\n                    &segment.x_left.0[256 * i..256 * (i + 1)],\n                    &segment.x_right.0[256 * i..256 * (i + 1)],\n                    &segment.y_left.0[256 * i..256 * (i + 1)],\n')]),
    dict(prop="C03", name="challenges-by-shared-closure", benign=True,
         edits=[dict(file='ipa-core/src/protocol/ipa_prf/validation_protocol/validation.rs', find='        .await\n        .unwrap();\n\n        // From the perspective of the *prover_left*, _left_ is the other helper and _right_ is this verifier\n        let challenges_for_prover_left = other_hashes_prover_left\n            .hashes\n            .iter()\n            .zip(my_hashes_prover_left.hashes.iter())\n            .zip(once(exclude_large).chain(repeat(exclude_small)))\n            .map(|((hash_left, hash_right), exclude)| {\n                hash_to_field(hash_left, hash_right, exclude)\n            });\n\n        // From the perspective of the *prover_right*, _left_ is this helper and _right_ is the other verifier\n        let challenges_for_prover_right = my_hashes_prover_right\n            .hashes\n            .iter()\n            .zip(other_hashes_prover_right.hashes.iter())\n            .zip(once(exclude_large).chain(repeat(exclude_small)))\n            .map(|((hash_left, hash_right), exclude)| {\n                hash_to_field(hash_left, hash_right, exclude)\n            });\n\n        (\n            challenges_for_prover_left.collect(),\n            challenges_for_prover_right.collect(),\n        )\n    }\n\n', replace='        .await\n        .unwrap();\n\n        // one challenge per proof from the hashes of the verifiers left and right of a prover\n        let combine = |hashes_left: &[Hash], hashes_right: &[Hash]| -> Vec<Fp61BitPrime> {\n            hashes_left\n                .iter()\n                .zip(hashes_right.iter())\n                .zip(once(exclude_large).chain(repeat(exclude_small)))\n                .map(|((hash_left, hash_right), exclude)| {\n                    hash_to_field(hash_left, hash_right, exclude)\n                })\n                .collect()\n        };\n\n        (\n            // From the perspective of the *prover_left*, _left_ is the other helper and _right_ is this verifier\n            combine(&other_hashes_prover_left.hashes, &my_hashes_prover_left.hashes),\n            // From the perspective of the *prover_right*, _left_ is this helper and _right_ is the other verifier\n            combine(&my_hashes_prover_right.hashes, &other_hashes_prover_right.hashes),\n        )\n    }\n\n')]),
]

# round B5 (C08, C09, C11, C20)
VARIANTS += [
    dict(prop="C09", name="boolean-decode-three-arm-match", benign=True,
         edits=[dict(file='ipa-core/src/ff/boolean.rs', find='    }\n\n    fn deserialize(buf: &GenericArray<u8, Self::Size>) -> Result<Self, Self::DeserializationError> {\n        if buf[0] > 1 {\n            return Err(ParseBooleanError(buf[0]));\n        }\n        Ok(Boolean(buf[0] != 0))\n    }\n}\n\n', replace='    }\n\n    fn deserialize(buf: &GenericArray<u8, Self::Size>) -> Result<Self, Self::DeserializationError> {\n        match buf[0] {\n            0 => Ok(Boolean(false)),\n            1 => Ok(Boolean(true)),\n            other => Err(ParseBooleanError(other)),\n        }\n    }\n}\n\n')]),
    dict(prop="C09", name="rp25519-decode-match", benign=True,
         edits=[dict(file='ipa-core/src/ff/curve_points.rs', find='    }\n\n    fn deserialize(buf: &GenericArray<u8, Self::Size>) -> Result<Self, Self::DeserializationError> {\n        let point = CompressedRistretto((*buf).into());\n        let point = point.decompress().ok_or(NonCanonicalEncoding(point))?;\n        Ok(Self::from(point))\n    }\n}\n\n', replace='    }\n\n    fn deserialize(buf: &GenericArray<u8, Self::Size>) -> Result<Self, Self::DeserializationError> {\n        let compressed = CompressedRistretto((*buf).into());\n        match compressed.decompress() {\n            Some(point) => Ok(Self::from(point)),\n            None => Err(NonCanonicalEncoding(compressed)),\n        }\n    }\n}\n\n')]),
    dict(prop="C08", name="accumulate-with-for-each", benign=True,
         edits=[dict(file='ipa-core/src/ff/accumulator.rs', find='\n    #[inline]\n    fn multiply_accumulate(&mut self, lhs: &[F; N], rhs: &[F; N]) {\n        for i in 0..N {\n            self.value[i] += A::from(lhs[i].as_u128()) * A::from(rhs[i].as_u128());\n        }\n        self.count += 1;\n        if self.count == REDUCE_INTERVAL {\n            // Modulo, not really a truncation.\n', replace='\n    #[inline]\n    fn multiply_accumulate(&mut self, lhs: &[F; N], rhs: &[F; N]) {\n        self.value\n            .iter_mut()\n            .zip(lhs.iter().zip(rhs.iter()))\n            .for_each(|(acc, (l, r))| {\n                *acc += A::from(l.as_u128()) * A::from(r.as_u128());\n            });\n        self.count += 1;\n        if self.count == REDUCE_INTERVAL {\n            // Modulo, not really a truncation.\n')]),
    dict(prop="C20", name="auth-layer-is-some-early-return", benign=True,
         edits=[dict(file='ipa-core/src/net/server/handlers/query/mod.rs', find='    }\n\n    fn call(&mut self, req: Request<B>) -> Self::Future {\n        match req.extensions().get::<ClientIdentity<F::Identity>>() {\n            Some(ClientIdentity(_)) => self.inner.call(req).left_future(),\n            None => ready(Ok((\n                StatusCode::UNAUTHORIZED,\n                "This API requires the client helper to authenticate",\n            )\n                .into_response()))\n            .right_future(),\n        }\n    }\n}\n\n', replace='    }\n\n    fn call(&mut self, req: Request<B>) -> Self::Future {\n        let authenticated = req\n            .extensions()\n            .get::<ClientIdentity<F::Identity>>()\n            .is_some();\n        if !authenticated {\n            let rejection = (\n                StatusCode::UNAUTHORIZED,\n                "This API requires the client helper to authenticate",\n            )\n                .into_response();\n            return ready(Ok(rejection)).right_future();\n        }\n        self.inner.call(req).left_future()\n    }\n}\n\n')]),
    dict(prop="C20", name="plaintext-service-helper", benign=True,
         edits=[dict(file='ipa-core/src/net/server/mod.rs', find='\n        let task_handle = match (self.config.disable_https, listener) {\n            (true, Some(listener)) => {\n                let svc = svc\n                    .layer(layer_fn(SetClientIdentityFromHeader::<_, F>::new))\n                    .into_make_service();\n                spawn_server(\n                    runtime,\n                    axum_server::from_tcp(listener),\n', replace='\n        let task_handle = match (self.config.disable_https, listener) {\n            (true, Some(listener)) => {\n                let svc = plaintext_make_service::<F>(svc);\n                spawn_server(\n                    runtime,\n                    axum_server::from_tcp(listener),\n'), dict(file='ipa-core/src/net/server/mod.rs', find='            }\n            (true, None) => {\n                let addr = SocketAddr::new(BIND_ADDRESS.into(), self.config.port.unwrap_or(0));\n                let svc = svc\n                    .layer(layer_fn(SetClientIdentityFromHeader::<_, F>::new))\n                    .into_make_service();\n                spawn_server(runtime, axum_server::bind(addr), handle.clone(), svc).await\n            }\n            (false, Some(listener)) => {\n', replace='            }\n            (true, None) => {\n                let addr = SocketAddr::new(BIND_ADDRESS.into(), self.config.port.unwrap_or(0));\n                let svc = plaintext_make_service::<F>(svc);\n                spawn_server(runtime, axum_server::bind(addr), handle.clone(), svc).await\n            }\n            (false, Some(listener)) => {\n'), dict(file='ipa-core/src/net/server/mod.rs', find='    }\n}\n\n/// Spawns a new server with the given configuration.\n/// This function glues Tower, Axum, Hyper and Axum-Server together, hence the trait bounds.\n#[allow(clippy::unused_async)]\n', replace='    }\n}\n\n/// Wraps the router for serving over plain HTTP (TLS explicitly disabled), where the only available\n/// source of client identity is the identity header.\nfn plaintext_make_service<F: ConnectionFlavor>(router: Router) -> IntoMakeService<Router> {\n    router\n        .layer(layer_fn(SetClientIdentityFromHeader::<_, F>::new))\n        .into_make_service()\n}\n\n/// Spawns a new server with the given configuration.\n/// This function glues Tower, Axum, Hyper and Axum-Server together, hence the trait bounds.\n#[allow(clippy::unused_async)]\n')]),
    dict(prop="C11", name="check-duplicates-for-loop", benign=True,
         edits=[dict(file='ipa-core/src/report/hybrid.rs', find='    /// ## Errors\n    /// if the and item inserted is not unique among all in this batch and checked previously\n    pub fn check_duplicates<U: UniqueBytes>(&mut self, items: &[U]) -> Result<(), Error> {\n        items\n            .iter()\n            .try_for_each(|item| self.check_duplicate(item))?;\n        Ok(())\n    }\n}\n', replace='    /// ## Errors\n    /// if the and item inserted is not unique among all in this batch and checked previously\n    pub fn check_duplicates<U: UniqueBytes>(&mut self, items: &[U]) -> Result<(), Error> {\n        for item in items {\n            self.check_duplicate(item)?;\n        }\n        Ok(())\n    }\n}\n')]),
    dict(prop="C11", name="unique-bytes-try-from-prefix", benign=True,
         edits=[dict(file='ipa-core/src/report/hybrid.rs', find='    /// We use the `TagSize` (the first 16 bytes of the ciphertext) for collision-detection\n    /// See [analysis here for uniqueness](https://eprint.iacr.org/2019/624)\n    fn unique_bytes(&self) -> [u8; TAG_SIZE] {\n        let slice = &self.mk_ciphertext()[0..TAG_SIZE];\n        let mut array = [0u8; TAG_SIZE];\n        array.copy_from_slice(slice);\n        array\n    }\n}\n\n', replace='    /// We use the `TagSize` (the first 16 bytes of the ciphertext) for collision-detection\n    /// See [analysis here for uniqueness](https://eprint.iacr.org/2019/624)\n    fn unique_bytes(&self) -> [u8; TAG_SIZE] {\n        let tag_prefix = &self.mk_ciphertext()[..TAG_SIZE];\n        <[u8; TAG_SIZE]>::try_from(tag_prefix).expect("slice has exactly TAG_SIZE bytes")\n    }\n}\n\n')]),
    dict(prop="C10", name="unique-bytes-try-from-prefix-bounds", benign=True,
         edits=[dict(file='ipa-core/src/report/hybrid.rs', find='    /// We use the `TagSize` (the first 16 bytes of the ciphertext) for collision-detection\n    /// See [analysis here for uniqueness](https://eprint.iacr.org/2019/624)\n    fn unique_bytes(&self) -> [u8; TAG_SIZE] {\n        let slice = &self.mk_ciphertext()[0..TAG_SIZE];\n        let mut array = [0u8; TAG_SIZE];\n        array.copy_from_slice(slice);\n        array\n    }\n}\n\n', replace='    /// We use the `TagSize` (the first 16 bytes of the ciphertext) for collision-detection\n    /// See [analysis here for uniqueness](https://eprint.iacr.org/2019/624)\n    fn unique_bytes(&self) -> [u8; TAG_SIZE] {\n        let tag_prefix = &self.mk_ciphertext()[..TAG_SIZE];\n        <[u8; TAG_SIZE]>::try_from(tag_prefix).expect("slice has exactly TAG_SIZE bytes")\n    }\n}\n\n')]),
    dict(prop="C11", name="duplicate-check-wrapper", benign=True,
         edits=[dict(file='ipa-core/src/query/runner/hybrid.rs', find='        )\n        .await?;\n\n        let mut unique_encrypted_hybrid_reports = UniqueTagValidator::new(resharded_tags.len());\n        unique_encrypted_hybrid_reports.check_duplicates(&resharded_tags)?;\n\n        let indistinguishable_reports: Vec<IndistinguishableHybridReport<BA8, BA3>> =\n            decrypted_reports.into_iter().map(Into::into).collect();\n', replace='        )\n        .await?;\n\n        ensure_tags_unique(&resharded_tags)?;\n\n        let indistinguishable_reports: Vec<IndistinguishableHybridReport<BA8, BA3>> =\n            decrypted_reports.into_iter().map(Into::into).collect();\n'), dict(file='ipa-core/src/query/runner/hybrid.rs', find="    }\n}\n\npub async fn execute_hybrid_protocol<'a, R: PrivateKeyRegistry>(\n    prss: &'a Endpoint,\n    gateway: &'a Gateway,\n", replace="    }\n}\n\n/// Verifies that every tag this shard owns after resharding occurs exactly once.\n///\n/// ## Errors\n/// If two tags in `tags` carry the same bytes.\nfn ensure_tags_unique(tags: &[UniqueTag]) -> Result<(), Error> {\n    let mut validator = UniqueTagValidator::new(tags.len());\n    validator.check_duplicates(tags)\n}\n\npub async fn execute_hybrid_protocol<'a, R: PrivateKeyRegistry>(\n    prss: &'a Endpoint,\n    gateway: &'a Gateway,\n")]),
]

# round B6 (second pass: C14, C19, C12, C17)
VARIANTS += [
    dict(prop="C17", name="eof-finished-arm-bool-then", benign=True,
         edits=[dict(file='ipa-core/src/helpers/transport/stream/input.rs', find='            };\n\n            match this.buffer.extend(polled_item) {\n                ExtendResult::Finished if this.pending_len.is_some() => {\n                    return Poll::Ready(Some(Err(io::Error::new(\n                        io::ErrorKind::WriteZero,\n                        format!(\n                            "stream terminated with {} extra bytes",\n                            <Length as Serializable>::Size::USIZE\n                        ),\n                    ))));\n                }\n                ExtendResult::Finished => return Poll::Ready(None),\n                ExtendResult::Error(err) => return Poll::Ready(Some(Err(err))),\n                ExtendResult::Ok if available_len == 0 => {\n                    available_len = this.buffer.contiguous_len();\n                    items.reserve(1 + available_len / ESTIMATED_AVERAGE_REPORT_SIZE);\n                }\n                ExtendResult::Ok => (),\n            }\n        }\n    }\n', replace='            };\n\n            match this.buffer.extend(polled_item) {\n                ExtendResult::Finished => {\n                    // A length prefix without its payload is trailing partial data.\n                    let dangling_header = this.pending_len.is_some();\n                    return Poll::Ready(dangling_header.then(|| {\n                        Err(io::Error::new(\n                            io::ErrorKind::WriteZero,\n                            format!(\n                                "stream terminated with {} extra bytes",\n                                <Length as Serializable>::Size::USIZE\n                            ),\n                        ))\n                    }));\n                }\n                ExtendResult::Error(err) => return Poll::Ready(Some(Err(err))),\n                ExtendResult::Ok => {\n                    if available_len == 0 {\n                        available_len = this.buffer.contiguous_len();\n                        items.reserve(1 + available_len / ESTIMATED_AVERAGE_REPORT_SIZE);\n                    }\n                }\n            }\n        }\n    }\n')]),
    dict(prop="C17", name="parse-error-outcome-if-else", benign=True,
         edits=[dict(file='ipa-core/src/helpers/transport/stream/input.rs', find='                        // probably need `type Item = Result<Vec<Result<T, ?>>, io::Error>`, and we\n                        // need to flush (rather than discard) pending `items` from before the\n                        // error.\n                        Err(err) => {\n                            let err = io::Error::new(io::ErrorKind::InvalidData, err);\n                            if items.is_empty() {\n                                return Poll::Ready(Some(Err(err)));\n                            }\n                            *this.pending_err = Some(err);\n                            return Poll::Ready(Some(Ok(items)));\n                        }\n                    }\n                }\n', replace='                        // probably need `type Item = Result<Vec<Result<T, ?>>, io::Error>`, and we\n                        // need to flush (rather than discard) pending `items` from before the\n                        // error.\n                        Err(parse_err) => {\n                            let invalid = io::Error::new(io::ErrorKind::InvalidData, parse_err);\n                            // A deferred error is always handed out at the top of `poll_next`\n                            // before anything else is parsed, so the slot is free here.\n                            debug_assert!(\n                                this.pending_err.is_none(),\n                                "a deferred parse error must be reported before parsing resumes"\n                            );\n                            let outcome = if items.is_empty() {\n                                Err(invalid)\n                            } else {\n                                *this.pending_err = Some(invalid);\n                                Ok(items)\n                            };\n                            return Poll::Ready(Some(outcome));\n                        }\n                    }\n                }\n')]),
    dict(prop="C17", name="readers-question-mark-some", benign=True,
         edits=[dict(file='ipa-core/src/helpers/transport/stream/input.rs', find='        &mut self,\n        count: usize,\n    ) -> Option<Result<Vec<T>, T::DeserializationError>> {\n        self.read_bytes(count * T::Size::USIZE).map(|bytes| {\n            bytes\n                .chunks(T::Size::USIZE)\n                .map(|bytes| T::deserialize(GenericArray::from_slice(bytes)))\n                .collect::<Result<_, _>>()\n        })\n    }\n\n    /// Deserialize a single instance of `T` from the buffer with the guarantee that deserialization\n', replace='        &mut self,\n        count: usize,\n    ) -> Option<Result<Vec<T>, T::DeserializationError>> {\n        let record_size = T::Size::USIZE;\n        let raw = self.read_bytes(count * record_size)?;\n        let records = raw\n            .chunks(record_size)\n            .map(|record| T::deserialize(GenericArray::from_slice(record)))\n            .collect::<Result<_, _>>();\n        Some(records)\n    }\n\n    /// Deserialize a single instance of `T` from the buffer with the guarantee that deserialization\n'), dict(file='ipa-core/src/helpers/transport/stream/input.rs', find='    ///\n    /// Returns `None` if there is insufficient data available, and an error if deserialization fails.\n    fn try_read<T: Serializable>(&mut self) -> Option<Result<T, T::DeserializationError>> {\n        self.read_bytes(T::Size::USIZE)\n            .map(|bytes| T::deserialize(GenericArray::from_slice(&bytes)))\n    }\n\n    /// Update the buffer with the result of polling a stream.\n', replace='    ///\n    /// Returns `None` if there is insufficient data available, and an error if deserialization fails.\n    fn try_read<T: Serializable>(&mut self) -> Option<Result<T, T::DeserializationError>> {\n        let raw = self.read_bytes(T::Size::USIZE)?;\n        Some(T::deserialize(GenericArray::from_slice(&raw)))\n    }\n\n    /// Update the buffer with the result of polling a stream.\n')]),
    dict(prop="C17", name="buffered-stream-cmp-match", benign=True,
         edits=[dict(file='ipa-core/src/helpers/transport/stream/buffered.rs', find='use std::{\n    mem,\n    num::NonZeroUsize,\n    pin::Pin,\n', replace='use std::{\n    cmp::Ordering,\n    mem,\n    num::NonZeroUsize,\n    pin::Pin,\n'), dict(file='ipa-core/src/helpers/transport/stream/buffered.rs', find='        }\n\n        let mut this = self.as_mut().project();\n        loop {\n            // If we are at capacity, return what we have\n            if this.buffer.len() >= *this.sz {\n                // if we have more than we need in the buffer, split it\n                // otherwise, return the whole buffer to the reader\n                let next = if this.buffer.len() > *this.sz {\n                    this.buffer.drain(..*this.sz).collect()\n                } else {\n                    take_next(this.buffer)\n                };\n                break Poll::Ready(Some(Ok(Bytes::from(next))));\n            }\n\n', replace='        }\n\n        let mut this = self.as_mut().project();\n        let sz = *this.sz;\n        loop {\n            // If we are at capacity, return what we have:\n            // if we have more than we need in the buffer, split it\n            // otherwise, return the whole buffer to the reader\n            let next: Option<Vec<u8>> = match this.buffer.len().cmp(&sz) {\n                Ordering::Greater => Some(this.buffer.drain(..sz).collect()),\n                Ordering::Equal => Some(take_next(this.buffer)),\n                Ordering::Less => None,\n            };\n            if let Some(next) = next {\n                break Poll::Ready(Some(Ok(Bytes::from(next))));\n            }\n\n')]),
    dict(prop="C19", name="close-loop-over-iter", benign=True,
         edits=[dict(file='ipa-core/src/protocol/context/mod.rs', find='                        Ok(Some(((my_shard, None), (input, send_channels, i))))\n                    }\n                } else {\n                    for (last_record, send_channel) in send_channels.values() {\n                        send_channel.close(*last_record).await;\n                    }\n                    Ok(None)\n', replace='                        Ok(Some(((my_shard, None), (input, send_channels, i))))\n                    }\n                } else {\n                    for (dest_shard, (last_record, send_channel)) in send_channels.iter() {\n                        tracing::trace!(\n                            "resharding: closing send channel to {dest_shard:?} at {last_record:?}"\n                        );\n                        send_channel.close(*last_record).await;\n                    }\n                    Ok(None)\n')]),
    dict(prop="C19", name="size-hint-guard-hoisted-record-id", benign=True,
         edits=[dict(file='ipa-core/src/protocol/context/mod.rs', find='                // Process more data as it comes in, or close the sending channels, if there is nothing\n                // left.\n                if let Some(val) = input.try_next().await? {\n                    if usize::try_from(*i).unwrap() >= input_len {\n                        return Err(crate::error::Error::RecordIdOutOfRange {\n                            record_id: RecordId::from(*i),\n                            total_records: input_len,\n                        });\n                    }\n\n                    let dest_shard = shard_picker(ctx, RecordId::from(*i), &val);\n                    *i += 1;\n                    if dest_shard == my_shard {\n                        Ok(Some(((my_shard, Some(val)), (input, send_channels, i))))\n', replace='                // Process more data as it comes in, or close the sending channels, if there is nothing\n                // left.\n                if let Some(val) = input.try_next().await? {\n                    let input_record_id = RecordId::from(*i);\n                    if usize::from(input_record_id) >= input_len {\n                        return Err(crate::error::Error::RecordIdOutOfRange {\n                            record_id: input_record_id,\n                            total_records: input_len,\n                        });\n                    }\n\n                    let dest_shard = shard_picker(ctx, input_record_id, &val);\n                    *i += 1;\n                    if dest_shard == my_shard {\n                        Ok(Some(((my_shard, Some(val)), (input, send_channels, i))))\n')]),
    dict(prop="C01", name="prf-report-built-in-inner-closure", benign=True,
         edits=[dict(file='ipa-core/src/protocol/hybrid/oprf.rs', find='\n    let report_stream = prf_of_match_keys\n        .zip(stream::iter(input_rows))\n        // map from (Result<X>, T) to Result<(X, T)>\n        .map(|(mk, input)| mk.map(|mk| (mk, input)))\n        .map_ok(|(prf_of_match_key, input)| PrfHybridReport {\n            match_key: prf_of_match_key,\n            value: input.value,\n            breakdown_key: input.breakdown_key,\n        });\n\n    // reshard reports based on OPRF values. This ensures at the end of this function\n', replace='\n    let report_stream = prf_of_match_keys\n        .zip(stream::iter(input_rows))\n        // map from (Result<X>, T) to Result<PrfHybridReport>\n        .map(|(mk, input)| {\n            mk.map(|prf_of_match_key| PrfHybridReport {\n                match_key: prf_of_match_key,\n                value: input.value,\n                breakdown_key: input.breakdown_key,\n            })\n        });\n\n    // reshard reports based on OPRF values. This ensures at the end of this function\n')]),
    dict(prop="C12", name="oprf-padding-flat-map", benign=True,
         edits=[dict(file='ipa-core/src/protocol/ipa_prf/oprf_padding/mod.rs', find='pub mod insecure;\npub mod step;\n\nuse std::iter::repeat_with;\n\n#[cfg(any(test, feature = "test-fixture", feature = "cli"))]\npub use insecure::DiscreteDp as InsecureDiscreteDp;\nuse rand::Rng;\n', replace='pub mod insecure;\npub mod step;\n\n#[cfg(any(test, feature = "test-fixture", feature = "cli"))]\npub use insecure::DiscreteDp as InsecureDiscreteDp;\nuse rand::Rng;\n'), dict(file='ipa-core/src/protocol/ipa_prf/oprf_padding/mod.rs', find='                    total_number_of_fake_rows += sample * cardinality;\n\n                    padding_input_rows.extend(\n                        repeat_with(|| {\n                            let dummy_mk: BA64 = rng.r#gen();\n                            std::iter::repeat_n(\n                                IndistinguishableHybridReport::from(\n', replace='                    total_number_of_fake_rows += sample * cardinality;\n\n                    padding_input_rows.extend(\n                        // this means there will be `sample` many unique\n                        // matchkeys to add each with cardinality = `cardinality`\n                        (0..sample).flat_map(|_| {\n                            let dummy_mk: BA64 = rng.r#gen();\n                            std::iter::repeat_n(\n                                IndistinguishableHybridReport::from(\n'), dict(file='ipa-core/src/protocol/ipa_prf/oprf_padding/mod.rs', find='                                ),\n                                cardinality as usize,\n                            )\n                        })\n                        // this means there will be `sample` many unique\n                        // matchkeys to add each with cardinality = `cardinality`\n                        .take(sample as usize)\n                        .flatten(),\n                    );\n                }\n            }\n', replace='                                ),\n                                cardinality as usize,\n                            )\n                        }),\n                    );\n                }\n            }\n')]),
    dict(prop="C12", name="excluded-helper-replicated-zero", benign=True,
         edits=[dict(file='ipa-core/src/protocol/dp/mod.rs', find='            };\n            let shifted_truncated_discrete_laplace =\n                ShiftedTruncatedDiscreteLaplace::new(noise_params, OV::BITS)?;\n            std::array::from_fn(|_i| {\n                shifted_truncated_discrete_laplace.sample_shares(rng, direction_to_excluded_helper)\n            })\n        } else {\n            //  before we can do integer_add we need the excluded Helper to set its shares to zero\n            // for these noise values.\n            std::array::from_fn(|_i| Replicated::new(OV::ZERO, OV::ZERO))\n        };\n\n    let noise_shares_vectorized: BitDecomposed<Replicated<Boolean, B>> =\n', replace='            };\n            let shifted_truncated_discrete_laplace =\n                ShiftedTruncatedDiscreteLaplace::new(noise_params, OV::BITS)?;\n            // one independent draw per histogram bin, in bin order\n            std::array::from_fn(|_| {\n                shifted_truncated_discrete_laplace.sample_shares(rng, direction_to_excluded_helper)\n            })\n        } else {\n            //  before we can do integer_add we need the excluded Helper to set its shares to zero\n            // for these noise values.\n            std::array::from_fn(|_| Replicated::<OV>::ZERO)\n        };\n\n    let noise_shares_vectorized: BitDecomposed<Replicated<Boolean, B>> =\n')]),
    dict(prop="C14", name="take-head-tail-binding", benign=True,
         edits=[dict(file='ipa-core/src/helpers/buffers/circular.rs', find='        let delta = std::cmp::min(self.read_size, self.len());\n\n        let mut ret = Vec::with_capacity(delta);\n        let range = self.range(self.read, delta);\n\n        // If the read range wraps around, we need to split it\n        if range.end() < range.start() {\n            ret.extend_from_slice(&self.data[*range.start()..]);\n            ret.extend_from_slice(&self.data[..=*range.end()]);\n        } else {\n            ret.extend_from_slice(&self.data[range]);\n        }\n\n        self.read = self.inc(self.read, delta);\n', replace='        let delta = std::cmp::min(self.read_size, self.len());\n\n        let mut ret = Vec::with_capacity(delta);\n        let (start, end) = self.range(self.read, delta).into_inner();\n\n        // If the read range wraps around, we need to split it\n        if end < start {\n            let (head, tail) = (&self.data[start..], &self.data[..=end]);\n            ret.extend_from_slice(head);\n            ret.extend_from_slice(tail);\n        } else {\n            ret.extend_from_slice(&self.data[start..=end]);\n        }\n\n        self.read = self.inc(self.read, delta);\n')]),
    dict(prop="C14", name="spare-extend-split-at", benign=True,
         edits=[dict(file='ipa-core/src/helpers/buffers/unordered_receiver.rs', find='            let needed = sz - remainder;\n            let mut tmp = GenericArray::<u8, M::Size>::default();\n            tmp[..remainder].copy_from_slice(&self.buf[self.offset..]);\n            tmp[remainder..].copy_from_slice(&v[..needed]);\n            self.replace(&v[needed..]);\n            M::deserialize(&tmp)\n        } else {\n            self.replace(&v[sz..]);\n            M::deserialize(GenericArray::from_slice(&v[..sz]))\n        };\n        Some(m)\n    }\n', replace='            let needed = sz - remainder;\n            let mut tmp = GenericArray::<u8, M::Size>::default();\n            tmp[..remainder].copy_from_slice(&self.buf[self.offset..]);\n            let (head, rest) = v.split_at(needed);\n            tmp[remainder..].copy_from_slice(head);\n            self.replace(rest);\n            M::deserialize(&tmp)\n        } else {\n            // The message is entirely within the new chunk; keep what follows it.\n            let (head, rest) = v.split_at(sz);\n            self.replace(rest);\n            M::deserialize(GenericArray::from_slice(head))\n        };\n        Some(m)\n    }\n')]),
]

# rules shared between properties: the same edit must be reported under the other property too
VARIANTS += [dict(v, prop="C05", name=v["name"] + "@C05") for v in VARIANTS
             if v["name"] in ("h1-shuffle-empty-shard-leaves", "sharded-shuffle-empty-shard-leaves", "reshard-closes-channels-on-input-error", "reshard-closes-before-matching-none")]
VARIANTS += [dict(v, prop="C13", name=v["name"] + "@C13") for v in VARIANTS
             if v["name"] in ("overflow-refreshes-last-entry", "overflow-drain-skipped-when-slot-empty", "overflow-drain-every-step")]
