#!/usr/bin/env python3
"""Writes /tmp/seedwork/prompt-<id>.txt for every property: the brief given to an independent sub-agent that is
asked to break the property in its own scratch worktree (it gets the property text only, nothing from /verif)."""
import json, os
T = open(os.path.join(os.path.dirname(os.path.abspath(__file__)), "seed_prompt_template.txt")).read()
os.makedirs("/tmp/seedwork", exist_ok=True)
for l in open(os.path.join(os.path.dirname(os.path.dirname(os.path.abspath(__file__))), "properties.jsonl")):
    p = json.loads(l)
    open(f"/tmp/seedwork/prompt-{p['id']}.txt", "w").write(T.format(wt=f"/tmp/wt-{p['id']}", out=f"/tmp/seed-{p['id']}", title=p["title"], stmt=p["statement"], quant=p["quantifier"]["text"]))
print("prompts written to /tmp/seedwork")
