#!/usr/bin/env python3
"""Writes /tmp/seedwork/prompt-<id>.txt for every property: the brief given to an independent sub-agent that is
asked to break the property in its own scratch worktree.  It gets the property text and - to avoid duplicates - a plain
list of the changes earlier participants already produced for that property (their own words, no information about
the checks in /verif)."""
import glob, json, os
HERE = os.path.dirname(os.path.dirname(os.path.abspath(__file__)))
T = open(os.path.join(HERE, "tools", "seed_prompt_template.txt")).read()
os.makedirs("/tmp/seedwork", exist_ok=True)
prior = {}
for m in sorted(glob.glob(os.path.join(HERE, "seeded", "C*-*", "meta.json"))):
    d = json.load(open(m))
    prior.setdefault(d["property"], []).append(d["change"])
# the MAC-coefficient change was produced for C02 and C04 alike
for a, b in (("C02", "C04"), ("C04", "C02")):
    for c in prior.get(a, []):
        if "coefficient" in c and c not in prior.setdefault(b, []):
            prior[b].append(c)
for l in open(os.path.join(HERE, "properties.jsonl")):
    p = json.loads(l)
    txt = T.format(wt=f"/tmp/wt-{p['id']}", out=f"/tmp/seed-{p['id']}", title=p["title"], stmt=p["statement"], quant=p["quantifier"]["text"])
    if prior.get(p["id"]):
        extra = "Changes that other participants ALREADY produced for this property - do not repeat them or close variants of them, pick a different mechanism:\n" + "".join(f"  - {c}\n" for c in prior[p["id"]]) + "\n"
        txt = txt.replace("Also write a demonstration:", extra + "Also write a demonstration:", 1)
    open(f"/tmp/seedwork/prompt-{p['id']}.txt", "w").write(txt)
print("prompts written to /tmp/seedwork")
