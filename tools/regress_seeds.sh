#!/bin/bash
# dev aid: re-runs every recorded seed (seeded/<id>/patch.diff) through the rules on a scratch copy; each line must show new_violations >= 1
cd /verif
for d in seeded/C*-*; do
  id=$(basename $d); prop=${id%%-*}
  [ -f $d/patch.diff ] || continue
  cfgs=""
  [ "$id" = "C14-4" ] && cfgs="N"
  [ "$id" = "C08-6" ] && cfgs="X"
  [ "$prop" = "C15" ] && cfgs="Q M"
  out=$(VERIF_CFGS="$cfgs" python3 tools/try_seed_scratch.py $d/patch.diff $prop 2>&1)
  n=$(echo "$out" | grep -o "new_violations=[0-9]*" | cut -d= -f2 | sort -n | tail -1)
  if echo "$out" | grep -q "does not compile\|Traceback\|error"; then echo "$id PROBLEM: $(echo "$out" | tail -2 | cut -c1-200)"; else echo "$id new_violations=$n"; fi
done
