#!/usr/bin/env python3
"""Development aid: print the MIR facts of bodies whose path matches a regex.
usage: tools/mirdump.py [-c CFG] [-n] REGEX   (-n: no locals; matches body path)"""
import sys, os, re, json
sys.path.insert(0, os.path.dirname(os.path.dirname(os.path.abspath(__file__))))
from vlib import extract, facts
cfg = "Q"; args = sys.argv[1:]; loc = True
while args and args[0].startswith("-"):
    if args[0] == "-c": cfg = args[1]; args = args[2:]
    elif args[0] == "-n": loc = False; args = args[1:]
path, _, _ = extract.ensure_facts(cfg)
rx = re.compile(args[0])
for line in open(path):
    if not line.startswith('{"rec":"body"'): continue
    m = re.match(r'\{"rec":"body","b":\{"path":"([^"]*)"', line)
    if m and rx.search(m.group(1)):
        facts.dump_body(facts.Body(json.loads(line)["b"]), with_locals=loc)
