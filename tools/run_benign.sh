#!/bin/bash
# dev aid: runs the eight patches of /tmp/benign-PROP through the rules of the listed properties; every line printed is a false alarm
# usage: tools/run_benign.sh PROP "PROPS to check"
P=$1; shift
cd /verif
for k in 1 2 3 4 5 6 7 8; do
  f=/tmp/benign-$P/patch-$k.diff
  [ -f $f ] || continue
  echo "== $P patch-$k"
  python3 tools/try_seed_scratch.py $f "$@" 2>&1 | grep -v "^\[extract\|new_violations=0"
done
