#!/usr/bin/env python3
"""Applies a patch to a scratch copy of /repo (never touches /repo) and runs the rules of the given properties on it:
   tools/try_seed_scratch.py <patch.diff> PROP..."""
import importlib, os, shutil, subprocess, sys, tempfile
HERE = os.path.dirname(os.path.dirname(os.path.abspath(__file__)))
sys.path.insert(0, HERE)
from vlib import core, extract
patch, props = os.path.abspath(sys.argv[1]), sys.argv[2:]
scratch = tempfile.mkdtemp(prefix="ipa-verif-seed-")
try:
    subprocess.check_call(["rsync", "-a", "--exclude", "target", "--exclude", ".git", extract.REPO + "/", scratch + "/"])
    subprocess.check_call(["patch", "-p1", "-s", "-d", scratch, "-i", patch])
    known = {k["key"] for k in core.load_known().get("findings", []) if k.get("status") == "open"}
    for prop in props:
        mod = importlib.import_module("rules." + prop)
        for cfg in (os.environ.get("VERIF_CFGS", "").split() or getattr(mod, "CONFIGS_QUICK", ["Q"])):
            ctx = core.Ctx(prop, "quick", repo=scratch)
            ctx.cfg = cfg
            try:
                mod.run(ctx)
            except extract.ExtractError as e:
                print(f"[{prop}/{cfg}] does not compile: {str(e)[-300:]}")
                continue
            bad = [o for o in ctx.obs if not o.ok and o.key(prop) not in known]
            print(f"[{prop}/{cfg}] obligations={len(ctx.obs)} new_violations={len(bad)}")
            for o in bad:
                print(f"   [{o.rule}] {o.instance}: {o.detail[:260]}")
finally:
    shutil.rmtree(scratch, ignore_errors=True)
