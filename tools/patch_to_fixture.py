#!/usr/bin/env python3
"""dev aid: turns a unified diff into a fixtures/variants.py entry (one edit per hunk: context + removed lines -> context + added lines)
   tools/patch_to_fixture.py PROP NAME patch.diff [--benign | --expect RULE,substr] [--cfg N]  >> (prints the dict)"""
import re, sys
prop, name, patch = sys.argv[1:4]
benign = "--benign" in sys.argv
expect = sys.argv[sys.argv.index("--expect") + 1].split(",") if "--expect" in sys.argv else None
cfg = sys.argv[sys.argv.index("--cfg") + 1] if "--cfg" in sys.argv else None
edits, cur, old, new = [], None, [], []
def flush():
    global old, new
    if cur and (old or new):
        edits.append((cur, "".join(old), "".join(new)))
    old, new = [], []
for line in open(patch):
    if line.startswith("diff --git") or line.startswith("index ") or line.startswith("--- "):
        continue
    if line.startswith("+++ "):
        flush()
        cur = re.sub(r"^b/", "", line[4:].strip())
        continue
    if line.startswith("@@"):
        flush()
        continue
    if line.startswith("\\"):
        continue
    if line.startswith("-"):
        old.append(line[1:])
    elif line.startswith("+"):
        new.append(line[1:])
    else:
        old.append(line[1:]); new.append(line[1:])
flush()
for f, a, b in edits:
    src = open("/repo/" + f).read() if a else ""
    assert not a or src.count(a) == 1, (f, src.count(a), a[:80])
e = ", ".join(f"dict(file={f!r}, find={a!r}, replace={b!r})" for f, a, b in edits if a)
newfiles = [(f, b) for f, a, b in edits if not a]
assert not newfiles, "patch creates files: not representable as a fixture"
head = f'    dict(prop="{prop}", name="{name}", ' + (f'cfg="{cfg}", ' if cfg else "") + ("benign=True," if benign else f"expect={expect!r},")
print(head + "\n         edits=[" + e + "]),")
