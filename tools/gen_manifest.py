#!/usr/bin/env python3
"""Regenerates /verif/MANIFEST.json from the table below (one place to edit)."""
import json, os, sys
HERE = os.path.dirname(os.path.dirname(os.path.abspath(__file__)))

TRUST = ("Trusted base: rustc nightly front end (type check, MIR construction, const evaluation) and the "
         "/verif rule engine. Rules are necessary conditions of the property decided from the code shape on every path; "
         "the behavioural remainder named in DESIGN.md §3 is not claimed. Third-party crates are trusted.")

CLAIMED = {
    "C08": dict(
        technique="static analysis: number-theoretic certificates on compiler-evaluated constants + interval abstract interpretation of MIR (type invariant value<PRIME at every constructor site) + operator census on padded bit arrays + who-may-call census of the inversion routines",
        text="Every PrimeField modulus is certified prime and every GaloisField polynomial irreducible of degree BITS (so the types are fields), the value<PRIME representation invariant is proved inductive over every constructor site of each prime-field newtype for all inputs (incl. 0, p-1, u128::MAX), no arithmetic in those bodies can overflow, padded bit arrays keep padding clean under Not, accumulator interval and DZKP constants are checked; multiplicative inverses are taken only by a frozen set of users whose argument is a non-zero constant or for which zero is refused (no derived helper divides by something an input can make vanish, e.g. a Lagrange row at an input point); in the build with the pclmulqdq target feature (extraction configuration X) the lanes of the hardware carry-less product are widened without sign extension. Field axioms then follow from modular arithmetic on canonical representatives (argument, not machine-checked).",
        ref="§3 C08"),
}

CLAIMED["C18"] = dict(
    technique="static analysis: variant-set dataflow over MIR (finite evaluation of the transition / status / min_status match tables over all discriminant tuples), who-may-write census and forward-transition classification of every write to the query-state map, avoid-reachability (removed => re-inserted), dominator ordering of the RAII guard",
    text="The transition relation is evaluated over all 36 variant pairs and accepted only when strictly forward; every insert into the map of running queries is a transition() result, an identity re-insert or a forward (from<to) replacement with `from` refined per path; every removal re-inserts on all paths except the designated forgetting ones; the new_query cleanup guard covers every fallible step; min_status is the meet for all 25 pairs and the leader folds it over every differing shard (carried accumulator); both request handlers route each RouteId to exactly its own Processor operation. Decides the store/transition discipline, not the absence of panics over arbitrary histories.",
    ref="§3 C18")

CLAIMED["C20"] = dict(
    technique="static analysis: abstract evaluation of the axum router builders (route/merge/nest/layer census over resolved callees), variant-set dataflow for the guard polarity of the authentication layer, who-may-construct census for the identity type, dominator check of TLS vs plain-HTTP arms",
    text="Every route reachable through the helper-to-helper and shard-to-shard routers is shown to be wrapped by the authentication layer (a route merged after .layer() is reported), the layer forwards only on the Some edge of the ClientIdentity lookup and answers 401 otherwise, collector routes carry no such layer, identities are created only from the certificate (or from the header on the disable_https arms), and no handler reads headers itself. Decides the wiring; axum/tower/rustls are trusted.",
    ref="§3 C20")

CLAIMED["C14"] = dict(
    technique="static analysis: may-reachability over MIR CFGs (Poll::Pending without a registered waker), finite evaluation of the extracted ring-buffer index expressions (helper calls inlined) against the modular reference, avoid-reachability pairing of state changes with wake calls, control-dependence and finite evaluation of the overflow-drain cadence, guard-polarity dominance checks, who-may-write census of cursor fields with expression-shape extraction",
    text="For every poll function of the send/receive buffers: Pending is never returned on a path that did not register the waker (lost wake-up), each side parks in and wakes the right waker slot, every buffer state change that can unblock the other side reaches the corresponding wake on all paths (can_write sampled before take, close wakes the reader, a completed write wakes index i+1, a consumed message calls wake_next), next_op returns Pending only if the waker was accepted and advances `next` only after a ready operation, and the cursors/woken_at are written only by their owner operation with the documented wrap/max expressions; the ring arithmetic of the send buffer (len, remaining, inc, range, mask, wrap), evaluated from the extracted expressions for every capacity up to 10 and every cursor pair, equals the modular reference, take()/write() move exactly the bytes they advance over and split a wrapped read correctly; the sender's waker shards stay sorted and add/wake agree on the shard; the receiver's waker ring is used exactly for the records of its window, one slot each; a request further ahead than the window keeps its own entry on the overflow list (append, or refresh of the entry with the same index; both feature siblings), the list is drained at cursor positions that depend on the cursor and ring size only and meet every window, and a drain wakes every entry; the receive side's message reassembly slices every byte exactly once. Decides waker and cursor discipline, not byte-exact queue equivalence or deadlock freedom over all schedules.",
    ref="§3 C14")

CLAIMED["C15"] = dict(
    technique="static analysis: method whitelist (who-may-call) on the active deque, dominator-based guard polarity, loop-shape and poll-the-rest pairing over the MIR CFG, WAKE-1 may-analysis with one reasoned infeasible-path exception whose premises are checked",
    text="Output order equals input order because the active window is only ever used as a FIFO (push_back/pop_front) and the head is popped only when its own check_ready is true; while the head is pending every other active item is polled before Pending is returned; the refill loop keeps exactly `capacity` items in flight and pushes the item it polled, and that capacity is the constructor's `active` parameter itself (not a smaller number derived from a size hint or a cap); Pending is never returned without a registered waker (one frozen exception: empty window and source not done, justified by NonZero capacity and checked); validated_seq_join chains validate_record(own index) to every item and keeps the validator alive; parallel_join is try_join_all (single-threaded build) or, in the spawner build, awaits one task result at a time and returns an error as soon as the result carrying it arrives (no further suspension point in between), pushing Ok values in arrival order. Decides queue discipline, not liveness over completion orders.",
    ref="§3 C15")

CLAIMED["C16"] = dict(
    technique="static analysis: signature/ownership facts from the type-checked program, dominator-based guard polarity with expression-shape extraction (readiness test, total_count formula), who-may-write census of pending_count, ordering of batch removal, verdict dataflow in both arms of the returned future",
    text="Ready::Yes is constructed only when pending_count == min(records_per_batch, total - first_record_in_batch), after the batch left the deque, and owns the batch (FnOnce validator => validated at most once); the validating caller publishes result.is_ok() of the settled validation on the batch's own channel and returns that result; waiters read the verdict only after changed() settled and return Ok only if it is true; misuse paths (record twice, offset beyond batch, batch already validated, record past total) diverge or return an error before any state update; the batch a record is filed under, its position in it and the batch's release threshold, evaluated from the extracted expressions on a grid of (batch size, first batch, total, record), equal r div b, r mod b and min(b, T - (r div b) b); every batch created in one call gets its own verdict channel. Decides wiring and guards, not interleavings of concurrent callers.",
    ref="§3 C16")

CLAIMED["C02"] = dict(
    technique="static analysis: acquire/release pairing (validator created => validated) over async MIR CFGs with await settlement points and `?` edges, call-graph summary (ValidatesRecord), dominator ordering of validation vs. every opening of secret data, verdict-guard polarity (no Ok reachable from a mismatch edge)",
    text="Decides that the malicious-security checks cannot be skipped: every DZKP/MAC validator created in protocol code is validated on every success path (or moved into validated_seq_join / a per-record validating callee); every opening of secret data is ordered after the validation covering it or is a table-listed part of a check; shuffled rows are released only after verify_shuffle succeeded on the same table; each check's comparison gates success (hash comparisons, two-copy reveal equality, MAC T=u-wr zero test, padding-count equality, DZKP zero differences). Does not decide the cryptographic soundness of those checks nor the end-to-end 'accepted => correct' behaviour.",
    ref="§3 C02")

CLAIMED["C04"] = dict(
    technique="static analysis: guard polarity via dominators on the two-copy comparison in malicious_reveal, validate-before-reveal ordering with await settlement points, def-use wiring of the duplicate multiplication / MAC accumulation (expression-tree extraction from MIR), affine-form extraction of validator record ids",
    text="Decides the statement's last sentence exactly (a value is opened only on the equal edge of a comparison of the two different received copies) plus the wiring of the MAC path: validate_record precedes both reveals in the PRF, mac_multiply multiplies (x,y) and (r*x, induced y) on distinct steps and accumulates the product on every Ok path, accumulate_macs uses one per-lane PRSS coefficient for both u and w, validate returns Ok only if check_zero(u - w*r), and the u/w/r record-id families are jointly injective for the constants used. Detection probability and algebraic soundness are not decided.",
    ref="§3 C04")
CLAIMED["C05"] = dict(
    technique="static analysis: symbolic interpretation of MIR expression trees (the three shuffle role functions, mask_and_shuffle and their closures evaluated over GF(2)-linear forms with one symbol per pairwise mask and message matching by step/sender/receiver; nothing is executed), dominator ordering with await settlement and `?` edges (verify before release, same table), verdict-guard polarity of every hash comparison, path rules on the whole-table transfers, field-order symmetry of writer/reader chains, constant relations on tag offsets",
    text="Decides the share algebra of the three-party shuffle (outputs XOR to the input row, all pairwise masks cancel, the result is a consistent replicated sharing, only equally permuted tables are combined, three rounds keyed by three different helper pairs, verification tables pair up), the plumbing of the whole-table transfers on all paths (nothing truncated or dropped silently, empty tables, size word) and the detection wiring of the malicious shuffle: MAC tags are added before shuffling, verify_shuffle is awaited and `?`-propagated before the rows are released from the same table, each documented hash comparison is present, compares a local with a received hash and gates Ok; no Ok return of verify_shuffle or of a per-role verifier bypasses the key opening, a comparison or a hash send for any input (e.g. an empty output table), the tags are recomputed with the opened keys, and the hash that is compared absorbs every element of the table it is given; every shard takes part in each resharding step of the shuffle whatever it holds itself; report fields are packed and unpacked in the same order and the tag is cut at the share's byte size. The permutation/multiset property and output-share consistency are numerical and not decided. One open known finding (reported as KNOWN-FINDING, not a violation): the MAC keys are opened with no barrier after the shuffle, so a rushing helper can learn them before its last shuffle message is sent and alter a row by a difference the linear MAC does not see (rule KEYS-barrier; demonstration in seeded/defects/C05-rushing-h2-demo.diff).",
    ref="§3 C05")

CLAIMED["C11"] = dict(
    technique="static analysis: dominator ordering with await settlement and `?` edges in the query runner's closure tree, def-use provenance of the checked collection and of each tag, parameter-use (taint) analysis of the routing closure, verdict-guard polarity of the set insertion",
    text="Decides that the duplicate check cannot be skipped or misrouted: check_duplicates runs on the tag component of the resharded result, after resharding settled and before hybrid_protocol is created, with its error `?`-propagated; each tag is taken from the very encrypted report that is decrypted (16-byte ciphertext prefix); routing depends only on the tag (the RecordId parameter is never read) via tag % shard_count; check_duplicate returns Ok only when HashSet::insert reports a new value. Collision probability of distinct reports and the exchange itself (C19) are not decided here.",
    ref="§3 C11")
CLAIMED["C19"] = dict(
    technique="static analysis: def-use / expression extraction for the destination and counters, keep-xor-send branch analysis (reachability from each edge of the dest == my_shard test), avoid-reachability pairing for close-all, `?`-propagation check of every fallible await, shape of result assembly",
    text="Decides the structural part of resharding: the destination is exactly shard_picker(ctx, RecordId::from(counter), &record) with the counter advancing once per record; a record is either kept (no send reachable) or sent to send_channels[dest] with the send awaited and `?`-propagated and the per-destination record id advanced, never both; all channels are closed when the input ends and only then (never on a path on which the input or a send failed, which the peers would take for a clean end); stream and transport errors are propagated; records are stored by source shard and flattened in index order; the send loop is sequential. Multiset equality and timing behaviour are not decided.",
    ref="§3 C19")

CLAIMED["C10"] = dict(
    technique="static analysis: field-to-sink flow census (every info field reaches the HPKE info buffer), def-use binding of AAD/key to the returned report in decrypt, bounds/totality analysis of the report parsers (linear symbolic length facts from dominating guards, constructor invariants, const-definition ordering)",
    text="Decides (a) that every field of the conversion/impression info plus the domain constants is bound into the HPKE info and that both ciphertexts are opened under to_enc_bytes() of the very info returned, with the key chosen by the record's key id and failures propagated; (b) totality of the untrusted parsing path: every index, range, bounds-check, unwrap and explicit panic reachable from report bytes is implied by a dominating length guard on the same buffer, by the data.len() >= INFO_OFFSET constructor invariant (all accessor offsets ordered below it through the const definitions) or by a recorded type-level discharge. AEAD authenticity itself and exact round-trip equality are not decided.",
    ref="§3 C10")

CLAIMED["C12"] = dict(
    technique="static analysis: producer/consumer field-agreement analysis (fields read transitively by the consumers of a struct-update construction site vs. fields set there), finite evaluation of each parameter guard over the orderings below/equal/above its bound (compared with a frozen table from the repository's documentation), provenance of the divisor of the noise reduction (power-of-two check), role/step/generator wiring census of the three noise passes, expression-shape and dominance checks of the samplers, numerical comparison of the extracted eq.-11 prefactor with its closed form on a parameter grid",
    text="Decides the guard and wiring clauses: the noise parameters configured for a mechanism are the ones its samplers read (no consumer of a NoiseParams built with ..Default::default() reads a field left at its default, documented defaults excepted; sibling OPRFPaddingDp::new calls read the same field per argument); every documented parameter range check rejects exactly the out-of-range orderings (the deviant `delta != 0.0` guard was found this way), the sample-to-share map reduces modulo a power of two for every admitted width (the 2^32-1 modulus at the production width was found this way), the three noise/padding passes exclude H1, H2, H3 on distinct steps, the two generating helpers draw from the PRSS side they share and the excluded helper contributes zero; the samplers have the documented construction (geometric counts failures from 0, double geometric = shift + g1 - g2 with p = 1 - e^(-1/s), truncated sampler returns the unmodified draw exactly on 0 <= draw <= 2*shift and redraws otherwise); the truncation search scans n upwards from the sensitivity and accepts the first n with rhs(n) <= delta, where rhs's prefactor equals the closed form of eq. 11 numerically on a grid and its sum runs over n-D+1..=n. The achieved distribution as a numerical object and the achieved delta are not decided.",
    ref="§3 C12")

CLAIMED["C03"] = dict(
    technique="static analysis: closed-form relations between compiler-evaluated constants (including the cfg(not(test)) production values no test compiles), expression-shape extraction of the Fiat-Shamir challenge map, verdict-guard polarity, prover/verifier table pairing census",
    text="Decides the constant and wiring clauses: the recursion capacity FRF*(CRF-1)*CRF^(MAX-2) covers 4*TARGET_PROOF_SIZE for the constants compiled into each analysed configuration (0.66 % margin in production) and ProofBatch::generate asserts that bound; batch sizes derived from TARGET_PROOF_SIZE are rounded down; generator alias arities, ARRAY_LEN and PRSS_RECORDS_PER_BATCH agree; the challenge is mapped into [exclude_to, prime); the proof-field constants are what their names say; BatchToVerify::verify fails exactly on a non-zero recombined difference; verifier table indices are paired with the right table; the hash behind every challenge and every exchanged proof hash absorbs each element of its whole input (no element can be altered without changing it) and refuses an empty input. The algebraic identity of the u/v tables and soundness against bit flips are not decided.",
    ref="§3 C03")

CLAIMED["C06"] = dict(
    technique="static analysis: finite evaluation of the extracted PRSS index packing expression over every admitted offset and sampled indices (affine form, injectivity, span below the index stride), guard polarity of the offset bound, who-may-construct census, affine record-id families, provenance of PRSS indices in proof generation, variant table of indexed/sequential exclusivity, left/right symmetry census",
    text="Decides the index-arithmetic clauses: u64::from(PrssIndex128) is index * D + g(offset) with g injective and spanning less than D on every offset PrssIndex128::new admits (struct built only in new), MAC and DZKP batches use disjoint record-id families/ranges, every PRSS draw in proof generation takes its index from the batch's RecordIdRange (exhaustion panics), a step cannot be used both indexed and sequentially, and the left and right streams are created for the same index with direction selecting the matching generator. That no execution ever repeats a (step, index) pair, and the AES/HKDF behaviour, are not decided.",
    ref="§3 C06")

CLAIMED["C09"] = dict(
    technique="static analysis: table over every Serializable impl with compiler-evaluated Size/BITS/PRIME (fallible iff the value space is partial), validity-guard dominance in each fallible decoder, deviant-sibling detection, field-order/offset symmetry of the info codecs",
    text="Decides the acceptance clauses: sizes hold their BITS; a decoder is infallible exactly when every byte string of its size is canonical; every fallible decoder builds its value only under its validity predicate (v < PRIME by interval analysis, Boolean byte <= 1, zero padding, decompress()); HybridEventType::try_from inverts `as u8`; the info codecs read what they write at the same offsets and widths. One deviant is reported as a known finding (Fp25519 reduces instead of rejecting); every other bytes-to-value path of a type with padding bits (TryFrom<&[u8]>, From<raw storage>) is discharged by a mask, a padding check or a length guard. Round-trip equality for all values and the bit-matrix transposes are numerical and not decided.",
    ref="§3 C09")

CLAIMED["C13"] = dict(
    technique="static analysis: def-use provenance of map keys and transport routes from one ChannelId, guard dominance of the record-count check, close-at-last pairing with await settlement, WAKE-1 may-analysis over gateway/transport poll functions, variant-set dataflow over Result-item stream adapters, finite evaluation of the extracted capacity/read-size arithmetic over a parameter grid",
    text="Decides keying and bounds: a sender is stored under the full (peer, gate) channel id and the transport route is built from the two halves of the same id; receivers build their route from the id they are keyed by, on the matching transport and map; sending at or beyond the declared count is refused before anything is written and the channel is closed at i+1 exactly after the last record; poll functions never return Pending without a registered waker; the rendezvous of an arriving request stream with the receiver that waits for it (StreamCollection) stores the stream or the waker in every arm, wakes the parked receiver when its stream arrives, hands a stream out once and refuses a second stream or a second reader for the same key with a panic; receive-path stream adapters pass errors on; the capacity / read-size formula of SendChannelConfig::new_with is evaluated over a grid of (active = 2^k, record size, configured read size) and yields a read size that is a multiple of the record size and a divisor of the capacity in both arms, with the two runtime assertions present; for the no-deadlock clause the send / receive buffers' waker discipline is decided as in C14 (no Pending without a registered waker, every state change that can unblock the other side reaches its wake on all paths, the latest waker is kept). Delivery, ordering within the window and deadlock freedom over all schedules are not decided.",
    ref="§3 C13")

CLAIMED["C17"] = dict(
    technique="static analysis: method whitelist (who-may-call) on the chunk deque, who-may-write census and expression-shape pairing of the byte counter with deque mutations, def-use flow of every removed chunk into the returned value, dominator-based guard discharge of each panic-capable site, variant-arm dominance for the end-of-input and Pending returns, path reachability for records held at an error return",
    text="Decides the structural clauses only: the chunk deque is used strictly as a FIFO; buffered_size is changed only together with the deque and by the number of bytes moved; read_bytes returns None exactly when fewer than len bytes are buffered and mutates nothing then, returns exactly len bytes otherwise and every removed byte reaches the result; every panic-capable site of the parser bodies is dominated by the guard that makes it safe (never panics); end of input with leftover bytes or a pending length prefix is an Err item and never end-of-stream; Pending is only passed on from the inner stream; records parsed in a poll are delivered before an error is reported. The equality of the record sequence over all chunkings of a byte string is NOT decided, nor is helpers/stream/chunks.rs (vectorisation chunks, not byte parsing).",
    ref="§3 C17")

CLAIMED["C07"] = dict(
    technique="static analysis: expression-tree extraction from MIR (through await / ? / conversions) of the one-bit gadgets and finite evaluation of the extracted GF(2) polynomials over all input combinations against reference truth tables; exact integer-polynomial identity of the replicated multiplication summed over the three helpers; def-use and dominance checks for carry-in constants, returned values and the ripple-loop wiring",
    text="Decides the gadget algebra and the wiring only: bit_adder / bit_subtractor equal the full adder (of x, !y, c) on all 8 inputs and read the incoming carry before overwriting it; or / bool_or / select equal OR / the multiplexer on all inputs; the three local shares of the semi-honest multiplication add up to the product as a polynomial identity, are sent left / received right and assembled as (local, received); each comparison / subtraction / addition entry point starts from the carry-in that two's-complement arithmetic requires (geq, sub, sat_sub: 1; gt, add, sat_add: 0), passes (x, y) in order and returns the threaded carry / the circuit bits / select(carry, diff, 0) / or(sum, carry); the ripple loops zip x with y padded by ZERO, narrow per bit index and push outputs in order; share_known_value and the semi-honest reshare are consistent replicated sharings of the right value (polynomial identities over the three role arms); the aggregation tree grows sums by the carry exactly while they are narrower than the output width and saturates from then on, and the cross-shard histogram merge is the saturating addition. Operands are identified by parameter position, not by name. Share conversion, the PRF, integer multiplication and vectorised layouts are NOT decided; no circuit is executed.",
    ref="§3 C07")

CLAIMED["C01"] = dict(
    technique="static analysis: variant-arm evaluation of the pair-grouping transition table, call-shape and def-use checks of the grouping map, operand/field wiring of the two pair sums, dominator-ordered must-pass-through of the pipeline stages with await settlement and data-flow between stages, collective-participation rule (no Ok return that bypasses a cross-shard stage)",
    text="Decides only the structural clauses of the statement: a match key contributes iff it occurs exactly twice (MatchEntry Single->Pair->MoreThanTwo table, into_pair only for Pair); pairs are formed in an ordered map keyed by the report's own match key; a pair's breakdown key and value are the sums of the fields of the same name of its two reports under distinct steps with the pair index as record id; hybrid_protocol runs pad, shuffle, PRF+reshard, pair aggregation, breakdown reveal, finalize in that order, each awaited, error-propagated and fed by its predecessor; the cross-shard merge of histograms is the saturating addition; every shard takes part in every cross-shard stage whatever it holds itself (hybrid_protocol, breakdown reveal, the resharding after the PRF, every step of the sharded shuffle: no non-error return is reachable without the cross-shard call); the PRF stage evaluates the PRF of each row's own match key under a key shared by all shards, keeps value / breakdown key next to it and routes by the PRF value alone; a partial chunk is never labelled as holding zero rows. The numerical equality of the histogram with the plaintext reference over all inputs, saturation arithmetic and DP noise are NOT decided.",
    ref="§3 C01")

NOT_APPLICABLE = {
}

PENDING = "check not built yet in this revision (planned structural rules are described in DESIGN.md §3); not claimed until the rule module exists"

ALL = ["C%02d" % i for i in range(1, 21)]


def main():
    checks = []
    for pid in ALL:
        if pid not in CLAIMED:
            continue
        c = CLAIMED[pid]
        checks.append({
            "property_id": pid,
            "quick_cmd": f"./check {pid} --tier quick",
            "thorough_cmd": f"./check {pid} --tier thorough",
            "evidence_file": f"/verif/evidence/{pid}.json",
            "replay_cmd_template": f"./check {pid} --replay {{path}}",
            "engine": "ipa-facts+rules",
            "level_claimed": {"category": c.get("category", "other"), "text": c["text"], "design_ref": c["ref"]},
            "level_note": TRUST + (" " + c["note"] if c.get("note") else ""),
            "technique": c["technique"],
        })
    na = []
    for pid in ALL:
        if pid in CLAIMED:
            continue
        na.append({"property_id": pid, "reason": NOT_APPLICABLE.get(pid, PENDING)})
    m = {
        "version": 1,
        "setup_cmd": "cd /verif/driver && CARGO_NET_OFFLINE=true cargo +nightly build --release --offline && cd /verif && python3 -m vlib.extract Q M",
        "hooks": {
            "guard": "ipa_verif",
            "enable": "no hooks: checks analyse /repo's unmodified sources through a rustc driver (RUSTC_WORKSPACE_WRAPPER); the cfg name ipa_verif is reserved and unused",
            "baseline_off_cmd": "cd /repo && cargo test --workspace --no-fail-fast --offline",
            "source_commits": [],
            "add_only": True,
        },
        "engines": [
            {"name": "ipa-facts", "path": "/verif/driver", "serves_properties": sorted(CLAIMED), "kind_free_text": "rustc_private driver: dumps pre-borrowck MIR with resolved callees, evaluated constants, ADT/impl/signature tables of ipa-core under cargo +nightly check (no execution)"},
            {"name": "rules", "path": "/verif/rules", "serves_properties": sorted(CLAIMED), "kind_free_text": "python rule engine over the fact base: CFG dominance/avoid-reachability, def-use provenance, variant tables, interval abstract interpretation, constant certificates, who-may-call census"},
        ],
        "checks": checks,
        "not_applicable": na,
        "notes": "Technique family: static analysis only. Every check rebuilds its facts from /repo's current working tree (content hash of the sources keys the fact cache under /verif/.cache). Known findings: /verif/known_findings.json. The thorough tier ends with the checker's self-test for the property (seeded breaking and behaviour-preserving variants of the current tree re-analysed on a scratch copy; the rules re-run on the fact base with every variable name replaced, verdicts must not move); its results are recorded in the evidence and never change the exit code.",
    }
    with open(os.path.join(HERE, "MANIFEST.json"), "w") as fh:
        json.dump(m, fh, indent=1)
    print("MANIFEST.json: %d checks, %d not_applicable" % (len(checks), len(na)))


if __name__ == "__main__":
    main()
