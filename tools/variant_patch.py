#!/usr/bin/env python3
"""dev aid: writes the fixture variant NAME as a patch against /repo (tools/variant_patch.py NAME > /tmp/x.diff)"""
import sys, os, subprocess, tempfile, shutil
sys.path.insert(0, os.path.dirname(os.path.dirname(os.path.abspath(__file__))))
from fixtures import variants
v = [x for x in variants.VARIANTS if x["name"] == sys.argv[1]][0]
out = ""
byfile = {}
for e in v["edits"]:
    byfile.setdefault(e["file"], []).append(e)
for f, es in byfile.items():
    src = open(os.path.join("/repo", f)).read()
    new = src
    for e in es:
        assert e["find"] in new, e["find"][:60]
        new = new.replace(e["find"], e["replace"], 1)
    with tempfile.NamedTemporaryFile("w", suffix=".rs", delete=False) as t:
        t.write(new)
    d = subprocess.run(["diff", "-u", "--label", "a/" + f, "--label", "b/" + f, os.path.join("/repo", f), t.name], capture_output=True, text=True).stdout
    os.unlink(t.name)
    out += d
sys.stdout.write(out)
