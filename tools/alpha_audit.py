#!/usr/bin/env python3
"""dev aid / metamorphic self-test: runs the rules of the given properties (default: all) on the fact base with every
local variable, parameter and capture name replaced (vlib.facts.ALPHA_RENAME) and compares with the normal run.  A
verdict that changes depends on a source-level name: renaming a local would raise a false alarm (or hide a violation).
   tools/alpha_audit.py [Cxx ..]      (CFG=Q by default)"""
import sys, os, importlib, json
sys.path.insert(0, os.path.dirname(os.path.dirname(os.path.abspath(__file__))))
from vlib import core, facts as F
props = sys.argv[1:] or [json.loads(l)["id"] for l in open(os.path.join(os.path.dirname(__file__), "..", "properties.jsonl"))]
cfg = os.environ.get("CFG", "Q")
bad = 0
for prop in props:
    res = []
    for mode in (False, True):
        F.ALPHA_RENAME = mode
        ctx = core.Ctx(prop, "quick"); ctx.cfg = cfg
        importlib.import_module("rules." + prop).run(ctx)
        res.append(ctx)
    a, b = res
    oka = sum(1 for o in a.obs if o.ok); okb = sum(1 for o in b.obs if o.ok)
    fails = [o for o in b.obs if not o.ok]
    base_fail = {(o.rule, o.instance) for o in a.obs if not o.ok}
    new = [o for o in fails if (o.rule, o.instance) not in base_fail]
    print(f"[{prop}] normal: {len(a.obs)} obligations ({oka} ok)   renamed: {len(b.obs)} obligations ({okb} ok)   new failures: {len(new)}")
    for o in new:
        bad += 1
        print("   NAME-DEPENDENT", o.rule, "|", o.instance, "|", (o.detail or "")[:160])
    if len(a.obs) != len(b.obs):
        ka = {(o.rule, o.instance) for o in a.obs}; kb = {(o.rule, o.instance) for o in b.obs}
        print("   only normal:", sorted(ka - kb)[:6], " only renamed:", sorted(kb - ka)[:6])
print("name-dependent verdicts:", bad)
sys.exit(1 if bad else 0)
