#!/usr/bin/env python3
"""Checker self-test: applies each seeded variant (fixtures/variants.py: one textual edit that still
compiles) to /repo's working tree, re-extracts facts, runs the property's rules and requires that
(a) the expected rule fires, naming the broken instance, and (b) for `benign` variants nothing fires.
The tree is restored after every variant (git checkout of the touched file).  Static analysis of
variants — nothing is executed.

usage: tools/selftest.py [-k SUBSTR] [PROP ...]"""
import importlib, os, subprocess, sys, json, time
HERE = os.path.dirname(os.path.dirname(os.path.abspath(__file__)))
sys.path.insert(0, HERE)
from vlib import core, extract
from fixtures import variants

REPO = extract.REPO


def apply_edit(edit):
    path = os.path.join(REPO, edit["file"])
    src = open(path).read()
    cnt = src.count(edit["find"])
    want = edit.get("count", 1)
    if cnt != want:
        raise RuntimeError(f"fixture {edit.get('name')}: pattern occurs {cnt}x in {edit['file']} (expected {want})")
    open(path, "w").write(src.replace(edit["find"], edit["replace"]))
    return path


def restore(files):
    for f in files:
        subprocess.check_call(["git", "-C", REPO, "checkout", "--", os.path.relpath(f, REPO)])


def run_variant(v):
    touched = []
    try:
        for e in v["edits"]:
            e.setdefault("name", v["name"])
            touched.append(apply_edit(e))
        mod = importlib.import_module("rules." + v["prop"])
        ctx = core.Ctx(v["prop"], "quick")
        ctx.cfg = v.get("cfg", "Q")
        try:
            mod.run(ctx)
        except extract.ExtractError as ex:
            return "NOCOMPILE", str(ex)[-600:]
        known = {k["key"] for k in core.load_known().get("findings", []) if k.get("status") == "open"}
        failed = [o for o in ctx.obs if not o.ok and o.key(v["prop"]) not in known]
        return "RAN", failed
    finally:
        restore(touched)


def main():
    args = sys.argv[1:]
    sub = None
    if "-k" in args:
        i = args.index("-k")
        sub = args[i + 1]
        del args[i:i + 2]
    props = set(args)
    dirty = subprocess.check_output(["git", "-C", REPO, "status", "--porcelain", "--untracked-files=no"], text=True).strip()
    if dirty:
        print("refusing to run: /repo has uncommitted changes:\n" + dirty)
        return 2
    bad = 0
    rows = []
    for v in variants.VARIANTS:
        if props and v["prop"] not in props:
            continue
        if sub and sub not in v["name"]:
            continue
        t0 = time.time()
        status, res = run_variant(v)
        if status == "NOCOMPILE":
            print(f"[{v['prop']}] {v['name']}: DOES NOT COMPILE\n{res}")
            bad += 1
            continue
        fired = sorted({f"{o.rule}|{o.instance}" for o in res})
        if v.get("benign"):
            ok = not fired
        else:
            exp = v["expect"]
            ok = any(all(x in f for x in ([exp] if isinstance(exp, str) else exp)) for f in fired)
        print(f"[{v['prop']}] {v['name']}: {'OK ' if ok else 'MISSED'} fired={fired[:6]} ({time.time()-t0:.0f}s)")
        rows.append({"prop": v["prop"], "name": v["name"], "ok": ok, "fired": fired})
        if not ok:
            bad += 1
    print(f"selftest: {len(rows)} variants, {bad} problems")
    return 1 if bad else 0


if __name__ == "__main__":
    sys.exit(main())
