#!/usr/bin/env python3
"""Runs the fixtures of the given properties on a scratch copy of /repo (never touches /repo):
   tools/selftest_scratch.py [-k SUBSTR] PROP..."""
import importlib, os, sys
HERE = os.path.dirname(os.path.dirname(os.path.abspath(__file__)))
sys.path.insert(0, HERE)
from vlib import core
args = sys.argv[1:]
if "-k" in args:
    i = args.index("-k"); os.environ["VERIF_SELFTEST_FILTER"] = args[i + 1]; del args[i:i + 2]
bad = 0
for prop in args:
    r = core.selftest_on_scratch(prop, importlib.import_module("rules." + prop))
    for row in r.get("rows", []):
        print(f"[{prop}] {row['variant']}: {'OK ' if row['ok'] else 'PROBLEM'} {row['status']} fired={row['fired'][:4]}")
        bad += 0 if row["ok"] else 1
print("problems:", bad)
sys.exit(1 if bad else 0)
