#!/bin/bash
# usage: tools/try_seed.sh <patch.diff> <PROP> [PROP...]   -- apply a seeded change to /repo, run checks, undo
set -u
P=$1; shift
cd /repo || exit 2
if [ -n "$(git status --porcelain --untracked-files=no)" ]; then echo "/repo dirty"; exit 2; fi
git apply "$P" || { echo "patch does not apply"; exit 2; }
for prop in "$@"; do (cd /verif && ./check $prop 2>&1 | grep -v "^\[extract" | cut -c1-400); done
git -C /repo checkout -- .
git -C /repo status --porcelain --untracked-files=no
