#!/usr/bin/env python3
"""dev aid: list all obligations of a property (tools/obs.py C18 [rule-substring])"""
import sys, os, importlib
sys.path.insert(0, os.path.dirname(os.path.dirname(os.path.abspath(__file__))))
from vlib import core
prop = sys.argv[1]; flt = sys.argv[2] if len(sys.argv) > 2 else ""
cfg = os.environ.get("CFG", "Q")
ctx = core.Ctx(prop, "quick"); ctx.cfg = cfg
importlib.import_module("rules." + prop).run(ctx)
for o in ctx.obs:
    if flt in o.rule:
        print("OK " if o.ok else "BAD", o.rule, "|", o.instance, "|", o.detail, "|", o.site or "")
