#!/usr/bin/env python3
"""dev aid: tools/record_seed.py ID PROP ROUND json-file  (json: change, needs, confirmed, detected_by[], history) -> seeded/ID/"""
import json, os, shutil, sys
id_, prop, round_, jf = sys.argv[1:5]
d = json.load(open(jf))
out = f"/verif/seeded/{id_}"
os.makedirs(out, exist_ok=True)
s = f"/tmp/seed-{prop}"
for f in ("patch.diff", "demo.diff", "notes.md", "confirm.log", "suite.log"):
    if os.path.exists(f"{s}/{f}"):
        shutil.copy(f"{s}/{f}", f"{out}/{f}")
json.dump({"id": id_, "property": prop, "source": f"independent sub-agent (given only the property text and the list of changes already produced), round {round_}",
           "change": d["change"], "needs_to_manifest": d["needs"],
           "confirmed": d["confirmed"] + "; existing lib suite re-run with the patch applied in a scratch worktree: all passed (suite.log)",
           "detected_by": d["detected_by"], "history": d["history"],
           "check_run": f"tools/try_seed_scratch.py seeded/{id_}/patch.diff {prop} -> VIOLATION property={prop}"}, open(f"{out}/meta.json", "w"), indent=1)
print(out, sorted(os.listdir(out)))
