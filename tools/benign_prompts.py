#!/usr/bin/env python3
"""Writes /tmp/benignwork/prompt-<id>.txt for every property: the brief given to an independent sub-agent that is asked
for eight BEHAVIOUR-PRESERVING refactorings of the code the property depends on (own scratch worktree /tmp/wb-<id>,
output /tmp/benign-<id>/patch-k.diff).  It gets the property text and the anchor file list, nothing about /verif.
Every patch is then run through the rules (tools/try_seed_scratch.py patch PROP..): a rule that fires is a false
alarm to be fixed, and the patch becomes a benign fixture (tools/patch_to_fixture.py .. --benign)."""
import json, os
HERE = os.path.dirname(os.path.dirname(os.path.abspath(__file__)))
T = open(os.path.join(HERE, "tools", "benign_prompt_template.txt")).read()
os.makedirs("/tmp/benignwork", exist_ok=True)
for l in open(os.path.join(HERE, "properties.jsonl")):
    p = json.loads(l)
    files = "\n".join("  - " + f for f in p["anchors"]["files"])
    open(f"/tmp/benignwork/prompt-{p['id']}.txt", "w").write(T.format(wt=f"/tmp/wb-{p['id']}", out=f"/tmp/benign-{p['id']}", title=p["title"], stmt=p["statement"], files=files))
print("prompts written to /tmp/benignwork")
