#!/usr/bin/env python3
"""dev aid: rules of other properties that have obligations sited in a property's anchor files but are not run by that
property (candidates for sharing): tools/cross_anchor.py"""
import sys, os, importlib, json, re, collections
sys.path.insert(0, os.path.dirname(os.path.dirname(os.path.abspath(__file__))))
from vlib import core
props = {}
for l in open(os.path.join(os.path.dirname(os.path.dirname(os.path.abspath(__file__))), "properties.jsonl")):
    p = json.loads(l)
    props[p["id"]] = p["anchors"]["files"]
obs = {}
for pid in props:
    ctx = core.Ctx(pid, "quick"); ctx.cfg = "Q"
    importlib.import_module("rules." + pid).run(ctx)
    obs[pid] = [(o.rule, (o.site or "").split(":")[0]) for o in ctx.obs]
for pid, files in props.items():
    mine = {r for r, _ in obs[pid]}
    cand = collections.Counter()
    for q, os_ in obs.items():
        if q == pid:
            continue
        for r, f in os_:
            if f and f in files and r not in mine:
                cand[(q, r, f.split("/")[-1])] += 1
    if cand:
        print(pid, "anchors also carry:")
        for (q, r, f), n in sorted(cand.items()):
            print(f"    {q} {r} ({f}) x{n}")
