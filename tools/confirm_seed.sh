#!/bin/bash
# usage: tools/confirm_seed.sh <ID> <cargo test filter> [extra cargo args]
# In the scratch worktree /tmp/wt-<ID>: demo alone must pass, demo + patch must fail.
ID=$1; FILTER=$2; shift 2
WT=/tmp/wt-$ID; S=/tmp/seed-$ID; LOG=$S/confirm.log
cd $WT || exit 2
git checkout -q -- . && git clean -fdq -e target -e Cargo.lock
export CARGO_TARGET_DIR=$WT/target
{
echo "== demo only (expect pass)"; git apply $S/demo.diff && cargo test --offline -p ipa-core --lib "$@" -- "$FILTER" 2>&1 | grep -E "^test |test result|error(\[|:)" | head -20
echo "== demo + patch (expect fail)"; git apply $S/patch.diff && cargo test --offline -p ipa-core --lib "$@" -- "$FILTER" 2>&1 | grep -E "^test |test result|error(\[|:)|panicked" | head -20
} > $LOG 2>&1
git checkout -q -- . && git clean -fdq -e target -e Cargo.lock
echo done >> $LOG
