#!/usr/bin/env python3
"""dev aid: functions in a property's anchor files that no obligation of that property has a site in
   (tools/uncovered.py C05 [extra-file-substr ...])"""
import sys, os, importlib, json, re
sys.path.insert(0, os.path.dirname(os.path.dirname(os.path.abspath(__file__))))
from vlib import core
prop = sys.argv[1]
cfg = os.environ.get("CFG", "Q")
ctx = core.Ctx(prop, "quick"); ctx.cfg = cfg
importlib.import_module("rules." + prop).run(ctx)
files = list(sys.argv[2:])
for l in open(os.path.join(os.path.dirname(os.path.dirname(os.path.abspath(__file__))), "properties.jsonl")):
    p = json.loads(l)
    if p["id"] == prop:
        files += p["anchors"]["files"]
sited = set()
for o in ctx.obs:
    m = re.search(r" in (.*?)(?: bb\d+)?$", o.site or "")
    if m:
        sited.add(re.sub(r"::\{closure#\d+\}", "", m.group(1)))
facts = ctx.facts()
rows = {}
for b in facts.non_test_bodies():
    f = (b.file or "")
    if not any(x in f for x in files):
        continue
    root = re.sub(r"::\{closure#\d+\}", "", b.path)
    rows.setdefault((f, root), 0)
    rows[(f, root)] += len(b.blocks)
for (f, root), n in sorted(rows.items()):
    if root not in sited and n >= 4:
        print(f"{f}  {root}  blocks={n}")
