#!/usr/bin/env python3
"""dev aid: apply a patch to a scratch copy and run a python snippet with `facts` bound
   tools/scratch_shell.py <patch.diff> <PROP> <snippet.py>"""
import importlib, os, shutil, subprocess, sys, tempfile
HERE = os.path.dirname(os.path.dirname(os.path.abspath(__file__)))
sys.path.insert(0, HERE)
from vlib import core, extract, flow, facts as F
patch, prop, snippet = os.path.abspath(sys.argv[1]), sys.argv[2], sys.argv[3]
scratch = tempfile.mkdtemp(prefix="ipa-verif-dbg-")
try:
    subprocess.check_call(["rsync", "-a", "--exclude", "target", "--exclude", ".git", extract.REPO + "/", scratch + "/"])
    subprocess.check_call(["patch", "-p1", "-s", "-d", scratch, "-i", patch])
    ctx = core.Ctx(prop, "quick", repo=scratch)
    ctx.cfg = os.environ.get("CFG", "Q")
    facts = ctx.facts()
    exec(open(snippet).read())
finally:
    shutil.rmtree(scratch, ignore_errors=True)
