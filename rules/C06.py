"""C06  Shared randomness is pairwise identical, step-separated and never reused.

Decided statically (index-arithmetic clauses; DESIGN.md §3/C06):
  RANGE-index    u64::from(PrssIndex128) = (index << S) + offset is injective on the constructor's admitted domain:
                 PrssIndex128::new admits only offset <= MAX_OFFSET (guard polarity), MAX_OFFSET < 2^S, and the
                 struct literal appears only in `new` (who-may-construct); u128::from goes through u64::from.
  AFFINE-ids     MAC-validator record-id families are jointly injective (rules/C04.py); DZKP proof batches draw from
                 the disjoint ranges [b*N, (b+1)*N) with one constant N = ARRAY_LEN + 2 (rules/C03.py).
  WHO-draws      every PRSS draw in proof generation (ProofBatch::generate, gen_artefacts_from_recursive_step) takes its
                 index from RecordIdRange::expect_next on the range passed in, so over-consumption panics instead of
                 reusing; expect_next advances by one and panics at the end.
  GUARD-kind     EndpointInner::{indexed, sequential}: a step used sequentially cannot be used as indexed and vice versa
                 (table over the item variants: indexed() returns only on Indexed and panics on Sequential;
                 sequential() inserts Sequential and asserts that nothing was there).
  WHO-symmetry   generate_chunks_iter builds the left and right ChunkIter from the SAME index; ChunkIter::new selects
                 prss.left for Direction::Left and prss.right for Direction::Right; ChunkIter::next draws
                 index.offset(offset + i) and advances offset by the chunk size.
  WHO-generate   Generator::generate is pub(super) (only prss:: can call it) and records the index in the UsedSet
                 before encrypting in debug builds.
That no protocol execution repeats a (step, index) pair quantifies over executions: not decided.
"""
import re
from vlib import facts as F, flow, variants as V
from vlib.core import site_of
from rules import malsec, C04, C03

LEVEL = "other"
EXPLANATION = "C06: injectivity shape and guard of the PRSS index packing, disjoint record-id ranges, provenance of PRSS indices in proof generation, indexed/sequential exclusivity table, left/right symmetry of chunk iterators."

PI = "protocol::prss::internal::PrssIndex128"


def run(ctx):
    facts = ctx.facts()
    index_packing(ctx, facts)
    C04.affine_ids(ctx, facts)
    C03.sizing(ctx, facts)
    draws(ctx, facts)
    kinds(ctx, facts)
    symmetry(ctx, facts)
    generate_vis(ctx, facts)
    forwarders(ctx, facts)
    generator_shape(ctx, facts)
    random_cover(ctx, facts)
    seed_sides(ctx, facts)
    from rules import C16
    C16.index_sync(ctx, facts)      # the batch index a validator is built with selects its PRSS indices (affine ids): it must never repeat
    ctx.assume("AES / HKDF behave as ideal primitives; absence of (step, index) reuse over all executions is not decided")


def resolve_consts(e, facts):
    """replace named constants by their evaluated values where the fact base knows them"""
    if not isinstance(e, tuple):
        return e
    if e and e[0] == "const" and isinstance(e[1], str):
        v = facts.const_val(e[1])
        return ("const", v) if isinstance(v, int) else e
    return tuple(resolve_consts(x, facts) if isinstance(x, tuple) else x for x in e)


def admitted_offsets(facts, maxoff):
    """largest offset PrssIndex128::new accepts, from its guard (None if the guard is not recognised)"""
    nb = facts.bodies.get(PI + "::new")
    if nb is None or maxoff is None:
        return None
    for bb in sorted(nb.live_blocks()):
        t = nb.term(bb)
        if t["k"] != "switch":
            continue
        ex = flow.expr_of(nb, t["o"])
        if ex[0] == "bin" and ex[1] in ("Le", "Lt", "Gt", "Ge") and "offset" in flow.field_names_in(ex) and (("const", maxoff) in (ex[2], ex[3]) or "MAX_OFFSET" in str(ex)):
            off_left = "offset" in flow.field_names_in(ex[2])
            op = ex[1] if off_left else {"Le": "Ge", "Lt": "Gt", "Gt": "Lt", "Ge": "Le"}[ex[1]]
            return maxoff if op in ("Le", "Gt") else maxoff - 1
    return None


def index_packing(ctx, facts):
    ctx.rule("RANGE-index: u64::from(PrssIndex128), evaluated for every offset that new() admits and sampled indices, is index * D + g(offset) with g injective and spanning less than D, within 64 bits (so distinct (index, offset) give distinct cipher inputs); new() returns Ok only if offset <= MAX_OFFSET; the struct is constructed only in new()")
    b = facts.bodies.get(f"<u64 as std::convert::From<{PI}>>::from")
    if b is None:
        b = next((x for p, x in facts.bodies.items() if re.search(r"impl std::convert::From<.*PrssIndex128> for u64>::from$", p)), None)
    if b is None:
        return ctx.missing("RANGE-index", "From<PrssIndex128> for u64")
    ctx.count(bodies=1)
    from rules.C13 import ieval, NoEval
    e = resolve_consts(flow.expr_of(b, {"cp": [0]}, max_depth=40), facts)
    maxoff = facts.const_val(PI + "::MAX_OFFSET")
    # which offsets does new() admit?  (`<=` admits MAX_OFFSET itself; decided below, used here)
    admitted = admitted_offsets(facts, maxoff)
    IDX, OFF = ("arg", 1, "index", "0"), ("arg", 1, "offset")
    def f(i, o):
        return ieval(e, {IDX: i, OFF: o})
    ok, why, D = False, "", None
    try:
        if maxoff is None or admitted is None:
            raise NoEval("MAX_OFFSET / the offset guard of new()")
        g = [f(0, o) for o in range(admitted + 1)]
        D = f(1, 0) - f(0, 0)
        samples = (1, 2, 3, 0x7fffffff, 0x80000000, 0xfffffffe, 0xffffffff)
        affine = all(f(i, o) == i * D + g[o] for i in samples for o in (0, 1, admitted // 2, admitted - 1, admitted))
        distinct = len(set(g)) == len(g)
        below = D > 0 and max(g) - min(g) < D
        fits = 0 <= min(g) and 0xffffffff * D + max(g) < (1 << 64)
        ok = affine and distinct and below and fits
        if not distinct:
            dup = next(o for o in range(len(g)) if g.index(g[o]) != o)
            why = f"offsets {g.index(g[dup])} and {dup} (both admitted by new()) give the same cipher input for the same index: the block is reused inside one value"
        elif not affine:
            why = "the packing is not index * D + g(offset) on the sampled indices"
        elif not below:
            why = f"the offset part spans {max(g) - min(g)} >= index stride {D}: (index, offset) and (index + 1, offset') collide"
        elif not fits:
            why = "the packed value does not fit 64 bits"
    except NoEval as ex:
        why = f"cannot evaluate the packing expression ({ex})"
    ctx.ob("RANGE-index", "packing-injective", ok, f"u64::from(PrssIndex128) = index * {D} + g(offset), g injective on the {admitted + 1} admitted offsets and < {D} (evaluated for every admitted offset)" if ok else why, site_of(b))
    nb = facts.bodies.get(PI + "::new")
    if nb is None:
        return ctx.missing("RANGE-index", "PrssIndex128::new")
    found = False
    for bb in sorted(nb.live_blocks()):
        t = nb.term(bb)
        if t["k"] != "switch":
            continue
        ex = flow.expr_of(nb, t["o"])
        if ex[0] == "bin" and ex[1] in ("Le", "Lt", "Gt", "Ge") and "offset" in flow.field_names_in(ex) and (("const", maxoff) in (ex[2], ex[3]) or "MAX_OFFSET" in str(ex)):
            found = True
            ed = flow.switch_edges(nb, bb)
            oks = set(malsec.ok_blocks(nb))
            accept_edge = ed[1] if ex[1] in ("Le", "Lt") else ed[0]
            reject_edge = ed[0] if ex[1] in ("Le", "Lt") else ed[1]
            okg = ex[1] in ("Le", "Gt") and not (oks & nb.reachable(reject_edge)) and bool(oks & nb.reachable(accept_edge))
            ctx.ob("RANGE-index", "new-rejects-large-offset", okg, "Ok only if offset <= MAX_OFFSET" if okg else f"new() accepts offsets beyond MAX_OFFSET (`{ex[1]}`)", site_of(nb, bb))
    if not found:
        ctx.ob("RANGE-index", "new-rejects-large-offset", False, "PrssIndex128::new no longer bounds the offset", site_of(nb))
    n = 0
    for body in facts.non_test_bodies():
        for bb, idx, s in body.iter_assigns():
            r = s["r"]
            if r["k"] == "agg" and r.get("adt") == PI:
                n += 1
                okc = body.path == PI + "::new"
                ctx.ob("RANGE-index", f"constructed-in@{body.root}", okc, "constructed in new()" if okc else "PrssIndex128 is built outside new(): the offset bound can be bypassed", site_of(body, bb, idx))
    ctx.floor("RANGE-index", "PrssIndex128 constructor sites", n, 1)
    ub = next((x for p, x in facts.bodies.items() if re.search(r"From<.*PrssIndex128> for u128>::from$|<u128 as std::convert::From<.*PrssIndex128>>::from$", p)), None)
    if ub is not None:
        eu = str(flow.expr_of(ub, {"cp": [0]}))
        ctx.ob("RANGE-index", "u128-via-u64", eu.count("From::from") >= 2, "u128::from(idx) = u128::from(u64::from(idx))", site_of(ub))


def draws(ctx, facts):
    ctx.rule("WHO-draws: each PRSS generate* call in ProofBatch::generate / gen_artefacts_from_recursive_step takes its index from RecordIdRange::expect_next; expect_next panics when the range is exhausted")
    n = 0
    for p, b in facts.bodies.items():
        if not (p.endswith("proof_generation::ProofBatch::generate") or re.search(r"prover::ProofGenerator::<F, L, P, M>::gen_artefacts_from_recursive_step$", p) or re.search(r"prover::ProofGenerator::<F, L, P, M>::gen_proof_shares_from_prss$", p)):
            continue
        ctx.count(bodies=1)
        for bb, t in b.calls():
            fn = F.callee(t)[0] or ""
            if re.search(r"SharedRandomness::(generate|generate_fields|generate_one_side|generate_values|generate_arrays|zero)$", fn):
                n += 1
                e = str(flow.expr_of(b, t["args"][1]))
                ok = "RecordIdRange::expect_next" in e or "expect_next" in e
                ctx.ob("WHO-draws", f"{F.short(p,1)}#{n}", ok, "index = prss_record_ids.expect_next()" if ok else f"PRSS index is {e[:100]}, not taken from the batch's record range: indices can repeat across batches", site_of(b, bb))
    ctx.floor("WHO-draws", "PRSS draws in proof generation", n, 3)
    eb = next((x for p, x in facts.bodies.items() if p.endswith("RecordIdRange::expect_next")), None)
    if eb is None:
        return ctx.missing("WHO-draws", "RecordIdRange::expect_next")
    pan = any(eb.term(x)["k"] == "call" and eb.term(x)["t"] is None for x in eb.live_blocks()) or bool(flow.find_calls(eb, re.compile(r"(unwrap|expect)$")))
    ctx.ob("WHO-draws", "expect_next-panics-at-end", pan, "exhausting the range panics", site_of(eb))


def kinds(ctx, facts):
    ctx.rule("GUARD-kind: indexed() returns only for EndpointItem::Indexed and diverges for Sequential; sequential() inserts EndpointItem::Sequential and asserts the previous entry was None")
    ib = facts.bodies.get("protocol::prss::EndpointInner::indexed")
    sb = facts.bodies.get("protocol::prss::EndpointInner::sequential")
    if ib is None or sb is None:
        return ctx.missing("GUARD-kind", "EndpointInner::{indexed, sequential}")
    ctx.count(bodies=2)
    # indexed: switch on discriminant of the item; variant Sequential edge diverges
    adt = facts.adts.get("protocol::prss::EndpointItem")
    names = [v["name"] for v in adt["variants"]] if adt else []
    okI = False
    for bb in sorted(ib.live_blocks()):
        t = ib.term(bb)
        if t["k"] == "switch":
            e = flow.expr_of(ib, t["o"])
            if e[0] == "disc" and ib.local_head(F.op_place(t["o"])[0]) is not None:
                targets = {int(v): x for v, x in t["ts"]}
                seq_i = names.index("Sequential") if "Sequential" in names else None
                idx_i = names.index("Indexed") if "Indexed" in names else None
                if idx_i in targets:
                    other = t["else"] if seq_i not in targets else targets[seq_i]
                    rets = [x for x in ib.reachable(other) if ib.term(x)["k"] == "ret"]
                    rets_ok = [x for x in ib.reachable(targets[idx_i]) if ib.term(x)["k"] == "ret"]
                    if "EndpointItem" in str(ib.local_ty(F.op_place(t["o"])[0])) or True:
                        if not rets and rets_ok:
                            okI = True
    ctx.ob("GUARD-kind", "indexed-refuses-sequential", okI, "indexed() panics for a step already used sequentially" if okI else "indexed() can return for a step registered as Sequential: indexed and sequential draws share one key stream", site_of(ib))
    ins = flow.find_calls(sb, re.compile(r"HashMap::<K, V, S, A>::insert$"))
    okS = False
    if ins:
        e = flow.expr_of(sb, ins[0][1]["args"][2])
        is_seq = e[0] == "agg" and e[1][1] == "Sequential"
        # whichever way the previous entry is tested (is_none / is_some / a match on the Option): the edge on which
        # insert returned Some(previous) must not reach a return
        some_edges = []
        for sw, ex, ed, call in malsec.guards(sb, r"Option::<T>::is_(none|some)$"):
            if "HashMap::<K, V, S, A>::insert" in str(call):
                some_edges.append(ed[0] if call[1].endswith("is_none") else ed[1])
        from rules.C17 import variant_arms
        for sw, pl, arms in variant_arms(sb, "std::option::Option", facts):
            if "HashMap::<K, V, S, A>::insert" in str(flow.expr_of(sb, {"cp": pl}, max_depth=6)) and "Some" in arms and arms.get("None") != arms["Some"]:
                some_edges.append(arms["Some"])
        div = bool(some_edges) and not any(sb.term(x)["k"] == "ret" for e_ in some_edges for x in sb.reachable(e_))
        okS = is_seq and div
    ctx.ob("GUARD-kind", "sequential-refuses-reuse", okS, "sequential() registers the step and panics if it was used before" if okS else "sequential() does not refuse a step that was already used", site_of(sb))


def symmetry(ctx, facts):
    ctx.rule("WHO-symmetry: ChunksIter{left: ChunkIter::new(self, index, Left), right: ChunkIter::new(self, index, Right)} with the same index; ChunkIter::new picks prss.left / prss.right by direction; next() draws index.offset(offset + i), offset += Z")
    gb = next((x for p, x in facts.bodies.items() if re.search(r"IndexedSharedRandomness as protocol::prss::crypto::SharedRandomness>::generate_chunks_iter$", p)), None)
    if gb is None:
        ctx.missing("WHO-symmetry", "IndexedSharedRandomness::generate_chunks_iter")
    else:
        news = flow.find_calls(gb, re.compile(r"prss::ChunkIter::<'a, Z>::new$"))
        dirs, idxs = [], []
        for bb, t in news:
            d = flow.expr_of(gb, t["args"][2])
            dirs.append(d[1][1] if d[0] == "agg" else str(d))
            idxs.append(str(flow.expr_of(gb, t["args"][1])))
        ok = len(news) == 2 and sorted(dirs) == ["Left", "Right"] and len(set(idxs)) == 1
        ctx.ob("WHO-symmetry", "same-index-both-sides", ok, "left and right streams are created for the same index" if ok else f"left/right chunk iterators use {dirs} with indices {idxs}", site_of(gb))
        for bb, idx, s in gb.iter_assigns():
            r = s["r"]
            if r["k"] == "agg" and r.get("adt", "").endswith("ChunksIter"):
                l = str(flow.expr_of(gb, r["ops"][0]))
                rr = str(flow.expr_of(gb, r["ops"][1]))
                okf = "'Left'" in l and "'Right'" in rr
                ctx.ob("WHO-symmetry", "fields-not-swapped", okf, "ChunksIter.left is the Left stream, .right the Right stream" if okf else "ChunksIter.left/right are swapped: this helper's left value no longer equals its left neighbour's right value", site_of(gb, bb, idx))
    nb = next((x for p, x in facts.bodies.items() if p.endswith("prss::ChunkIter::<'a, Z>::new")), None)
    if nb is None:
        ctx.missing("WHO-symmetry", "ChunkIter::new")
    else:
        tbl = {}
        for bb in sorted(nb.live_blocks()):
            t = nb.term(bb)
            if t["k"] == "switch" and flow.expr_of(nb, t["o"])[0] == "disc":
                for v, tgt in [(int(v), x) for v, x in t["ts"]] + [(None, t["else"])]:
                    cur = tgt
                    for _ in range(3):
                        for s in nb.stmts(cur):
                            if "p" in s and s["r"]["k"] == "ref":
                                fn = [x[2] for x in s["r"]["p"][1:] if isinstance(x, list) and x[0] == "f" and len(x) > 2]
                                if fn and v is not None:
                                    tbl[v] = fn[-1]
                        tt = nb.term(cur)
                        if tt["k"] in ("goto", "fe"):
                            cur = tt["t"]
                        else:
                            break
        ok = tbl.get(0) == "left" and tbl.get(1) == "right"
        ctx.ob("WHO-symmetry", "direction-selects-generator", ok, "Direction::Left => prss.left, Direction::Right => prss.right" if ok else f"generator selection is {tbl}", site_of(nb))
    xb = next((x for p, x in facts.bodies.items() if re.search(r"<protocol::prss::ChunkIter<'_, Z> as std::iter::Iterator>::next$", p)), None)
    if xb is not None:
        adv = False
        for bb, idx, s in xb.iter_assigns():
            last = s["p"][-1] if len(s["p"]) > 1 else None
            if isinstance(last, list) and last[0] == "f" and len(last) > 2 and last[2] == "offset":
                e = flow.expr_of(xb, s["r"]["o"]) if s["r"]["k"] == "use" else ("?",)
                adv = e[0] == "bin" and e[1] == "Add" and "USIZE" in str(e)
        ctx.ob("WHO-symmetry", "offset-advances-by-chunk", adv, "offset += Z::USIZE after each chunk" if adv else "chunk offset does not advance by the chunk size: consecutive chunks repeat values", site_of(xb))
        clos = [c for c in facts.tree(xb.root) if c.kind == "Closure"]
        okc = False
        for c in clos:
            for bb, t in c.calls():
                if (F.callee(t)[0] or "").endswith("PrssIndex::offset"):
                    e = flow.expr_of(c, t["args"][1])
                    okc = e[0] == "bin" and e[1] == "Add"
        ctx.ob("WHO-symmetry", "draws-offset-plus-i", okc, "element i of a chunk uses offset + i", site_of(xb))


def generate_vis(ctx, facts):
    ctx.rule("WHO-generate: Generator::generate is not public outside protocol::prss; in debug builds use_index(index) is recorded before the AES call")
    path = "protocol::prss::crypto::Generator::generate"
    f = facts.fns.get(path)
    b = facts.bodies.get(path)
    if f is None or b is None:
        return ctx.missing("WHO-generate", path)
    ctx.ob("WHO-generate", "visibility", f["vis"].startswith("in:protocol::prss") or f["vis"] == "in:protocol::prss", f"visibility {f['vis']}" if f["vis"] != "pub" else "Generator::generate is public: any code can draw raw values with arbitrary indices")
    callers = set()
    for body in facts.non_test_bodies():
        for bb, t in body.calls():
            if F.callee(t)[0] == path:
                callers.add(body.root)
    okc = all(c.startswith("protocol::prss") or c.startswith("<protocol::prss") for c in callers) and bool(callers)
    ctx.ob("WHO-generate", "callers", okc, f"called only from prss:: ({len(callers)} callers)" if okc else f"called from {sorted(callers)[:3]}")
    ui = flow.find_calls(b, re.compile(r"UsedSet::use_index$"))
    enc = flow.find_calls(b, re.compile(r"encrypt_block$"))
    dom = b.dominators()
    oku = bool(ui) and bool(enc) and all(flow.dominates(dom, ui[0][0], x) for x, _ in enc)
    ctx.ob("WHO-generate", "use_index-before-encrypt", oku, "the index is registered as used before the value is produced (debug builds)" if oku else "use_index is missing / after the encryption", site_of(b))


def forwarders(ctx, facts):
    """Context wrappers (Upgraded / DZKPUpgraded / malicious / semi-honest over Base) forward each accessor to the
    SAME accessor of the wrapped context.  A forwarder that calls a different sibling trait method of the crate -
    e.g. cross_shard_prss() answered with inner.prss() - type-checks when the return types agree and hands out the
    wrong randomness (per-shard instead of cross-shard), which no per-shard check notices."""
    ctx.rule("WHO-forward: every pure forwarding method of a protocol::context wrapper (single call on a field of self whose result is returned) that calls a crate trait method calls the method of its own name; cross_shard_prss/prss forwarders are required to exist for every sharded wrapper")
    n = 0
    names = {}
    for b in sorted(facts.non_test_bodies(), key=lambda x: x.path):
        if not b.file.startswith("ipa-core/src/protocol/context/") or b.kind != "AssocFn" or not b.path.startswith("<"):
            continue
        calls = list(b.calls())
        if len(calls) != 1:
            continue
        bb, t = calls[0]
        if not t["args"] or t["d"] != [0]:
            continue
        e = flow.expr_of(b, t["args"][0])
        if not (e[0] == "arg" and e[1] == 1 and len(e) >= 3):
            continue
        fn, res, info = F.callee(t)
        fn = fn or ""
        if fn.startswith(("std::", "core::", "alloc::")) or not (res or info.get("self")):
            continue                       # std trait or inherent helper: not a sibling accessor
        own, tgt = b.path.split("::")[-1], fn.split("::")[-1]
        n += 1
        names[own] = names.get(own, 0) + 1
        ctx.count(bodies=1, calls=1)
        ctx.ob("WHO-forward", b.path, own == tgt, f"forwards to {tgt}" if own == tgt else f"`{own}` is answered with the wrapped context's `{tgt}`: a different accessor of the same shape (for prss/cross_shard_prss: per-shard randomness handed out as cross-shard randomness or vice versa)", site_of(b, bb))
    ctx.floor("WHO-forward", "forwarding accessors", n, 50)
    ctx.floor("WHO-forward", "cross_shard_prss forwarders", names.get("cross_shard_prss", 0), 5)
    ctx.floor("WHO-forward", "prss forwarders", names.get("prss", 0), 4)
    # terminal accessors: which PRSS endpoint each one opens, and at which step
    BASE = "<protocol::context::Base<'_, B> as protocol::context::Context>::"
    for path, want, what in ((BASE + "prss", "inner.prss", "per-shard"), (BASE + "prss_rng", "inner.prss", "per-shard"),
                             ("<protocol::context::Base<'_, sharding::Sharded> as protocol::context::ShardedContext>::cross_shard_prss", "cross_shard_prss", "cross-shard")):
        b = facts.bodies.get(path)
        if b is None:
            ctx.missing("WHO-forward", path)
            continue
        ctx.count(bodies=1)
        eps = [(bb, t) for bb, t in b.calls() if re.search(r"prss::Endpoint::(indexed|sequential)$", F.callee(t)[0] or "")]
        if len(eps) != 1:
            ctx.missing("WHO-forward", path + ": single Endpoint::indexed/sequential call")
            continue
        bb, t = eps[0]
        e0 = flow.expr_of(b, t["args"][0])
        src = ".".join(str(x) for x in flow.strip_casts(e0)[2:]) if flow.strip_casts(e0)[0] == "arg" else str(e0)
        if want == "inner.prss":
            ok = flow.strip_casts(e0)[0] == "arg" and tuple(flow.strip_casts(e0)[2:]) == ("inner", "prss")
        else:
            ok = "ShardBinding::cross_shard_prss" in src and "'sharding'" in src
        g = str(flow.expr_of(b, t["args"][1]))
        okg = "Context::gate" in g or "'gate'" in g
        short = path.split("::")[-1]
        ctx.ob("WHO-forward", f"Base::{short}:endpoint", ok, f"opens the {what} endpoint" if ok else f"Base::{short} opens `{src[:80]}`, not the {what} PRSS endpoint", site_of(b, bb))
        ctx.ob("WHO-forward", f"Base::{short}:step", okg, "indexed by the context's own gate" if okg else "the PRSS endpoint is not indexed by the context's current gate (step separation lost)", site_of(b, bb))
    sb = facts.bodies.get("<sharding::Sharded as sharding::ShardBinding>::cross_shard_prss")
    if sb is None:
        ctx.missing("WHO-forward", "<Sharded as ShardBinding>::cross_shard_prss")
    else:
        ctx.count(bodies=1)
        e = str(flow.expr_of(sb, {"cp": [0]}))
        ok = "('arg', 1, 'prss')" in e
        ctx.ob("WHO-forward", "Sharded::cross_shard_prss:field", ok, "hands out the shared (cross-shard) endpoint stored in Sharded.prss" if ok else "Sharded::cross_shard_prss does not return its own cross-shard endpoint", site_of(sb))


def strip_view(e):
    """peel borrows / slice views (deref_mut, from_mut_slice, as_mut, unsize casts) down to the buffer expression"""
    while True:
        e = flow.strip_casts(e)
        if e[0] == "call" and re.search(r"(Deref::deref|DerefMut::deref_mut|from_mut_slice|from_slice|AsMut::as_mut|AsRef::as_ref|as_mut_slice|as_slice)$", e[1]) and e[2]:
            e = e[2][0]
            continue
        return e


def generator_shape(ctx, facts):
    """The per-step generator: key = HKDF-expand(secret; info = the step string), value(index) = AES_k(index) XOR index
    (the MMO construction), with the repeated-index guard consulted before the block is produced."""
    ctx.rule("SHAPE-generator: GeneratorFactory::generator expands the KDF with the caller's context (the step) into the key that Aes256::new receives; Generator::generate encrypts to_le_bytes(index) in place with the generator's cipher and returns from_le_bytes(buf) XOR index, after use_index(index) has been consulted")
    P = "protocol::prss::crypto::"
    b = facts.bodies.get(P + "GeneratorFactory::generator")
    if b is None:
        ctx.missing("SHAPE-generator", "GeneratorFactory::generator")
    else:
        ctx.count(bodies=1)
        ex = [(bb, t) for bb, t in b.calls() if (F.callee(t)[0] or "").endswith("Hkdf::<H, I>::expand")]
        nw = [(bb, t) for bb, t in b.calls() if re.search(r"KeyInit::new$", F.callee(t)[0] or "")]
        ok = False
        if len(ex) == 1 and len(nw) == 1:
            info = flow.strip_casts(flow.expr_of(b, ex[0][1]["args"][1]))
            kbuf = strip_view(flow.expr_of(b, ex[0][1]["args"][2]))
            knew = strip_view(flow.expr_of(b, nw[0][1]["args"][0]))
            dom = b.dominators()
            ok = info == ("arg", 2) and kbuf == knew and kbuf[0] == "call" and flow.dominates(dom, ex[0][0], nw[0][0]) and str(flow.expr_of(b, ex[0][1]["args"][0])) == "('arg', 1, 'kdf')"
        ctx.ob("SHAPE-generator", "generator:key=HKDF(secret, step)", ok, "the AES key is the KDF output for this step's context" if ok else "the generator's AES key is not HKDF-expand(self.kdf, info = the step context): generators of different steps would share a key (or the key is not derived at all)", site_of(b, ex[0][0]) if ex else site_of(b))
    g = facts.bodies.get(P + "Generator::generate")
    if g is None:
        ctx.missing("SHAPE-generator", "Generator::generate")
        return
    ctx.count(bodies=1)
    dom = g.dominators()
    enc = [(bb, t) for bb, t in g.calls() if (F.callee(t)[0] or "").endswith("BlockEncrypt::encrypt_block")]
    tol = [(bb, t) for bb, t in g.calls() if (F.callee(t)[0] or "").endswith("::to_le_bytes")]
    frl = [(bb, t) for bb, t in g.calls() if (F.callee(t)[0] or "").endswith("::from_le_bytes")]
    ok = False
    if len(enc) == 1 and len(tol) == 1 and len(frl) == 1:
        buf = ("call", F.callee(tol[0][1])[0], tuple(flow.expr_of(g, a, max_depth=20) for a in tol[0][1]["args"]))
        ebuf = strip_view(flow.expr_of(g, enc[0][1]["args"][1], max_depth=20))
        fbuf = strip_view(flow.expr_of(g, frl[0][1]["args"][0], max_depth=20))
        idx_e = flow.strip_casts(flow.expr_of(g, tol[0][1]["args"][0], max_depth=20))
        cipher = str(flow.expr_of(g, enc[0][1]["args"][0]))
        ret = flow.strip_casts(flow.expr_of(g, {"cp": [0]}, max_depth=20))
        okx = ret[0] == "bin" and ret[1] == "BitXor" and any(flow.strip_casts(z) == idx_e for z in ret[2:4]) and any("from_le_bytes" in str(z) for z in ret[2:4])
        ok = buf == ebuf and buf == fbuf and cipher == "('arg', 1, 'cipher')" and okx and flow.dominates(dom, tol[0][0], enc[0][0]) and flow.dominates(dom, enc[0][0], frl[0][0]) and "('arg', 2)" in str(idx_e)
    ctx.ob("SHAPE-generator", "generate:AES(index)^index", ok, "value = AES_k(index) XOR index over the caller's index" if ok else "the generated value is not AES_k(to_le_bytes(index)) XOR index of the requested index (e.g. the block is not encrypted, another buffer is read back, or the feed-forward XOR is missing)", site_of(g, enc[0][0]) if enc else site_of(g))
    # the debug-build reuse guard, when compiled in, must see the same index and precede the encryption
    ui = [(bb, t) for bb, t in g.calls() if (F.callee(t)[0] or "").endswith("UsedSet::use_index")]
    if ui:
        okq = len(enc) == 1 and flow.dominates(dom, ui[0][0], enc[0][0]) and "('arg', 2)" in str(flow.expr_of(g, ui[0][1]["args"][1], max_depth=12))
        unw = any((F.callee(t)[0] or "").endswith("Result::<T, E>::unwrap") and "use_index" in str(flow.expr_of(g, t["args"][0], max_depth=12)) for bb, t in g.calls())
        ctx.ob("SHAPE-generator", "generate:reuse-guard", okq and unw, "use_index(index) is checked (and its error not ignored) before the block is produced" if okq and unw else "the repeated-index guard is bypassed, sees a different index or its verdict is ignored", site_of(g, ui[0][0]))


def random_cover(ctx, facts):
    """Vectorised values drawn from PRSS: element i of StdArray<T, W>::from_random must consume its own blocks of the
    u128 source array, and together the elements must use every block exactly once - a block that feeds two elements
    makes them correlated (randomness reuse at offset granularity), one that feeds none is wasted entropy."""
    from rules.C13 import ieval, NoEval
    ctx.rule("COVER-random: for every `impl FromRandom for StdArray<T, W>` that slices its source per element, the slice bounds evaluated for i in 0..W tile [0, SourceLength) exactly (disjoint, contiguous, complete)")
    n = 0
    for im in facts.impls:
        if not (im.get("trait") or "").endswith("FromRandom") or "StdArray<" not in im["self"]:
            continue
        m = re.search(r"StdArray<(.+), (\d+)>$", im["self"])
        sl = [it.get("usize") for it in im["items"] if it["name"] == "SourceLength"]
        if not m or not sl or sl[0] is None:
            continue
        W, SL = int(m.group(2)), int(sl[0])
        root = f"<{im['self']} as protocol::prss::crypto::FromRandom>::from_random"
        rng = None
        for b in facts.tree(root):
            for bb, t in b.calls():
                if (F.callee(t)[0] or "").endswith("Index::index"):
                    base = str(flow.expr_of(b, t["args"][0], max_depth=12))
                    r = flow.fold(flow.expr_of(b, t["args"][1], max_depth=20))
                    if ("'src'" in base or "('arg', 1)" in base or "upvar" in base) and r[0] == "agg" and isinstance(r[1], tuple) and r[1][0] == "std::ops::Range":
                        rng = (b, bb, r[2][0], r[2][1])
        short = re.sub(r"\b(\w+::)+", "", im["self"])
        if rng is None:
            if W == 1:
                continue
            ctx.ob("COVER-random", f"{short}:per-element-slices", False, "cannot find the per-element slice of the PRSS source array", None)
            continue
        n += 1
        b, bb, lo_e, hi_e = rng
        ctx.count(bodies=1)
        bad = None
        try:
            nxt = 0
            for i in range(W):
                env = {("arg", 2): i}
                lo, hi = ieval(lo_e, env), ieval(hi_e, env)
                if lo != nxt or hi <= lo:
                    bad = bad or (i, lo, hi, nxt)
                nxt = hi
            if bad is None and nxt != SL:
                bad = (W - 1, None, nxt, SL)
            ok = bad is None
            why = f"{W} elements x {SL // W} block(s) tile the {SL}-block source" if ok else (f"element {bad[0]} takes blocks {bad[1]}..{bad[2]} but the previous element ended at {bad[3]}: blocks are shared between neighbouring elements (correlated randomness) and others are never used" if bad[1] is not None else f"the elements use blocks 0..{bad[2]} of a {bad[3]}-block source")
        except NoEval as u:
            ok, why = False, f"cannot evaluate the slice bounds ({u})"
        ctx.ob("COVER-random", f"{short}:blocks-tile-source", ok, why, site_of(b, bb))
    ctx.floor("COVER-random", "sliced FromRandom impls for StdArray", n, 3)


# ---------------------------------------------------------------------------------------------
def upvar_sources(facts, parent, child_path):
    """{captured variable name of child: expression in parent} from the closure / coroutine aggregate in `parent`"""
    child = facts.bodies.get(child_path)
    out = {}
    if child is None:
        return out
    for bb, idx, s in parent.iter_assigns():
        r = s["r"]
        if r["k"] == "agg" and r.get("def") == child_path:
            for i, o in enumerate(r["ops"]):
                nm = flow.upvar_name(child, i)
                if nm:
                    out[nm] = flow.expr_of(parent, o, max_depth=10)
    return out


def seed_sides(ctx, facts):
    """Every shard of a helper must hold the leader's left seed as its left seed and the right one as its right one:
    exchanged, the shard's PRSS with its neighbours disagrees with theirs."""
    ctx.rule("SIDES-seed: SeededEndpointSetup keeps (left, right) through from_prss (generate().0 -> left, .1 -> right), from_seeds(left, right), left_seed()/right_seed() and setup() (left generator from left, right from right); the leader shard sends (left_seed, right_seed) in this order and the other shards build from_seeds(received.0, received.1)")
    P = "protocol::prss::seed::SeededEndpointSetup::"
    fs, ls, rs, su = (facts.bodies.get(P + n) for n in ("from_seeds", "left_seed", "right_seed", "setup"))
    if None in (fs, ls, rs, su):
        return ctx.missing("SIDES-seed", "SeededEndpointSetup::{from_seeds,left_seed,right_seed,setup}")
    ctx.count(bodies=4)
    ok1 = flow.expr_of(fs, {"cp": [0]}, max_depth=6) == ("agg", ("protocol::prss::seed::SeededEndpointSetup", "SeededEndpointSetup"), (("arg", 1), ("arg", 2)))
    names = [f["name"] for f in facts.adts["protocol::prss::seed::SeededEndpointSetup"]["variants"][0]["fields"]]
    ok1 = ok1 and names == ["left", "right"]
    ok2 = flow.expr_of(ls, {"cp": [0]}, max_depth=6) == ("arg", 1, "left") and flow.expr_of(rs, {"cp": [0]}, max_depth=6) == ("arg", 1, "right")
    ok3 = False
    for bb, idx, s in su.iter_assigns():
        r = s["r"]
        if r["k"] == "agg" and (r.get("adt") or "").endswith("prss::EndpointInner"):
            fn = [f["name"] for f in facts.adts[r["adt"]]["variants"][0]["fields"]]
            ops = dict(zip(fn, (flow.expr_of(su, o, max_depth=6) for o in r["ops"])))
            ok3 = ("arg", 1, "left") in C09walk(ops.get("left")) and ("arg", 1, "right") in C09walk(ops.get("right")) and ("arg", 1, "right") not in C09walk(ops.get("left"))
    ok = ok1 and ok2 and ok3
    ctx.ob("SIDES-seed", "setup-keeps-sides", ok, "left stays left and right stays right through from_seeds / accessors / setup" if ok else "SeededEndpointSetup exchanges its left and right seed somewhere between construction and the generators", site_of(su))
    root = "helpers::cross_shard_prss::gen_and_distribute"
    tree = facts.tree(root)
    sendb = next((b for b in tree if [1 for bb, t in b.calls() if (F.callee(t)[0] or "").endswith("::send")]), None)
    mainb = next((b for b in tree if flow.find_calls(b, re.compile(r"SeededEndpointSetup::from_seeds$"))), None)
    if sendb is None or mainb is None:
        return ctx.missing("SIDES-seed", "gen_and_distribute (send / from_seeds)")
    ctx.count(bodies=2)
    sc = [(bb, t) for bb, t in sendb.calls() if (F.callee(t)[0] or "").endswith("::send")][0]
    tup = flow.expr_of(sendb, sc[1]["args"][2], max_depth=6)
    oks = False
    if tup[0] == "agg" and tup[1] == "tuple" and len(tup[2]) == 2:
        # resolve the captured variables through the enclosing closures
        def resolve(e, body):
            if e[0] == "upvar":
                for parent in tree:
                    srcs = upvar_sources(facts, parent, body.path)
                    if e[1] in srcs:
                        return resolve(srcs[e[1]], parent) if srcs[e[1]][0] == "upvar" else srcs[e[1]]
            return e
        def pick(e):
            # .k of a tuple aggregate
            while e[0] == "proj" and e[1][0] == "agg" and e[1][1] == "tuple" and len(e) == 3 and str(e[2]).isdigit():
                e = e[1][2][int(e[2])]
            return e
        a, c = (str(pick(resolve(x, sendb))) for x in tup[2])
        oks = "left_seed" in a and "right_seed" not in a and "right_seed" in c and "left_seed" not in c
    ctx.ob("SIDES-seed", "leader-sends-(left, right)", oks, "send(.., (left_seed, right_seed))" if oks else "the leader does not send (left seed, right seed) in this order: the other shards' left/right generators are exchanged", site_of(sendb, sc[0]))
    fc = flow.find_calls(mainb, re.compile(r"SeededEndpointSetup::from_seeds$"))[0]
    a0, a1 = (flow.expr_of(mainb, x, max_depth=10) for x in fc[1]["args"])
    okr = a0[0] == "proj" and a1[0] == "proj" and a0[1] == a1[1] and str(a0[-1]) == "0" and str(a1[-1]) == "1"
    ctx.ob("SIDES-seed", "shards-build-from-(received.0, received.1)", okr, "from_seeds(received.0, received.1)" if okr else "a non-leader shard does not take (left, right) = (first, second) of what the leader sent", site_of(mainb, fc[0]))


def C09walk(e):
    out = []
    if isinstance(e, tuple) and e and isinstance(e[0], str):
        out.append(e)
        for x in e[1:]:
            if isinstance(x, tuple):
                if x and isinstance(x[0], str):
                    out.extend(C09walk(x))
                else:
                    for y in x:
                        out.extend(C09walk(y))
    return out
