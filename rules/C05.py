"""C05  Shuffle outputs a re-shared permutation of its input; tampering is detected.

Decided statically (detection wiring only; DESIGN.md §3/C05):
  ORDER-shuffle   compute_and_add_tags < h*_shuffle_for_shard < verify_shuffle (awaited, `?`) < truncate_tags,
                  on the same table (rules/malsec.py).
  GUARD-hash      every hash comparison named in the protocol is present in h1_verify / h2_verify, compares a
                  locally computed hash with a received one, and gates Ok; h3 sends its three hashes.
  FIELDS          join_fields / split_fields of IndistinguishableHybridReport write and read the same field
                  types in the same order (both report layouts); split_row_and_tag cuts the row at
                  [0..TAG_OFFSET] and the tag at [TAG_OFFSET..]; TAG_OFFSET of every MaliciousShuffleShare
                  equals the byte size of the share and TAG_OFFSET*8 + 32 == BITS of ShareAndTag.
  TAG             compute_and_add_tags and compute_and_hash_tags use the same MAC formula shape
                  (sum of row_entry * key over zip(entries, keys)).
The multiset / permutation property and consistency of the output sharing are numerical: not decided.
"""
import re
from vlib import facts as F, flow
from vlib.core import site_of
from rules import malsec

LEVEL = "other"
EXPLANATION = "C05: verify-before-release ordering and hash-comparison guards of the malicious shuffle; field-order symmetry of the report packing; tag offset constants."


def run(ctx):
    facts = ctx.facts()
    malsec.shuffle_order(ctx, facts, "ORDER-shuffle")
    malsec.hash_guards(ctx, facts, "GUARD-hash")
    malsec.shuffle_verify_path(ctx, facts, "PATH-verify")
    malsec.keys_barrier(ctx, facts, "KEYS-barrier")     # the linear MAC protects only while its keys are secret: no key share leaves a helper before the others' shuffle messages are fixed
    malsec.hash_cover(ctx, facts)       # comparing hashes checks exactly what the hash absorbs
    from rules import shufalg
    shufalg.algebra(ctx, facts, "ALGEBRA")
    shufalg.edges(ctx, facts, "TRANSFER")
    shufalg.tags(ctx, facts, "TAG")
    shufalg.tag_generation(ctx, facts, "TAG")
    from rules import C19
    C19.core(ctx, facts)               # every mask-and-permute round moves rows with reshard_iter: nothing lost, duplicated or filed under the wrong origin
    from rules import C01
    C01.collective_stages(ctx, facts, only=r"::shuffle::")     # a shard with no rows of its own still receives rows in every resharding step
    fields(ctx, facts)
    tag_consts(ctx, facts)
    key_cover(ctx, facts)
    ctx.assume("the permutation/multiset property of the shuffle is not decided (numerical)")


def ga_seq(b, pat):
    out = []
    for bb, t in sorted(flow.find_calls(b, re.compile(pat)), key=lambda x: x[0]):
        ga = F.callee(t)[2].get("ga") or []
        out.append(ga[-1] if ga else "?")
    return out


def fields(ctx, facts):
    ctx.rule("FIELDS: for each IndistinguishableHybridReport layout, the sequence of field types written by join_fields equals the sequence read by split_fields; to_share/from_share style conversions use them pairwise")
    n = 0
    for root in sorted(facts.by_root):
        if not re.search(r"report::hybrid::IndistinguishableHybridReport::<.*>::join_fields$", root):
            continue
        sroot = root[:-len("join_fields")] + "split_fields"
        jb, sb = facts.bodies.get(root), facts.bodies.get(sroot)
        if jb is None or sb is None:
            ctx.missing("FIELDS", sroot)
            continue
        n += 1
        ctx.count(bodies=2)
        w = ga_seq(jb, r"BooleanArrayWriter::<'a>::write$|BooleanArrayWriter::<'_>::write$")
        r = ga_seq(sb, r"BooleanArrayReader::<'a>::read$|BooleanArrayReader::<'_>::read$")
        ok = bool(w) and w == r
        ctx.ob("FIELDS", f"order:{root}", ok, f"written {w} == read {r}" if ok else f"join_fields writes {w} but split_fields reads {r}: fields are swapped / lost after the shuffle", site_of(jb))
        # writer chain: each write consumes the previous writer (no field written at a stale offset)
        wc = sorted(flow.find_calls(jb, re.compile(r"BooleanArrayWriter::<'.>::write$")), key=lambda x: x[0])
        chain_ok = True
        for i, (bb, t) in enumerate(wc):
            e = flow.expr_of(jb, t["args"][0])
            depth = len([c for c in malsec.walk_calls(e) if c[1].endswith("::write")])
            if depth != i:
                chain_ok = False
        ctx.ob("FIELDS", f"writer-chain:{root}", chain_ok, "writes are chained (each continues at the previous offset)" if chain_ok else "a write does not continue from the previous writer: fields overlap", site_of(jb))
        rc = sorted(flow.find_calls(sb, re.compile(r"BooleanArrayReader::<'.>::read$")), key=lambda x: x[0])
        chain_ok = True
        for i, (bb, t) in enumerate(rc):
            e = flow.expr_of(sb, t["args"][0])
            depth = len([c for c in malsec.walk_calls(e) if c[1].endswith("::read")])
            if depth != i:
                chain_ok = False
        ctx.ob("FIELDS", f"reader-chain:{root}", chain_ok, "reads are chained" if chain_ok else "a read does not continue from the previous reader: fields overlap", site_of(sb))
    ctx.floor("FIELDS", "report layouts with join/split", n, 2)
    # split_row_and_tag
    b = None
    for p, body in facts.bodies.items():
        if p.endswith("shuffle::malicious::split_row_and_tag"):
            b = body
    if b is None:
        return ctx.missing("FIELDS", "split_row_and_tag")
    rng, rfrom = [], []
    for bb, idx, s in b.iter_assigns():
        r = s["r"]
        if r["k"] == "agg" and r.get("adt") == "std::ops::Range":
            rng.append([flow.expr_of(b, o) for o in r["ops"]])
        if r["k"] == "agg" and r.get("adt") == "std::ops::RangeFrom":
            rfrom.append([flow.expr_of(b, o) for o in r["ops"]])
    ok = len(rng) == 1 and len(rfrom) == 1 and rng[0][0] == ("const", 0) and "TAG_OFFSET" in str(rng[0][1]) and "TAG_OFFSET" in str(rfrom[0][0])
    if not ok and not rng and not rfrom:
        # `let (row, tag) = buf.as_slice().split_at(S::TAG_OFFSET)`: .0 feeds the share, .1 the tag
        sp = [(bb, t) for bb, t in b.calls() if re.search(r"<impl \[T\]>::split_at$", F.callee(t)[0] or "")]
        if len(sp) == 1 and "TAG_OFFSET" in str(flow.expr_of(b, sp[0][1]["args"][1])):
            des = [(F.callee(t)[2].get("self") or str(F.callee(t)[2].get("ga")), str(flow.expr_of(b, t["args"][0], max_depth=10))) for bb, t in b.calls() if (F.callee(t)[0] or "").endswith("Serializable::deserialize")]
            halves = {("tag" if "Gf32Bit" in str(ty) else "row"): re.search(r"split_at'.*?\), (\d)\)", ex) for ty, ex in des}
            ok = len(des) == 2 and halves.get("row") is not None and halves.get("tag") is not None and halves["row"].group(1) == "0" and halves["tag"].group(1) == "1"
    ctx.ob("FIELDS", "split_row_and_tag:cuts", ok, "row = buf[0..TAG_OFFSET], tag = buf[TAG_OFFSET..]" if ok else f"row/tag are cut at {rng} / {rfrom}", site_of(b))


def tag_consts(ctx, facts):
    ctx.rule("TAG-const: for every `impl MaliciousShuffleShare for T`: TAG_OFFSET == byte size of T's serialization and 8*TAG_OFFSET + 32 == BITS of ShareAndTag")
    tr = "protocol::ipa_prf::shuffle::sharded::MaliciousShuffleShare"
    sizes = {}
    for im in facts.impls:
        if im.get("trait") == "ff::Serializable" and not im["generic"]:
            for it in im["items"]:
                if it["name"] == "Size" and "usize" in it:
                    sizes[im["self"]] = int(it["usize"])
    n = 0
    for im in facts.impls:
        if im.get("trait") != tr or im["generic"]:
            continue
        t = im["self"]
        n += 1
        off = facts.const_val(f"<{t} as {tr}>::TAG_OFFSET")
        sat = [it.get("ty") for it in im["items"] if it["name"] == "ShareAndTag"]
        bits_sat = facts.const_val(f"<{sat[0]} as secret_sharing::SharedValue>::BITS") if sat else None
        ok = off is not None and sizes.get(t) == off and bits_sat == off * 8 + 32
        ctx.ob("TAG-const", F.short(t, 1), ok, f"TAG_OFFSET={off}, size={sizes.get(t)}, ShareAndTag::BITS={bits_sat}" if ok else f"TAG_OFFSET={off} vs serialized size {sizes.get(t)} / ShareAndTag BITS {bits_sat}: tag is read from the wrong offset")
    ctx.floor("TAG-const", "impl MaliciousShuffleShare", n, 3)


# ---------------------------------------------------------------------------------------------
class NoEval(Exception):
    pass


def ieval(e, bits):
    """integer evaluation of the key-count expression with `ShuffleShare::BITS := bits`"""
    e = flow.strip_casts(e)
    k = e[0]
    if k == "const":
        if isinstance(e[1], int):
            return e[1]
        if str(e[1]).endswith("::BITS"):
            n = str(e[1])
            if "Gf32Bit" in n or "gf32" in n.lower():
                return 32
            return bits
        raise NoEval(str(e[1]))
    if k == "proj":
        return ieval(e[1], bits)
    if k == "call":
        fn = e[1]
        if re.search(r"(TryFrom::try_from|TryInto::try_into|From::from|Into::into|Result::<T, E>::(unwrap|expect)|Option::<T>::(unwrap|expect))$", fn):
            return ieval(e[2][0], bits)
        if fn.endswith("::div_ceil"):
            a, b = ieval(e[2][0], bits), ieval(e[2][1], bits)
            return -(-a // b)
        if fn.endswith("::next_multiple_of"):
            a, b = ieval(e[2][0], bits), ieval(e[2][1], bits)
            return -(-a // b) * b
        if re.search(r"cmp::max$|Ord::max$", fn):
            return max(ieval(x, bits) for x in e[2])
        if re.search(r"cmp::min$|Ord::min$", fn):
            return min(ieval(x, bits) for x in e[2])
        raise NoEval(fn)
    if k == "bin":
        a, b = ieval(e[2], bits), ieval(e[3], bits)
        op = e[1].replace("WithOverflow", "")
        if op == "Add":
            return a + b
        if op == "Sub":
            return a - b
        if op == "Mul":
            return a * b
        if op == "Div":
            return a // b
        if op == "Rem":
            return a % b
        if op == "Shr":
            return a >> b
        if op == "Shl":
            return a << b
        raise NoEval(op)
    raise NoEval(str(e)[:60])


def key_cover(ctx, facts):
    ctx.rule("KEYS-cover: the number of MAC keys requested by malicious_sharded_shuffle, evaluated as a function of the row width for every width 1..=512, equals the number of 32-bit words of the row, ceil(BITS/32) (fewer: the last word is covered by no key and can be altered undetected; more: out-of-bounds column)")
    b = malsec.async_body(facts, "protocol::ipa_prf::shuffle::malicious::malicious_sharded_shuffle")
    if b is None:
        ctx.missing("KEYS-cover", "malicious_sharded_shuffle")
        return
    ctx.count(bodies=1)
    cs = [(bb, t) for bb, t in b.calls() if (F.callee(t)[0] or "").endswith("shuffle::malicious::setup_keys")]
    if len(cs) != 1:
        ctx.missing("KEYS-cover", "single setup_keys call")
        return
    e = flow.expr_of(b, cs[0][1]["args"][1], max_depth=40)
    bad = None
    try:
        fails = [(bits, ieval(e, bits)) for bits in range(1, 513) if ieval(e, bits) != -(-bits // 32)]
        if fails:
            # report a realistic width first (112-bit rows exist in the code base), else the smallest failing one
            bad = next((f for f in fails if f[0] == 112), fails[0])
        ok = bad is None
        why = "amount_of_keys = ceil(BITS / 32) for every row width" if ok else f"for a row of {bad[0]} bits {bad[1]} keys are requested but the row has {-(-bad[0] // 32)} 32-bit words: the trailing bits of such rows are not covered by the MAC (tampering with them is not detected)"
    except NoEval as u:
        ok, why = False, f"cannot evaluate the key-count expression ({u})"
    ctx.ob("KEYS-cover", "amount_of_keys", ok, why, site_of(b, cs[0][0]))
    # the same key vector reaches tagging and verification
    uses = {}
    for bb, t in b.calls():
        fn = (F.callee(t)[0] or "").split("::")[-1]
        if fn in ("compute_and_add_tags", "verify_shuffle"):
            for a in t["args"]:
                if "setup_keys" in str(flow.expr_of(b, a, max_depth=40)):
                    uses[fn] = True
    oku = uses.get("compute_and_add_tags") and uses.get("verify_shuffle")
    ctx.ob("KEYS-cover", "same-keys-for-tag-and-verify", bool(oku), "the keys from setup_keys are used both to tag and to verify" if oku else "tagging and verification do not both use the keys from setup_keys", site_of(b))
