"""C10  Encrypted reports decrypt only if untouched; bad input never crashes a helper.

Decided statically (binding + totality guards; DESIGN.md §3/C10):
  FIELDS-aad   to_enc_bytes of HybridConversionInfo / HybridImpressionInfo feeds every field of the struct plus
               DOMAIN and HELPER_ORIGIN into the returned buffer (changing any associated metadata changes the
               HPKE info, so decryption fails).
  BIND         both `decrypt` functions: the info bytes passed to BOTH open_in_place calls come from
               to_enc_bytes of the very info value stored in the returned report; the private key is looked up
               with the record's key id and a miss returns Err(NoSuchKey); both ciphertexts are opened (`?`)
               before the report is built.
  BOUNDS       totality of the untrusted path (EncryptedHybridReport::{try_from, from_bytes},
               Encrypted*Report::*, Hybrid*Info::from_bytes): every slice index / range / bounds-check assert /
               unwrap / explicit panic on input-derived data is implied by a dominating length guard on the same
               buffer, by the constructor invariant `data.len() >= INFO_OFFSET` (established at every constructor
               site; all accessor offsets <= INFO_OFFSET through the const definitions), or by a recorded
               type-level discharge.
  SIBLING      the Impression and Conversion variants have the same guard shape.
"""
import re
from vlib import facts as F, flow, bounds
from vlib.core import site_of
from rules import malsec

LEVEL = "other"
EXPLANATION = "C10: field-to-AAD flow census, AAD/key binding dataflow in decrypt, bounds/totality analysis of the report parsers with linear symbolic length facts."

UNTRUSTED = re.compile(r"^(report::hybrid::EncryptedHybridReport::<BK, V>::(from_bytes|decrypt|key_id|encap_key_mk|mk_ciphertext|encap_key_btt|btt_ciphertext)"
                       r"|<report::hybrid::EncryptedHybridReport<BK, V> as std::convert::TryFrom<bytes::Bytes>>::try_from"
                       r"|<report::hybrid::EncryptedHybridReport<BK, V> as report::hybrid::UniqueBytes>::unique_bytes"
                       r"|report::hybrid::EncryptedHybrid(Impression|Conversion)Report::<\w+>::(from_bytes|decrypt|key_id|encap_key_mk|mk_ciphertext|encap_key_btt|btt_ciphertext)"
                       r"|report::hybrid_info::Hybrid(Impression|Conversion)Info::from_bytes)$")
OWNERS = ["report::hybrid::EncryptedHybridImpressionReport", "report::hybrid::EncryptedHybridConversionReport"]


def run(ctx):
    facts = ctx.facts()
    fields_aad(ctx, facts)
    bind(ctx, facts)
    key_lookup(ctx, facts)
    totality(ctx, facts)
    from rules import C17
    C17.parse_errors(ctx, facts)       # a record that fails to parse surfaces as an error instead of being skipped or crashing
    C17.items_flushed(ctx, facts)
    C17.deferred_error_first(ctx, facts)
    ctx.assume("HPKE / AES-GCM authenticity is the library's; GenericArray::from_slice lengths agree with the accessor ranges because both are the same typenum sums (type-level, not re-derived)")


# ---------------------------------------------------------------------------------------------
WRITE_RX = re.compile(r"Vec::<T, A>::(push|extend_from_slice|extend|insert|append)$")


def buffer_writes(facts, b, depth=1):
    """[(body, block, terminator, value expression)] of the writes into a byte buffer made by `b`, in block order; a call
    to a method of the same module that is handed `self` and the `&mut Vec<u8>` is replaced by that method's own writes
    (its expressions name the same struct's fields through its own `self`)."""
    dbg = bounds.debug_only_blocks(b)
    out = []
    dom = b.dominators()
    # execution order, not block numbering: along a straight line each block has one more dominator than the one before
    for bb, t in sorted(b.calls(), key=lambda x: (len(dom.get(x[0], ())), x[0])):
        if bb in dbg:
            continue
        fn = F.callee(t)[0] or ""
        if WRITE_RX.search(fn):
            out.append((b, bb, t, flow.expr_of(b, t["args"][-1])))
        elif depth > 0 and fn in facts.bodies and fn.rsplit("::", 2)[0] == b.path.rsplit("::", 2)[0] and len(t["args"]) >= 2:
            a0 = flow.strip_casts(flow.expr_of(b, t["args"][0], max_depth=4))
            tys = [b.local_ty(F.op_local(a)) or "" for a in t["args"][1:] if F.op_local(a) is not None]
            if a0[:2] == ("arg", 1) and any("Vec<u8>" in ty for ty in tys):
                out += buffer_writes(facts, facts.bodies[fn], depth - 1)
    return out


def fields_aad(ctx, facts):
    ctx.rule("FIELDS-aad: every field of Hybrid{Conversion,Impression}Info and the constants DOMAIN, HELPER_ORIGIN flow into the Vec returned by to_enc_bytes")
    for ty in ("HybridConversionInfo", "HybridImpressionInfo"):
        adt = facts.adts.get("report::hybrid_info::" + ty)
        b = facts.bodies.get(f"report::hybrid_info::{ty}::to_enc_bytes")
        if adt is None or b is None:
            ctx.missing("FIELDS-aad", ty + "::to_enc_bytes")
            continue
        ctx.count(bodies=1)
        fields = [f["name"] for f in adt["variants"][0]["fields"]]
        # values written into the buffer: arguments of Vec::push / extend_from_slice whose receiver is the returned Vec
        written = set()
        written_exprs = []
        consts = set()
        for wb_, bb, t, e in buffer_writes(facts, b):
            if True:
                written |= flow.field_names_in(e)
                written_exprs.append(e)
                s = str(e)
                for c in ("DOMAIN", "HELPER_ORIGIN"):
                    if c in s:
                        consts.add(c)
                # constant strings appear as promoted slices: check the operand constants
                for a in t["args"]:
                    pass
        # DOMAIN / HELPER_ORIGIN are `&str` consts: look at raw constant operands too
        dbg = bounds.debug_only_blocks(b)
        for bb, t in b.calls():
            if bb in dbg:
                continue
            fn = F.callee(t)[0] or ""
            if re.search(r"Vec::<T, A>::(push|extend_from_slice|extend|insert|append)$", fn):
                e = str(flow.expr_of(b, t["args"][-1]))
                for c in ("DOMAIN", "HELPER_ORIGIN"):
                    if re.search(r"(hybrid_info::|hybrid::)" + c, e):
                        consts.add(c)
        for f in fields:
            ok = f in written
            ctx.ob("FIELDS-aad", f"{ty}.{f}", ok, "bound into the HPKE info" if ok else f"field `{f}` is not part of the HPKE info: it can be altered without decryption failing", site_of(b))
            if ok:
                bad = [x for x in (lossy_step(e) for e in written_exprs if f in flow.field_names_in(e)) if x]
                exact = any(lossy_step(e) is None for e in written_exprs if f in flow.field_names_in(e))
                ctx.ob("FIELDS-aad", f"{ty}.{f}:verbatim", exact, "the field's bytes enter the info through byte-preserving conversions only" if exact else f"field `{f}` enters the HPKE info only through `{bad[0]}`, which is not one of the byte-preserving conversions (as_bytes / to_be_bytes / widening): distinct field values can give the same info, so a changed field still decrypts", site_of(b))
        for c in ("DOMAIN", "HELPER_ORIGIN"):
            ctx.ob("FIELDS-aad", f"{ty}.{c}", c in consts, "domain separation constant is part of the info", site_of(b))


VERBATIM = re.compile(r"(::as_bytes|::to_be_bytes|::to_le_bytes|::as_str|Deref::deref|AsRef::as_ref|::as_slice|Clone::clone|Borrow::borrow|From::from|Into::into|::as_ref)$")


def lossy_step(e):
    """first node of the expression that may map two field values to the same bytes (None = byte-preserving)"""
    k = e[0]
    if k in ("const", "static", "arg", "upvar", "place"):
        return None
    if k == "cast":
        if not str(e[1]).startswith(("&", "*")):
            return "`as %s` cast" % e[1]     # numeric `as` may truncate; the lossless idiom in this code base is From
        return lossy_step(e[2])
    if k == "proj":
        return lossy_step(e[1])
    if k == "ref":
        return lossy_step(e[-1])
    if k == "call":
        if not VERBATIM.search(e[1]):
            return e[1]
        for a in e[2]:
            x = lossy_step(a)
            if x:
                return x
        return None
    if k == "bin":
        return "operator " + str(e[1])
    if k == "un":
        return "operator " + str(e[1])
    return k


# ---------------------------------------------------------------------------------------------
def key_lookup(ctx, facts):
    """The key identifier of a record is not covered by HPKE; the only thing that makes a wrong key id fail is the
    registry answering None / another key for it.  Every registry lookup therefore has to be the indexed one."""
    ctx.rule("KEY-lookup: every `private_key` / `public_key` impl of the key registries returns Option::map(self.key(key_id), projection) - its only source of keys is the lookup by the requested id - and KeyRegistry::key returns Some(&keys[id]) exactly on the edge id < keys.len()")
    n = 0
    for p, b in sorted(facts.bodies.items()):
        if not (p.startswith("<hpke::registry::KeyRegistry<") and re.search(r"Registry>::(private_key|public_key)$", p)):
            continue
        n += 1
        ctx.count(bodies=1)
        e = flow.strip_casts(flow.expr_of(b, {"cp": [0]}, max_depth=20))
        inner = e[2][0] if e[0] == "call" and e[1].endswith("Option::<T>::map") and e[2] else e
        ok = inner == ("call", "hpke::registry::KeyRegistry::<K>::key", (("arg", 1), ("arg", 2)))
        somes = [bb for bb, idx, st in b.iter_assigns() if st["r"]["k"] == "agg" and st["r"].get("adt") == "std::option::Option" and st["r"].get("vn") == "Some"]
        ok = ok and not somes
        name = re.sub(r"\b(\w+::)+", "", p)
        ctx.ob("KEY-lookup", name, ok, "the key is the one stored under the requested id" if ok else "this registry can hand out a key that was not looked up by the requested key id (e.g. the only key for every id): a record whose key-id byte was altered still decrypts, although that byte is not authenticated by HPKE", site_of(b, somes[0]) if somes else site_of(b))
    ctx.floor("KEY-lookup", "registry lookup impls", n, 4)
    k = facts.bodies.get("hpke::registry::KeyRegistry::<K>::key")
    if k is None:
        ctx.missing("KEY-lookup", "KeyRegistry::key")
        return
    ctx.count(bodies=1)
    dom = k.dominators()
    lt = [(tgt, f) for tgt, f in flow.edge_guards(k) if f[0] == "Lt" and flow.strip_casts(f[1]) == ("arg", 2) and "::len" in str(f[2]) and "keys" in str(f[2])]
    somes = [(bb, flow.expr_of(k, st["r"]["ops"][0], max_depth=20)) for bb, idx, st in k.iter_assigns() if st["r"]["k"] == "agg" and st["r"].get("adt") == "std::option::Option" and st["r"].get("vn") == "Some"]
    ok = bool(lt) and bool(somes) and all(flow.dominates(dom, lt[0][0], bb) for bb, e in somes)
    idx_ok = False
    for bb in k.live_blocks():
        t = k.term(bb)
        if t["k"] == "assert" and t["ak"] == "BoundsCheck":
            idx_ok = flow.strip_casts(flow.expr_of(k, t["ops"][1])) == ("arg", 2) or "('arg', 2)" in str(flow.expr_of(k, t["ops"][1]))
    for bb, t in k.calls():
        if (F.callee(t)[0] or "").endswith("Index::index") or re.search(r"<impl \[T\]>::get$", F.callee(t)[0] or ""):
            idx_ok = idx_ok or "('arg', 2)" in str(flow.expr_of(k, t["args"][1]))
    if not ok:
        # `self.keys.get(usize::from(key_id))`: the library's bounds-checked lookup is the same function
        r_ = flow.strip_casts(flow.expr_of(k, {"cp": [0]}, max_depth=10))
        if r_[0] == "call" and re.search(r"(<impl \[T\]>|Vec::<T, A>)::get$", r_[1]) and "keys" in str(r_[2][0]) and flow.strip_casts(r_[2][1]) in (("arg", 2), ("call", "std::convert::From::from", (("arg", 2),))) and not somes:
            ok = idx_ok = True
    ctx.ob("KEY-lookup", "KeyRegistry::key:indexed-by-id", ok and idx_ok, "Some(&keys[id]) iff id < len" if ok and idx_ok else "KeyRegistry::key does not return exactly the key stored at the requested index (or returns Some outside id < len)", site_of(k))


# ---------------------------------------------------------------------------------------------
def bind(ctx, facts):
    ctx.rule("BIND: in Encrypted{Impression,Conversion}Report::decrypt both open_in_place calls use to_enc_bytes() of the parsed info that is returned in the report, the key is private_key(self.key_id()) with NoSuchKey on a miss, and both opens are `?`-propagated before the report aggregate")
    for kind, rep in (("Impression", "HybridImpressionReport"), ("Conversion", "HybridConversionReport")):
        bs = [b for p, b in facts.bodies.items() if re.match(r"^report::hybrid::EncryptedHybrid%sReport::<\w+>::decrypt$" % kind, p)]
        if not bs:
            ctx.missing("BIND", f"EncryptedHybrid{kind}Report::decrypt")
            continue
        b = bs[0]
        ctx.count(bodies=1)
        dom = b.dominators()
        opens = flow.find_calls(b, re.compile(r"hpke::open_in_place$"))
        ctx.ob("BIND", f"{kind}:two-opens", len(opens) == 2, f"{len(opens)} open_in_place calls (match key and value/breakdown)", site_of(b))
        infos = set()
        for k, (bb, t) in enumerate(opens):
            e = flow.expr_of(b, t["args"][3])
            cs = [c for c in malsec.walk_calls(e)]
            from_enc = any(c[1].endswith("to_enc_bytes") for c in cs)
            from_parsed = any(c[1].endswith("Info::from_bytes") for c in cs)
            ctx.ob("BIND", f"{kind}:open#{k}:info-is-parsed-info", from_enc and from_parsed, "AAD = parsed_info.to_enc_bytes()" if from_enc and from_parsed else f"open_in_place #{k} is given an info that is not to_enc_bytes() of the record's parsed info (metadata not bound to this ciphertext)", site_of(b, bb))
            infos.add(str(e))
            q = flow.question_mark(b, t["d"][0])
            ctx.ob("BIND", f"{kind}:open#{k}:propagated", q is not None, "decryption failure is returned as an error" if q else "the Result of open_in_place is not propagated", site_of(b, bb))
            ek = str(flow.expr_of(b, t["args"][1]))
            ctx.ob("BIND", f"{kind}:open#{k}:encap-key", ("encap_key_mk" in ek) if k == 0 else ("encap_key_btt" in ek), "uses the matching encapsulated key", site_of(b, bb))
        ctx.ob("BIND", f"{kind}:same-info-for-both", len(infos) == 1, "both ciphertexts are opened under the same info" if len(infos) == 1 else "the two ciphertexts are opened under different info values", site_of(b))
        # report aggregate: info field is the parsed info; dominated by both opens' Continue edges
        for bb, idx, s in b.iter_assigns():
            r = s["r"]
            if r["k"] == "agg" and r.get("adt", "").endswith(rep):
                e = str(flow.expr_of(b, r["ops"][-1]))
                ctx.ob("BIND", f"{kind}:returned-info-is-parsed", "Info::from_bytes" in e, "the info returned is the one that was authenticated" if "Info::from_bytes" in e else "the report carries an info value that was not the one bound as AAD", site_of(b, bb, idx))
                okd = True
                for ob_, t in opens:
                    q = flow.question_mark(b, t["d"][0])
                    if q is None or not flow.dominates(dom, q[1], bb):
                        okd = False
                ctx.ob("BIND", f"{kind}:opens-before-report", okd, "the report is built only after both ciphertexts authenticated", site_of(b, bb, idx))
        pk = flow.find_calls(b, re.compile(r"PrivateKeyRegistry::private_key$"))
        okk = False
        if pk:
            e = str(flow.expr_of(b, pk[0][1]["args"][1]))
            okk = "key_id" in e
            has_err = any(s["r"]["k"] == "agg" and s["r"].get("vn") == "NoSuchKey" for _, _, s in b.iter_assigns())
            okm = has_err and flow.question_mark(b, _ok_or_dest(b, pk[0][1]["d"][0])) is not None
            if has_err and not okm:
                # `let Some(sk) = registry.private_key(id) else { return Err(NoSuchKey(id).into()) }`: on the None arm of the
                # lookup no successful return is reachable, and the error is built there
                from rules.C17 import variant_arms
                oks_ = set(malsec.ok_blocks(b))
                for sw_, pl_, arms_ in variant_arms(b, "std::option::Option", facts):
                    if "private_key" in str(flow.expr_of(b, {"cp": pl_}, max_depth=6)) and "None" in arms_ and arms_.get("Some") != arms_["None"]:
                        none_reach = b.reachable(arms_["None"])
                        errs_here = any(s_["r"]["k"] == "agg" and s_["r"].get("vn") == "NoSuchKey" and bb_ in none_reach for bb_, _, s_ in b.iter_assigns())
                        okm = errs_here and not (oks_ & none_reach)
            ctx.ob("BIND", f"{kind}:missing-key-is-error", okm, "an unknown key id yields Err(NoSuchKey)" if okm else "a missing key does not produce an error", site_of(b, pk[0][0]))
        ctx.ob("BIND", f"{kind}:key-by-record-key-id", okk, "the private key is selected by the record's key id", site_of(b))


def _ok_or_dest(b, opt_local):
    for bb, t in b.calls():
        if (F.callee(t)[0] or "").endswith("Option::<T>::ok_or") and F.op_local(t["args"][0]) in flow.local_aliases_fwd(b, opt_local):
            return t["d"][0]
    return opt_local


# ---------------------------------------------------------------------------------------------
def constructor_invariants(ctx, facts, order):
    """owner ADT -> Lin K such that len(self.data) >= K at every constructor site"""
    inv = {}
    for owner in OWNERS:
        ks = []
        n = 0
        for b in facts.non_test_bodies():
            if not b.file.startswith("ipa-core/"):
                continue
            for bb, idx, s in b.iter_assigns():
                r = s["r"]
                if r["k"] == "agg" and r.get("adt") == owner:
                    if re.match(r"^<.* as std::clone::Clone>::clone$", b.root):
                        continue   # derive(Clone): copies an existing (already checked) value
                    n += 1
                    base = bounds.buffer_base(b, r["ops"][0])
                    dom = b.dominators()
                    best = None
                    for (edge, gbase, k, kind, gbb) in bounds.guard_facts(b, order):
                        if gbase == base and flow.dominates(dom, edge, bb) and not (bounds.mutators(b, base) & b.reachable(edge) and any(bb in b.reachable(m) for m in bounds.mutators(b, base) if m in b.reachable(edge))):
                            best = k
                    ok = best is not None
                    ctx.ob("BOUNDS", f"ctor-invariant:{F.short(owner,1)}@{b.root}", ok, f"constructed only under data.len() >= {best!r}" if ok else "the report struct is constructed without a minimum-length check on its bytes", site_of(b, bb, idx))
                    if ok:
                        ks.append(best)
        if n and len(ks) == n:
            # weakest bound
            inv[owner] = ks[0]
    return inv


def returned_slice_len(facts, fn, depth=0):
    """constant length of the slice returned by accessor `fn` (data[a..b] with constant a, b), following
    delegating wrappers; None if unknown"""
    b = facts.bodies.get(fn)
    if b is None or depth > 3:
        return None
    lens = []
    for bb in b.live_blocks():
        for idx, s in enumerate(b.stmts(bb)):
            if "p" in s and s["p"] == [0]:
                e = flow.expr_of(b, s["r"].get("o") or {"cp": s["r"].get("p", [0])}) if s["r"]["k"] in ("use", "ref", "cfd") else None
                if e is None:
                    return None
                lens.append(_slice_len(facts, e, depth))
        t = b.term(bb)
        if t["k"] == "call" and t["d"] == [0]:
            lens.append(returned_slice_len(facts, F.callee(t)[0], depth + 1))
    if not lens or any(x is None for x in lens):
        return None
    return min(lens)


def _slice_len(facts, e, depth):
    if e[0] == "call" and e[1].endswith("Index::index"):
        ie = e[2][1]
        if ie[0] == "agg" and ie[1] == ("std::ops::Range", "Range"):
            lo, hi = bounds.lin_of(ie[2][0]), bounds.lin_of(ie[2][1])
            if lo.sym is None and hi.sym is None:
                return hi.off - lo.off
        return None
    if e[0] == "call":
        return returned_slice_len(facts, e[1], depth + 1)
    return None


def totality(ctx, facts):
    ctx.rule("BOUNDS: each panic-capable site in the untrusted parsing closure is discharged by a dominating length guard on the same buffer (no shrinking call in between), the owner's constructor invariant, `position()` < len, or a type-level discharge; otherwise it is a crash on malformed input")
    order = bounds.ConstOrder(facts)
    inv = constructor_invariants(ctx, facts, order)
    nsites = 0
    shapes = {}
    for b in sorted(facts.non_test_bodies(), key=lambda x: x.path):
        if not UNTRUSTED.search(b.path):
            continue
        ctx.count(bodies=1)
        dom = b.dominators()
        gf = bounds.guard_facts(b, order)
        sites = bounds.collect_sites(b)
        owner = None
        m = re.match(r"^(report::hybrid::EncryptedHybrid(?:Impression|Conversion)Report)::<", b.path)
        if m:
            owner = m.group(1)
        shape = []
        for k, s in enumerate(sites):
            nsites += 1
            inst = f"{b.path}#{k}:{s.kind}"
            ok, why = False, ""
            if s.kind in ("index", "range", "range-from"):
                for (edge, gbase, kk, kind, gbb) in gf:
                    if gbase != s.base or not flow.dominates(dom, edge, s.bb):
                        continue
                    muts = [mm for mm in bounds.mutators(b, s.base) if mm in b.reachable(edge) and s.bb in b.reachable(mm)]
                    if muts:
                        continue
                    if order.ge(kk, s.need):
                        ok, why = True, f"guard len >= {kk!r} implies {s.detail}"
                if not ok and owner and owner in inv and s.base and "'data'" in s.base and "('arg', 1" in s.base:
                    if order.ge(inv[owner], s.need):
                        ok, why = True, f"constructor invariant data.len() >= {inv[owner]!r} implies {s.detail}"
                if not ok and s.base:
                    m2 = re.match(r"^\('call', '([^']+)'", s.base)
                    if m2:
                        ln = returned_slice_len(facts, m2.group(1))
                        if ln is not None and s.need.sym is None and ln >= s.need.off:
                            ok, why = True, f"{F.short(m2.group(1), 1)}() always returns a slice of {ln} bytes, which implies {s.detail}"
                if not ok and s.need.sym and "Iterator::position" in s.need.sym and s.base and s.base in s.need.sym:
                    lim = 0 if s.kind == "range" else 1
                    if s.need.off <= lim:
                        ok, why = True, "position() of the same buffer is < len"
                if not ok and s.base and re.match(r"^\('proj', \('call', 'core::slice::<impl \[T\]>::split_at(_checked)?'", s.base) and s.base.rstrip(")").endswith(", 1") and "Iterator::position" in s.base and s.need.sym is None and s.need.off <= 1:
                    # the second half of buf.split_at(buf.iter().position(..)): position() < len, so at least one element is left
                    ok, why = True, "the tail of split_at(position()) of the same buffer holds at least the found element"
                if not ok:
                    why = f"{s.detail} needs len >= {s.need!r} but no dominating guard / invariant on this buffer implies it: a short or empty record panics here"
                shape.append(s.kind)
            elif s.kind == "unwrap":
                d = s.detail
                full = str(flow.expr_of(b, b.term(s.bb)["args"][0]))
                if ("TryInto::try_into" in full or "TryFrom::try_from" in full) and "Index::index" in full and ("'Range'" in full or "'RangeTo'" in full):
                    # fixed-width slice -> array conversion: width check
                    e = flow.expr_of(b, b.term(s.bb)["args"][0])
                    rng = [c for c in malsec.walk_calls(e) if c[1].endswith("Index::index")]
                    okw = False
                    if rng:
                        ie = rng[0][2][1]
                        if ie[0] == "agg" and ie[1] in (("std::ops::Range", "Range"), ("std::ops::RangeTo", "RangeTo")):
                            lo, hi = (bounds.lin_of(ie[2][0]), bounds.lin_of(ie[2][1])) if ie[1][1] == "Range" else (bounds.lin_of(("const", 0)), bounds.lin_of(ie[2][0]))
                            dest = b.local_ty(b.term(s.bb)["d"][0])
                            mm = re.search(r"\[u8; (\d+)\]", dest)
                            okw = lo.sym == hi.sym and mm is not None and hi.off - lo.off == int(mm.group(1))
                    ok, why = okw, "slice of constant width converted to an array of the same length" if okw else "try_into().unwrap() on a slice whose width is not provably the array length"
                elif re.search(r"private_key|ok_or|Try::branch", d):
                    ok, why = True, "not input-length dependent"
                else:
                    ok, why = False, f"unwrap/expect on an input-derived value ({d[:100]}): malformed input panics"
            elif s.kind == "unwrap_or_else":
                # closure that panics?
                clos = None
                for bb2, idx, st in b.iter_assigns():
                    if st["r"]["k"] == "agg" and st["r"]["ak"] == "closure":
                        cb = facts.bodies.get(st["r"]["def"])
                        if cb is not None and any(cb.term(x)["k"] == "call" and cb.term(x)["t"] is None for x in cb.live_blocks()):
                            clos = cb
                ok, why = clos is None, "fallback closure does not panic" if clos is None else "unwrap_or_else(|| panic!(..)) on input-derived data: malformed input crashes the helper"
            elif s.kind == "panic":
                ok, why = False, f"explicit panic reachable from untrusted input ({s.detail})"
            elif s.kind == "len-sensitive":
                ok, why = True, f"{s.detail}: lengths fixed by types (accessor range and GenericArray length are the same typenum sum) — assumed"
            ctx.ob("BOUNDS", inst, ok, why, site_of(b, s.bb))
        if owner:
            shapes.setdefault(b.path.split("::<")[-1].split(">::")[-1], {})[owner] = sorted(shape)
    ctx.floor("BOUNDS", "panic-capable sites in the untrusted parsing closure", nsites, 12)
    ctx.rule("SIBLING: the Impression and Conversion encrypted-report variants have the same access/guard shape per method")
    for meth, per in sorted(shapes.items()):
        if len(per) == 2:
            a, c = list(per.values())
            ctx.ob("SIBLING", meth, a == c, f"same shape {a}" if a == c else f"variants differ: {per}")
