"""Shared rule instances for the malicious-security properties C02 / C04 / C05 (and C03's verdict):
wiring of validators, ordering of validation vs. opening, verdict guards."""
import re
from vlib import facts as F, flow
from vlib.core import site_of


# ---------------------------------------------------------------------------------------------
def walk_calls(e):
    """all ('call', name, args) nodes in an expression tree"""
    out = []
    if isinstance(e, tuple):
        if e and e[0] == "call":
            out.append(e)
        for x in e[1:]:
            if isinstance(x, tuple):
                if x and isinstance(x[0], str):
                    out.extend(walk_calls(x))
                else:
                    for y in x:
                        out.extend(walk_calls(y))
    return out


def guards(b, name_rx):
    """switches whose condition expression contains a call matching name_rx:
    [(switch_bb, expr, (zero_target, nonzero_target), call_node)]"""
    rx = re.compile(name_rx)
    out = []
    for bb in sorted(b.live_blocks()):
        t = b.term(bb)
        if t["k"] != "switch":
            continue
        ed = flow.switch_edges(b, bb)
        if ed is None:
            continue
        e = flow.expr_of(b, t["o"])
        neg = False
        cs = [c for c in walk_calls(e) if rx.search(c[1])]
        if cs:
            # an odd number of Not wrappers flips polarity
            s = e
            while s[0] == "un" and s[1] == "Not":
                neg = not neg
                s = s[2]
            out.append((bb, e, ed if not neg else (ed[1], ed[0]), cs[0]))
    return out


def ok_blocks(b):
    out = []
    for bb, idx, s in b.iter_assigns():
        r = s["r"]
        if s["p"] == [0] and r["k"] == "agg" and r.get("adt") == "std::result::Result" and r.get("vn") == "Ok":
            out.append(bb)
    return out


def err_aggs(b, name):
    out = []
    for bb, idx, s in b.iter_assigns():
        r = s["r"]
        if r["k"] == "agg" and r.get("vn") == name:
            out.append(bb)
    return out


WRAPPED = {}      # (body path, guard block) -> {"err": the wrapper's mismatch edge builds the named error, "tail": bool}


def wrapper_guards(facts, b, name_rx, err_name=None):
    """Comparisons made through a small helper of the same crate, `helper(&a, &b, ..)?` or `helper(&a, &b, ..)` as the
    function's value: the helper compares two of its parameters with a call matching name_rx, its mismatch edge reaches
    no Ok and every Ok of it lies behind the pass edge.  Returned in the shape of guards(): the `?` Continue / Break
    edges (or, for a tail call, the block after the call) stand for the pass / mismatch edges, the call node carries the
    caller's two operands.  Also returns the blocks that act as an Ok of `b` (after a tail call)."""
    from rules.C17 import variant_arms
    out, pseudo_ok = [], []

    def bare(e):
        e = flow.strip_casts(e)
        while e[0] in ("ref", "call") and (e[0] == "ref" or (re.search(r"(Deref::deref|Borrow::borrow)$", e[1]) and e[2])):
            e = flow.strip_casts(e[1] if e[0] == "ref" else e[2][0])
        return e
    cf = None
    for cb, t in b.calls():
        fn = F.callee(t)[0] or ""
        w = facts.bodies.get(fn)
        if w is None or w.coroutine or len(w.blocks) > 40 or fn.split("::")[0] != b.path.lstrip("<").split("::")[0]:
            continue
        gw = guards(w, name_rx)
        if len(gw) != 1:
            continue
        sw_, e_, ed_, call_ = gw[0]
        ops = [bare(x) for x in call_[2][:2]]
        if len(ops) != 2 or not all(o[0] == "arg" and len(o) == 2 for o in ops) or ops[0] == ops[1]:
            continue
        wd = w.dominators()
        oks_w = ok_blocks(w)
        if not oks_w or set(oks_w) & w.reachable(ed_[1]) or not all(flow.dominates(wd, ed_[0], o) for o in oks_w):
            continue
        has_err = err_name is None or any(x in w.reachable(ed_[1]) for x in err_aggs(w, err_name))
        a = tuple(flow.expr_of(b, t["args"][o[1] - 1]) for o in ops)
        node = ("call", "wrapper:" + call_[1], a)
        cf = cf if cf is not None else variant_arms(b, "std::ops::ControlFlow", facts)
        hit = None
        dl0 = t["d"][0] if t.get("d") else None
        al0 = flow.local_aliases_fwd(b, dl0) if dl0 is not None else set()
        for sw, pl, arms in cf:
            # the ControlFlow value matched here is Try::branch(<this call's result>)
            ds = [d for _, idx, d in b.defs().get(pl[0], []) if idx == "t" and d.get("k") == "call" and (F.callee(d)[0] or "").endswith("Try::branch")]
            if ds and "Continue" in arms and "Break" in arms and F.op_local(ds[0]["args"][0]) in al0:
                hit = (sw, node, (arms["Continue"], arms["Break"]), node)
        if hit is not None:
            out.append(hit)
            WRAPPED[(b.path, hit[0])] = {"err": has_err, "tail": False}
            continue
        # the helper's verdict is the function's own value
        al = al0
        tail = t.get("d") == [0] or any(s_["p"] == [0] and ((s_["r"]["k"] == "use" and F.op_local(s_["r"]["o"]) in al) or (s_["r"]["k"] == "agg" and any(F.op_local(o) in al for o in s_["r"]["ops"]))) for _, _, s_ in b.iter_assigns())
        nxt = b.succs(cb)
        if tail and len(nxt) == 1:
            out.append((cb, node, (nxt[0], None), node))
            pseudo_ok.append(nxt[0])
            WRAPPED[(b.path, cb)] = {"err": has_err, "tail": True}
    return out, pseudo_ok


def verdict_guard(ctx, rule, inst, b, name_rx, mismatch_is_nonzero, err_name, min_guards=1, what=""):
    """From the mismatch edge of every guard matching name_rx no `Ok` return may be reachable and the
    error `err_name` must be reachable."""
    gs = guards(b, name_rx)
    if len(gs) < min_guards and mismatch_is_nonzero:
        wg, wok = wrapper_guards(ctx.facts(), b, name_rx, err_name)
        gs = gs + [(sw, e, (ed[0], ed[1]), call) for sw, e, ed, call in wg]
    if len(gs) < min_guards:
        ctx.ob(rule, f"{inst}:guards", False, f"expected >= {min_guards} comparison(s) {name_rx} gating the result, found {len(gs)} (a check was dropped)", site_of(b))
        return gs
    oks = set(ok_blocks(b))
    for k, (sw, e, ed, call) in enumerate(gs):
        bad = ed[1] if mismatch_is_nonzero else ed[0]
        wi = WRAPPED.get((b.path, sw)) if call[1].startswith("wrapper:") else None
        reach = b.reachable(bad) if bad is not None else set()
        leak = sorted(oks & reach)
        has_err = wi["err"] if wi is not None else any(x in reach for x in err_aggs(b, err_name))
        ok = not leak and has_err
        ctx.ob(rule, f"{inst}:guard#{k}", ok,
               f"{what or 'mismatch'} => Err({err_name}), never Ok" if ok else (f"on a failed comparison the function can still return Ok (polarity flipped or result ignored)" if leak else f"a failed comparison does not produce Err({err_name})"),
               site_of(b, sw))
    return gs


def async_body(facts, root):
    t = [b for b in facts.tree(root) if b.coroutine]
    return t[0] if t else None


def async_main_body(facts, root):
    """the coroutine of `root` that holds the function's own statements: the largest one (an async block nested in a
    closure of the function comes first in tree order; #[tracing::instrument] puts the real body one block deeper than
    the async fn's own coroutine, which then only forwards)"""
    t = [b for b in facts.tree(root) if b.coroutine]
    return max(t, key=lambda b: len(list(b.calls()))) if t else None


def settled_calls(b, name_rx):
    """[(call_bb, term, settle-dict)] for calls matching name_rx"""
    out = []
    for bb, t in flow.find_calls(b, re.compile(name_rx)):
        out.append((bb, t, flow.settled(b, bb)))
    return out


# ---------------------------------------------------------------------------------------------
def shuffle_order(ctx, facts, rule):
    ctx.rule(f"{rule}: in malicious_sharded_shuffle: compute_and_add_tags settled < h*_shuffle_for_shard < verify_shuffle settled with `?` taken < truncate_tags; the rows returned come from truncate_tags of the verified table")
    b = async_body(facts, "protocol::ipa_prf::shuffle::malicious::malicious_sharded_shuffle")
    if b is None:
        return ctx.missing(rule, "malicious_sharded_shuffle")
    ctx.count(bodies=1)
    dom = b.dominators()
    tags = settled_calls(b, r"shuffle::malicious::compute_and_add_tags$")
    shuf = settled_calls(b, r"shuffle::sharded::h[123]_shuffle_for_shard$")
    ver = settled_calls(b, r"shuffle::malicious::verify_shuffle$")
    trunc = flow.find_calls(b, re.compile(r"shuffle::malicious::truncate_tags$"))
    if not tags or len(shuf) < 3 or not ver or not trunc:
        return ctx.missing(rule, "compute_and_add_tags / h{1,2,3}_shuffle_for_shard / verify_shuffle / truncate_tags calls")
    v_bb, v_t, v_s = ver[0]
    ok_tags = tags[0][2] is not None and all(flow.dominates(dom, tags[0][2]["ready"], sb) for sb, _, _ in shuf)
    ctx.ob(rule, "tags-before-shuffle", ok_tags, "MAC tags are appended before any shuffle round" if ok_tags else "rows are shuffled before the MAC tags were computed", site_of(b, tags[0][0]))
    # the MAC keys stay secret until all shuffle rounds are over: reveal_keys is called only by verify_shuffle,
    # and verify_shuffle is called only after the (role-selected) shuffle round settled with `?`
    callers = set()
    for ob_ in facts.non_test_bodies():
        for bb2, t2 in ob_.calls():
            if (F.callee(t2)[0] or "").endswith("shuffle::malicious::reveal_keys"):
                callers.add(ob_.root)
    okc = bool(callers) and callers <= {"protocol::ipa_prf::shuffle::malicious::verify_shuffle"}
    ctx.ob(rule, "keys-opened-only-in-verify", okc, "reveal_keys is called only from verify_shuffle" if okc else f"the shuffle MAC keys are opened outside verify_shuffle ({sorted(callers)}): a helper that learns the keys before the last shuffle message can forge tags", site_of(b))
    shuffled_q = None
    for bb2, t2 in b.calls():
        if (F.callee(t2)[0] or "") == "std::ops::Try::branch":
            e2 = str(flow.expr_of(b, t2["args"][0]))
            if "_shuffle_for_shard" in e2 or "Future::poll" in e2 and any(flow.dominates(dom, sb, bb2) for sb, _, _ in shuf):
                qq = flow.question_mark(b, F.op_local(t2["args"][0]))
                if qq and all(not flow.dominates(dom, qq[1], sb) for sb, _, _ in shuf):
                    shuffled_q = qq
    # simpler and robust: every path from entry to verify_shuffle passes through one of the three shuffle calls' settlement
    readies = [s_["ready"] for _, _, s_ in shuf if s_ is not None]
    ok_sv = len(readies) == len(shuf) and v_bb not in b.reachable(0, avoid=frozenset(readies))
    ctx.ob(rule, "shuffle-before-verify", ok_sv, "verification (and with it the opening of the MAC keys) starts only after this helper's shuffle round completed" if ok_sv else "verify_shuffle can start before the shuffle round settled", site_of(b, v_bb))
    ctx.ob(rule, "verify-awaited", v_s is not None and v_s["q"] is not None, "verify_shuffle is awaited and its error propagated with `?`" if v_s and v_s["q"] else "verify_shuffle's result is not awaited / not propagated: a failed verification is ignored", site_of(b, v_bb))
    for k, (tb, tt) in enumerate(trunc):
        ok = v_s is not None and v_s["q"] is not None and flow.dominates(dom, v_s["q"][1], tb)
        ctx.ob(rule, f"verify-before-release#{k}", ok, "rows are released only after verification succeeded" if ok else "truncate_tags (release of the rows) is reachable without a successful verify_shuffle", site_of(b, tb))
        # verify and truncate look at the same table
        e_v = flow.expr_of(b, v_t["args"][2])
        e_t = flow.expr_of(b, tt["args"][0])
        same = _base_locals(b, v_t["args"][2]) & _base_locals(b, tt["args"][0])
        ctx.ob(rule, f"same-table#{k}", bool(same), "the verified table is the one released" if same else "verify_shuffle checks a different table than the one whose rows are returned", site_of(b, tb))
    # every Ok return derives from truncate_tags
    for k, ob_ in enumerate(ok_blocks(b)):
        for s in b.stmts(ob_):
            if "p" in s and s["p"] == [0] and s["r"]["k"] == "agg":
                e = flow.expr_of(b, s["r"]["ops"][0])
                okc = any(c[1].endswith("truncate_tags") for c in walk_calls(e))
                ctx.ob(rule, f"ok-from-truncate#{k}", okc, "Ok(rows) = truncate_tags(verified rows)" if okc else "the returned rows do not come from truncate_tags", site_of(b, ob_))


def _base_locals(b, op):
    """set of root locals reached by walking refs/derefs/Deref::deref calls backwards"""
    out = set()
    work = [F.op_local(op)]
    seen = set()
    while work:
        l = work.pop()
        if l is None or l in seen:
            continue
        seen.add(l)
        ds = b.defs().get(l, [])
        if not ds:
            out.add(l)
        for bb, idx, d in ds:
            if idx == "t":
                if d["k"] == "call" and (F.callee(d)[0] or "").endswith("Deref::deref") and d["args"]:
                    work.append(F.op_local(d["args"][0]))
                else:
                    out.add(l)
            elif d["k"] in ("ref", "raw", "cfd"):
                work.append(d["p"][0])
            elif d["k"] == "use" and F.op_local(d["o"]) is not None:
                work.append(F.op_local(d["o"]))
            else:
                out.add(l)
    return out


def hash_guards(ctx, facts, rule):
    ctx.rule(f"{rule}: h1_verify compares hash(x1)~y1, hash(a^b)~C from H3, hash(a^b)~C from H2 and h2_verify compares hash(x2)~hash from H3; each mismatch returns Err(ShuffleValidationFailed) and can never reach Ok; h3_verify sends the three hashes it is documented to send")
    base = "protocol::ipa_prf::shuffle::malicious::"
    b1 = async_body(facts, base + "h1_verify")
    b2 = async_body(facts, base + "h2_verify")
    b3 = async_body(facts, base + "h3_verify")
    if not (b1 and b2 and b3):
        return ctx.missing(rule, "h1_verify / h2_verify / h3_verify")
    ctx.count(bodies=3)
    g1 = verdict_guard(ctx, rule, "h1_verify", b1, r"ConstantTimeEq::ct_ne$|PartialEq::ne$", True, "ShuffleValidationFailed", 3, "hash mismatch")
    g2 = verdict_guard(ctx, rule, "h2_verify", b2, r"ConstantTimeEq::ct_ne$|PartialEq::ne$", True, "ShuffleValidationFailed", 1, "hash mismatch")
    # operand provenance: one side computed locally (compute_and_hash_tags), the other received
    for name, b, gs in (("h1_verify", b1, g1), ("h2_verify", b2, g2)):
        pairs = set()
        for k, (sw, e, ed, call) in enumerate(gs):
            a0, a1 = call[2][0], call[2][1]
            def is_local(x):
                return x[0] == "call" and x[1].endswith("compute_and_hash_tags")
            loc = [x for x in (a0, a1) if is_local(x)]
            rec = [x for x in (a0, a1) if not is_local(x) and "receive" in str(x)]
            ok = len(loc) == 1 and len(rec) == 1
            ctx.ob(rule, f"{name}:guard#{k}:local-vs-received", ok, "a locally computed hash is compared with a received one" if ok else "comparison is not between a local hash and a received hash (e.g. a value compared with itself)", site_of(b, sw))
            pairs.add((str(loc[0]) if loc else "", str(rec[0]) if rec else ""))
        ctx.ob(rule, f"{name}:distinct-comparisons", len(pairs) == len(gs), f"{len(gs)} distinct comparisons" if len(pairs) == len(gs) else "two comparisons test the same pair: one documented check is missing")
    sends = flow.find_calls(b3, re.compile(r"::send$"))
    hs = 0
    for bb, t in sends:
        if len(t["args"]) >= 3 and any(c[1].endswith("compute_and_hash_tags") for c in walk_calls(flow.expr_of(b3, t["args"][2]))):
            hs += 1
    ctx.ob(rule, "h3_verify:sends-three-hashes", hs >= 3, f"h3 sends {hs} locally computed hashes", site_of(b3))


def _reveal_then_form(ctx, facts, rule, b):
    """`(from_left == from_right).then(|| Some(opened)).ok_or(Err(MaliciousRevealFailed))` as the returned value: then()
    runs the closure exactly when the comparison holds and ok_or turns the None of a mismatch into the error.  Emits the
    same obligations as the branch form; returns False when the body does not have this shape."""
    old = flow.CLOSURE_DEFS
    flow.CLOSURE_DEFS = True
    try:
        for bb, t in flow.find_calls(b, re.compile(r"<impl bool>::then$")):
            cond = flow.strip_casts(flow.expr_of(b, t["args"][0], max_depth=30))
            neg = False
            while cond[0] == "un" and cond[1] == "Not":
                neg, cond = not neg, flow.strip_casts(cond[2])
            if not (cond[0] == "call" and re.search(r"PartialEq::(eq|ne)$|ConstantTimeEq::ct_(eq|ne)$", cond[1]) and len(cond[2]) >= 2):
                continue
            a0, a1 = cond[2][0], cond[2][1]
            if not ("receive" in str(a0) and "receive" in str(a1)):
                continue
            is_eq = cond[1].endswith("eq") != neg
            clo = flow.expr_of(b, t["args"][1], max_depth=30)
            cb = facts.bodies.get(clo[1][1]) if clo[0] == "agg" and isinstance(clo[1], tuple) and clo[1][0] == "closure" else None
            ctx.ob(rule, "malicious_reveal:two-copies", str(a0) != str(a1), "the two operands are the two different received copies" if str(a0) != str(a1) else "a received share is compared with itself: a tampered copy is never noticed", site_of(b, bb))
            # the opened value exists only inside the closure, and then() is given the comparison itself
            somes_main = [x for x, idx, s in b.iter_assigns() if s["r"]["k"] == "agg" and s["r"].get("adt") == "std::option::Option" and s["r"].get("vn") == "Some" and "x" not in s and "receive" in str(flow.expr_of(b, s["r"]["ops"][0]))]
            inner = cb is not None and "receive" in str(clo[2]) and (lambda r: r[0] == "agg" and r[1] == ("std::option::Option", "Some"))(flow.expr_of(cb, {"cp": [0]}, max_depth=6))
            ok = is_eq and inner and not somes_main
            ctx.ob(rule, "malicious_reveal:open-only-if-equal#1", ok, "the value is opened only if both copies agree" if ok else "the opened value is produced although the two received copies differ (or without comparing them)", site_of(b, bb))
            ctx.floor(rule, "opened-value sites in malicious_reveal", 1 if inner else 0, 1)
            # mismatch => Err: the function's value is ok_or(then(..), MaliciousRevealFailed)
            oke = False
            for ob, ot in flow.find_calls(b, re.compile(r"Option::<T>::ok_or(_else)?$")):
                o0, o1 = (str(flow.expr_of(b, x, max_depth=8)) for x in ot["args"][:2])
                errs = o1 + "".join(str(x["r"].get("vn")) for c in facts.tree(b.root) if c.kind == "Closure" and c.path in o1 for _, _, x in c.iter_assigns() if x["r"]["k"] == "agg")
                # after ok_or nothing else produces an Ok: what is returned on this path is ok_or's value
                oke = oke or (o0.startswith("('call', 'core::bool::<impl bool>::then'") and "MaliciousRevealFailed" in errs and not (set(ok_blocks(b)) & b.reachable(ob)))
            ctx.ob(rule, "malicious_reveal:err-on-mismatch", oke, "mismatch => Err(MaliciousRevealFailed)" if oke else "the result of the comparison is not turned into Err(MaliciousRevealFailed) on a mismatch", site_of(b, bb))
            rec = flow.find_calls(b, re.compile(r"::receive$"))
            chans = {str(flow.expr_of(b, t2["args"][0])) for _, t2 in rec}
            ctx.ob(rule, "malicious_reveal:two-receivers", len(chans) >= 2, f"{len(chans)} distinct receive channels", site_of(b))
            return True
    finally:
        flow.CLOSURE_DEFS = old
    return False


def keys_barrier(ctx, facts, rule):
    """The MAC is linear: whoever knows the opened keys can change a row by a difference the keys annihilate and every
    hash comparison still passes.  So a helper may send its key shares only once the *other* helpers can no longer
    choose their shuffle messages: after it has heard from both peers that their last shuffle message is out (an awaited
    step, placed after the helper's own shuffle function and before reveal_keys, that receives from the left and from the
    right peer).  Local order alone (shuffle before verify on each helper) is not enough: H1's shuffle function returns
    without receiving anything that depends on the others' last messages."""
    ctx.rule(f"{rule}: between the helper's own shuffle (h*_shuffle_for_shard) and reveal_keys there is an awaited step whose call tree receives from the peer on the left and from the peer on the right (a barrier): the keys are opened only after every helper's shuffle messages are fixed")
    base = "protocol::ipa_prf::shuffle::malicious::"
    vb = async_body(facts, base + "verify_shuffle")
    mb = async_main_body(facts, base + "malicious_sharded_shuffle")
    if vb is None or mb is None:
        return ctx.missing(rule, "verify_shuffle / malicious_sharded_shuffle")
    ctx.count(bodies=2)

    def receives_from_both(fn, depth=0, seen=None):
        seen = seen if seen is not None else set()
        dirs = set()
        if fn in seen or depth > 4:
            return dirs
        seen.add(fn)
        for hb in facts.tree(fn):
            for bb, t in hb.calls():
                c = F.callee(t)[0] or ""
                if c.endswith("::receive") and t["args"]:
                    dirs |= set(re.findall(r"'helpers::Direction', '(Left|Right)'", str(flow.expr_of(hb, t["args"][0], max_depth=14))))
                elif c in facts.bodies and c.startswith("protocol::ipa_prf::shuffle::"):
                    dirs |= receives_from_both(c, depth + 1, seen)
        return dirs
    found = False
    rk = flow.find_calls(vb, re.compile(r"shuffle::malicious::reveal_keys$"))
    vdom = vb.dominators()
    for bb, t in vb.calls():
        c = F.callee(t)[0] or ""
        st = flow.settled(vb, bb) if c in facts.bodies else None
        if rk and st is not None and flow.dominates(vdom, st["ready"], rk[0][0]) and receives_from_both(c) >= {"Left", "Right"}:
            found = True
    vs = flow.find_calls(mb, re.compile(r"shuffle::malicious::verify_shuffle$"))
    sh = flow.find_calls(mb, re.compile(r"shuffle::sharded::h[123]_shuffle_for_shard$"))
    mdom = mb.dominators()
    for bb, t in mb.calls():
        c = F.callee(t)[0] or ""
        if c.endswith("_shuffle_for_shard") or c.endswith("verify_shuffle") or c not in facts.bodies:
            continue
        st = flow.settled(mb, bb)
        after_shuffle = bool(sh) and any(bb in mb.reachable(x) for x, _ in sh) and not any(x in mb.reachable(bb) for x, _ in sh)
        if vs and st is not None and after_shuffle and flow.dominates(mdom, st["ready"], vs[0][0]) and receives_from_both(c) >= {"Left", "Right"}:
            found = True
    ctx.ob(rule, "reveal_keys:after-both-peers-finished-their-shuffle", found,
           "the keys are opened behind a barrier with both peers" if found else "a helper sends its MAC key shares as soon as its own shuffle function returns (for H1: after receiving only the row count), with no step that waits for both peers: a rushing helper that holds two of the three key shares learns the key before it has sent its last shuffle message and can alter rows by a difference the MAC does not see",
           site_of(vb, rk[0][0]) if rk else site_of(vb))


def malicious_reveal_guard(ctx, facts, rule):
    ctx.rule(f"{rule}: malicious_reveal returns Ok(Some(_)) only on the equal edge of a comparison between the share received from the left peer and the share received from the right peer; otherwise Err(MaliciousRevealFailed)")
    b = async_body(facts, "protocol::basics::reveal::malicious_reveal")
    if b is None:
        return ctx.missing(rule, "malicious_reveal")
    ctx.count(bodies=1)
    dom = b.dominators()
    gs = guards(b, r"PartialEq::(eq|ne)$|ConstantTimeEq::ct_(eq|ne)$")
    # keep the guard whose operands both come from a receive
    sel = []
    for sw, e, ed, call in gs:
        a0, a1 = call[2][0], call[2][1]
        if "receive" in str(a0) and "receive" in str(a1):
            sel.append((sw, e, ed, call))
    if not sel and _reveal_then_form(ctx, facts, rule, b):
        return
    if not sel:
        ctx.ob(rule, "malicious_reveal:comparison", False, "no comparison between the two received copies gates the opened value", site_of(b))
        return
    sw, e, ed, call = sel[0]
    is_ne = call[1].endswith("ne")
    eq_edge = ed[0] if is_ne else ed[1]
    ne_edge = ed[1] if is_ne else ed[0]
    a0, a1 = call[2][0], call[2][1]
    distinct = str(a0) != str(a1)
    ctx.ob(rule, "malicious_reveal:two-copies", distinct, "the two operands are the two different received copies" if distinct else "a received share is compared with itself: a tampered copy is never noticed", site_of(b, sw))
    # Some(..) aggregates wrapped in Ok: only on eq edge
    n = 0
    for bb, idx, s in b.iter_assigns():
        r = s["r"]
        if r["k"] == "agg" and r.get("adt") == "std::option::Option" and r["vn"] == "Some" and "x" not in s:
            ee = flow.expr_of(b, r["ops"][0])
            if "receive" in str(ee):
                n += 1
                ok = flow.dominates(dom, eq_edge, bb) and bb not in b.reachable(ne_edge)
                ctx.ob(rule, f"malicious_reveal:open-only-if-equal#{n}", ok, "the value is opened only if both copies agree" if ok else "the opened value is produced although the two received copies differ (or without comparing them)", site_of(b, bb, idx))
    ctx.floor(rule, "opened-value sites in malicious_reveal", n, 1)
    reach = b.reachable(ne_edge)
    ctx.ob(rule, "malicious_reveal:err-on-mismatch", any(x in reach for x in err_aggs(b, "MaliciousRevealFailed")) and not (set(ok_blocks(b)) & reach), "mismatch => Err(MaliciousRevealFailed)", site_of(b, sw))
    # the two receives are on different peers' channels
    rec = flow.find_calls(b, re.compile(r"::receive$"))
    chans = set()
    for bb, t in rec:
        chans.add(str(flow.expr_of(b, t["args"][0])))
    ctx.ob(rule, "malicious_reveal:two-receivers", len(chans) >= 2, f"{len(chans)} distinct receive channels", site_of(b))


def mac_validate_guard(ctx, facts, rule):
    ctx.rule(f"{rule}: Malicious::validate returns Ok only if malicious_check_zero(t) is true, with t = u - w*r where r is the opened r_share and (u, w) come from propagate_u_and_w")
    b = None
    for body in facts.tree("protocol::context::validator::Malicious::<'_, F, B>::validate"):
        if flow.find_calls(body, re.compile(r"check_zero::malicious_check_zero$")):
            b = body
    if b is None:
        return ctx.missing(rule, "Malicious::validate")
    ctx.count(bodies=1)
    cz = settled_calls(b, r"check_zero::malicious_check_zero$")
    if not cz or cz[0][2] is None:
        return ctx.ob(rule, "mac-validate:check-zero-awaited", False, "malicious_check_zero is not awaited", site_of(b))
    cbb, ct, cs = cz[0]
    # switch on the awaited bool (after `?`)
    found = False
    oks = set(ok_blocks(b))
    for sw in sorted(b.live_blocks()):
        t = b.term(sw)
        if t["k"] != "switch":
            continue
        ed = flow.switch_edges(b, sw)
        if not ed:
            continue
        e = flow.expr_of(b, t["o"])
        if "Try::branch" in str(e) and cs["poll"] is not None and (str(("call", cs["poll"])) or True):
            org = flow.origins(b, t["o"], through_calls=(r"Try::branch$",))
            if ("call", cs["poll"]) in org or any(o[0] == "call" and o[1] == cs["poll"] for o in org):
                found = True
                leak = oks & b.reachable(ed[0])
                has_err = any(x in b.reachable(ed[0]) for x in err_aggs(b, "MaliciousSecurityCheckFailed"))
                ctx.ob(rule, "mac-validate:ok-only-if-zero", not leak and has_err and bool(oks & b.reachable(ed[1])), "Ok only when the check-zero succeeded" if not leak and has_err else "validate can return Ok although T != 0 (MAC check ignored or inverted)", site_of(b, sw))
    if not found:
        ctx.ob(rule, "mac-validate:ok-only-if-zero", False, "the result of malicious_check_zero does not gate the return value", site_of(b, cbb))
    # t = u - w * r
    e = flow.expr_of(b, ct["args"][2])
    s = str(e)
    okt = "Sub::sub" in s and "Mul::mul" in s and "propagate_u_and_w" in s and "malicious_reveal" in s
    ctx.ob(rule, "mac-validate:t-formula", okt, "T = u - w*r with r opened by malicious_reveal and (u,w) from propagate_u_and_w" if okt else f"the value checked for zero is {s[:200]}", site_of(b, cbb))
    # r is opened from self.r_share
    mr = flow.find_calls(b, re.compile(r"reveal::malicious_reveal$"))
    okr = bool(mr) and "r_share" in flow.field_names_in(flow.expr_of(b, mr[0][1]["args"][3]))
    ctx.ob(rule, "mac-validate:opens-r", okr, "the opened value is this batch's r_share", site_of(b, mr[0][0]) if mr else site_of(b))


def padding_guard(ctx, facts, rule):
    ctx.rule(f"{rule}: apply_dp_padding_pass: the excluded helper accepts the padding count only if the copies from its two peers are equal, otherwise Err(InconsistentPadding)")
    b = async_body(facts, "protocol::ipa_prf::oprf_padding::apply_dp_padding_pass")
    if b is None:
        return ctx.missing(rule, "apply_dp_padding_pass")
    ctx.count(bodies=1)
    gs = [g for g in guards(b, r"PartialEq::(ne|eq)$") if "receive" in str(g[3])]
    if not gs:
        return ctx.ob(rule, "padding:comparison", False, "no comparison of the two received padding counts", site_of(b))
    sw, e, ed, call = gs[0]
    is_ne = call[1].endswith("ne")
    bad = ed[1] if is_ne else ed[0]
    reach = b.reachable(bad)
    ok = any(x in reach for x in err_aggs(b, "InconsistentPadding")) and not (set(ok_blocks(b)) & reach)
    ctx.ob(rule, "padding:err-on-mismatch", ok, "different counts from the two generating helpers => Err(InconsistentPadding)" if ok else "inconsistent padding counts are accepted", site_of(b, sw))
    a0, a1 = call[2][0], call[2][1]
    ctx.ob(rule, "padding:two-copies", str(a0) != str(a1), "left and right copies are compared", site_of(b, sw))
    # the count used afterwards is one of the compared copies
    uses = flow.find_calls(b, re.compile(r"add_zero_shares$"))
    oku = bool(uses) and all(bb in b.reachable(ed[0] if is_ne else ed[1]) and bb not in reach for bb, _ in uses)
    ctx.ob(rule, "padding:used-after-check", oku, "the count is used only after the equality check", site_of(b, uses[0][0]) if uses else site_of(b))


def dzkp_verify_guard(ctx, facts, rule):
    ctx.rule(f"{rule}: BatchToVerify::verify returns Err(DZKPValidationFailed) when the recombined differences are not all zero and Ok otherwise; the compared vector combines own diff_right with the diff received from the other verifier")
    b = None
    for body in facts.tree("protocol::ipa_prf::validation_protocol::validation::BatchToVerify::verify"):
        if body.coroutine:
            b = body
    if b is None:
        return ctx.missing(rule, "BatchToVerify::verify")
    ctx.count(bodies=1)
    gs = verdict_guard(ctx, rule, "dzkp-verify", b, r"ConstantTimeEq::ct_ne$|PartialEq::ne$", True, "DZKPValidationFailed", 1, "non-zero difference")
    for k, (sw, e, ed, call) in enumerate(gs):
        s = str(call)
        ok = "compute_g_differences" in s and "receive" in s
        ctx.ob(rule, f"dzkp-verify:operands#{k}", ok, "own differences + received differences are compared with zero" if ok else f"the zero test is applied to {s[:160]}", site_of(b, sw))
        zero = "ZERO" in s or "from_elem" in s
        ctx.ob(rule, f"dzkp-verify:against-zero#{k}", zero, "compared against the all-zero vector", site_of(b, sw))


def drop_guard(ctx, facts, rule):
    ctx.rule(f"{rule}: impl Drop for MaliciousDZKPValidator exists and consults is_verified (unverified multiplications at drop are loud)")
    bs = [b for p, b in facts.bodies.items() if re.match(r"^<protocol::context::dzkp_validator::MaliciousDZKPValidator<.*> as std::ops::Drop>::drop$", p)]
    if not bs:
        return ctx.missing(rule, "impl Drop for MaliciousDZKPValidator")
    b = bs[0]
    iv = flow.find_calls(b, re.compile(r"is_verified$|is_empty$"))
    ctx.ob(rule, "drop:checks-verified", bool(iv), "drop checks that nothing is left unverified" if iv else "the drop guard no longer checks for unverified multiplications", site_of(b))
    loud = False
    for bb, t in flow.find_calls(b, re.compile(r"Result::<T, E>::(unwrap|expect)$")):
        if any(c[1].endswith("is_verified") for c in walk_calls(flow.expr_of(b, t["args"][0]))):
            loud = True
    pan = [bb for bb in b.live_blocks() if b.term(bb)["k"] == "call" and b.term(bb)["t"] is None]
    ctx.ob(rule, "drop:loud", loud or bool(pan), "an unverified validator panics on drop" if loud or pan else "the result of is_verified() is ignored in drop", site_of(b))


def dzkp_validate_path(ctx, facts, rule):
    """The proof check is actually reached: validate_indexed returns what Batch::validate returns; Batch::validate
    returns Ok early only for an empty batch and otherwise returns BatchToVerify::verify's result; check_zero returns
    (opened r*v == 0)."""
    ctx.rule(f"{rule}: MaliciousDZKPValidator::validate_indexed returns the awaited Batch::validate(into_single_batch()) result; Batch::validate returns Ok without proving only when the batch is empty, otherwise its result is BatchToVerify::verify(..).await; malicious_check_zero returns ct_eq(open(r*v), ZERO)")
    # 1. validate_indexed
    vb = None
    for b in facts.tree("<protocol::context::dzkp_validator::MaliciousDZKPValidator<'a, B> as protocol::context::dzkp_validator::DZKPValidator>::validate_indexed"):
        if flow.find_calls(b, re.compile(r"dzkp_validator::Batch::validate$")):
            vb = b
    if vb is None:
        ctx.missing(rule, "MaliciousDZKPValidator::validate_indexed")
    else:
        ctx.count(bodies=1)
        c = flow.find_calls(vb, re.compile(r"dzkp_validator::Batch::validate$"))[0]
        st = flow.settled(vb, c[0])
        recv = str(flow.expr_of(vb, c[1]["args"][0]))
        ok = st is not None and "into_single_batch" in recv
        ret_ok = False
        if st and st["out"] is not None:
            al = flow.local_aliases_fwd(vb, st["out"])
            for bb, idx, s_ in vb.iter_assigns():
                if s_["p"] == [0] and s_["r"]["k"] == "use" and F.op_local(s_["r"]["o"]) in al:
                    ret_ok = True
        ctx.ob(rule, "validate_indexed:returns-batch-validate", ok and ret_ok, "the validator's verdict is the batch proof's verdict" if ok and ret_ok else "validate_indexed does not return the result of Batch::validate on its batch (proof verdict dropped)", site_of(vb, c[0]))
    # 2. Batch::validate
    bb_ = None
    for b in facts.tree("protocol::context::dzkp_validator::Batch::validate"):
        if b.coroutine:
            bb_ = b
    if bb_ is None:
        ctx.missing(rule, "Batch::validate")
    else:
        ctx.count(bodies=1)
        dom = bb_.dominators()
        ver = flow.find_calls(bb_, re.compile(r"validation::BatchToVerify::verify$"))
        emp = guards(bb_, r"dzkp_validator::Batch::is_empty$")
        st = flow.settled(bb_, ver[0][0]) if ver else None
        okv = st is not None
        ret_ok = False
        if st and st["out"] is not None:
            al = flow.local_aliases_fwd(bb_, st["out"])
            for x, idx, s_ in bb_.iter_assigns():
                if s_["p"] == [0] and s_["r"]["k"] == "use" and F.op_local(s_["r"]["o"]) in al:
                    ret_ok = True
            if st["q"] is not None:
                ret_ok = True
        ctx.ob(rule, "Batch::validate:returns-verify", okv and ret_ok, "a non-empty batch's result is BatchToVerify::verify(..).await" if okv and ret_ok else "Batch::validate does not return the verifier's verdict", site_of(bb_, ver[0][0]) if ver else site_of(bb_))
        early = []
        for ob_ in ok_blocks(bb_):
            if st and (flow.dominates(dom, st["ready"], ob_)):
                continue
            on_empty = any(ed is not None and flow.dominates(dom, ed[1], ob_) for _, _, ed, _ in emp)
            if not on_empty:
                early.append(ob_)
        ctx.ob(rule, "Batch::validate:ok-only-if-empty-or-verified", not early and bool(emp), "Ok without a proof only for an empty batch" if not early and emp else "Batch::validate can return Ok for a non-empty batch without running the verifier", site_of(bb_, early[0]) if early else site_of(bb_))
    # 2b. what "empty" means: no gate has recorded anything (a batch with one empty gate among others is NOT empty)
    eb = facts.bodies.get("protocol::context::dzkp_validator::Batch::is_empty")
    if eb is None:
        ctx.missing(rule, "Batch::is_empty")
    else:
        ctx.count(bodies=1)
        ok_e = True
        why_e = "true only if the gate map is empty or every gate's store is empty"
        for bb2, idx2, d2 in eb.defs().get(0, []):
            if idx2 == "t":
                fn2 = F.callee(d2)[0] or ""
                if fn2.endswith("Iterator::all"):
                    a1 = flow.expr_of(eb, d2["args"][1], max_depth=4)
                    if not (a1[0] == "fn" and a1[1].endswith("MultiplicationInputsBatch::is_empty")) or "values" not in str(flow.expr_of(eb, d2["args"][0], max_depth=4)):
                        ok_e, why_e = False, "Batch::is_empty's `all` does not range over every gate's is_empty()"
                elif re.search(r"(BTreeMap|HashMap)::<K, V, [AS]>::is_empty$|::is_empty$", fn2) and "inner" in str(flow.expr_of(eb, d2["args"][0], max_depth=4)):
                    pass
                else:
                    ok_e, why_e = False, f"Batch::is_empty returns {fn2.split('::')[-1]}(..): a batch can count as empty (and be accepted without a proof) although some gate recorded multiplications"
            else:
                v = flow.expr_of(eb, d2.get("o"), max_depth=4) if "o" in d2 else ("?",)
                if v == ("const", 1):
                    # `true` literal: only on the edge where the map itself is empty
                    domx = eb.dominators()
                    gsx = guards(eb, r"(BTreeMap|HashMap)::<K, V, [AS]>::is_empty$")
                    if not any(flow.dominates(domx, g[2][1], bb2) for g in gsx):
                        ok_e, why_e = False, "Batch::is_empty returns true without the gate map being empty"
                elif v != ("const", 0):
                    ok_e, why_e = False, f"Batch::is_empty returns {str(v)[:60]}"
        ctx.ob(rule, "Batch::is_empty:all-gates-empty", ok_e, why_e, site_of(eb))
    # 3. check_zero
    cz = async_body(facts, "protocol::basics::check_zero::malicious_check_zero")
    if cz is None:
        ctx.missing(rule, "malicious_check_zero")
    else:
        ctx.count(bodies=1)
        okz = False
        for ob_ in ok_blocks(cz):
            for s_ in cz.stmts(ob_):
                if "p" in s_ and s_["p"] == [0] and s_["r"]["k"] == "agg":
                    e = str(flow.expr_of(cz, s_["r"]["ops"][0]))
                    okz = "ct_eq" in e and "malicious_reveal" in e and "ZERO" in e
        mul = flow.find_calls(cz, re.compile(r"sh_multiply$|semi_honest_multiply$|semi_honest::multiply$"))
        okm = False
        if mul:
            a = str(flow.expr_of(cz, mul[0][1]["args"][2])) + str(flow.expr_of(cz, mul[0][1]["args"][3]))
            okm = "SharedRandomness::generate" in a and "('arg', 3)" in a or ("generate" in a and "upvar" in a)
        ctx.ob(rule, "check_zero:verdict", okz, "Ok(opened r*v == 0)" if okz else "check_zero's verdict is not the comparison of the opened product with zero", site_of(cz))
        ctx.ob(rule, "check_zero:masks-with-random-r", okm, "v is multiplied by a fresh shared random r before opening" if okm else "check_zero opens v without a fresh random mask (leaks v) or does not multiply the input", site_of(cz, mul[0][0]) if mul else site_of(cz))


VEC_READ = re.compile(r"Vec::<T, A>::(len|is_empty|iter|capacity|as_slice|get|first|last|reserve|reserve_exact)$|Vec::<T>::(with_capacity|new)$|^std::ops::Index::index$|Deref::deref$|IntoIterator::into_iter$|Clone::clone$|Debug|fmt$")
VEC_GROW = re.compile(r"Vec::<T, A>::(push|extend|extend_from_slice|append)$|^std::ops::IndexMut::index_mut$|DerefMut::deref_mut$|Vec::<T, A>::(iter_mut|get_mut|as_mut_slice)$")


def batch_store_grows(ctx, facts, rule):
    """Recorded multiplication inputs are never discarded before they are proved: every operation on
    MultiplicationInputsBatch.vec either reads, writes in place, or grows it; resize_with(n) only under len <= n."""
    from vlib import bounds
    ctx.rule(f"{rule}: every call on MultiplicationInputsBatch.vec is a read, an in-place write or a growth; `resize_with(n, ..)` (which truncates when n < len) must be dominated by a guard edge implying len <= n; nothing else may shrink or replace the store before Batch::validate consumes it")
    P = "protocol::context::dzkp_validator::MultiplicationInputsBatch::"
    n = 0
    for b in sorted(facts.non_test_bodies(), key=lambda x: x.path):
        if not b.path.startswith(P) and not b.root.startswith(P):
            continue
        dom = None
        for bb, t in b.calls():
            if not t["args"]:
                continue
            e = flow.strip_casts(flow.expr_of(b, t["args"][0]))
            if not (e[0] in ("arg", "upvar", "place") and e[-1] == "vec"):
                continue
            fn = F.callee(t)[0] or ""
            short = fn.split("::")[-1]
            name = b.path.replace(P, "")
            n += 1
            if VEC_READ.search(fn) or VEC_GROW.search(fn):
                ctx.ob(rule, f"{name}:{short}", True, "read / in-place write / growth", site_of(b, bb))
                continue
            if fn.endswith("::resize_with") or fn.endswith("::resize"):
                dom = dom or b.dominators()
                target = bounds.lin_of(flow.expr_of(b, t["args"][1]))
                def p(f):
                    op, l, r = f
                    if op in ("Lt", "Le") and l[0] == "call" and l[1].endswith("::len") and flow.strip_casts(l[2][0]) == e:
                        g = bounds.lin_of(r)
                        return g.sym == target.sym and target.off >= g.off
                    if op in ("Gt", "Ge") and r is not None and r[0] == "call" and r[1].endswith("::len") and flow.strip_casts(r[2][0]) == e:
                        g = bounds.lin_of(l)
                        return g.sym == target.sym and target.off >= g.off
                    return False
                ok = flow.holds(b, dom, bb, p)
                ctx.ob(rule, f"{name}:{short}", ok, "resize only ever grows the store (guard implies len <= new length)" if ok else f"`{short}` is not dominated by a guard implying len <= new length: it truncates when records arrive out of block order, dropping already recorded multiplications from the proof (they are later re-created as all-zero, self-consistent blocks)", site_of(b, bb))
                continue
            ctx.ob(rule, f"{name}:{short}", False, f"`{short}` on the recorded-multiplications store can discard or replace inputs before they are proved", site_of(b, bb))
        # direct assignment to the field outside the constructor
        for bb, idx, s_ in b.iter_assigns():
            p_ = s_["p"]
            if len(p_) > 1 and isinstance(p_[-1], list) and p_[-1][0] == "f" and p_[-1][2:] == ["vec"] and "MultiplicationInputsBatch" in (b.local_ty(p_[0]) or ""):
                ctx.ob(rule, f"{b.path.replace(P, '')}:assign", False, "the store is replaced wholesale", site_of(b, bb, idx))
        ctx.count(bodies=1)
    ctx.floor(rule, "operations on the store", n, 8)


def segment_packing(ctx, facts, rule):
    """Slot arithmetic of the proof-input store: the (block, bit range) computed for a record of width w, extracted
    from insert_segment_small / insert_segment_large and evaluated for all widths, several batch shapes
    (first_record, max_multiplications incl. the unlimited usize::MAX) and many record ids, must give every record of
    the batch its own bits inside one 256-bit block - otherwise recorded multiplications overwrite each other and drop
    out of the proof (or the insert panics)."""
    from rules.C13 import ieval, NoEval, compile_expr
    ctx.rule(f"{rule}: for every width w in 1..=255, batch shape (first_record f, max_multiplications M in {{1,2,..,1024, usize::MAX}}) and record id r in f..f+min(M,1100) the extracted block index and bit range of insert_segment_small satisfy end - start = w, end <= 256 and the global bit intervals of distinct records are disjoint; for widths 256..1024 insert_segment_large gives the record with offset k the blocks [k*w/256, (k+1)*w/256)")
    P = "protocol::context::dzkp_validator::MultiplicationInputsBatch::"
    UMAX = (1 << 64) - 1

    def leaves(exprs):
        w = None
        for e in exprs:
            for nd in walk_all(e):
                nd_ = flow.strip_casts(nd)
                if nd_[0] == "call" and nd_[1].endswith("Segment::<'a>::len"):
                    w = nd_
        return w

    def env_for(wkey, w, r, f, M):
        env = {("call", "std::convert::From::from", (("arg", 2),)): r,
               ("call", "std::convert::From::from", (("call", "std::option::Option::<T>::unwrap", (("arg", 1, "first_record"),)),)): f,
               ("arg", 1, "max_multiplications"): M}
        if wkey is not None:
            env[wkey] = w
        return env

    shapes = [(0, UMAX), (0, 1), (0, 2), (4, 4), (0, 64), (128, 128), (0, 1024), (2048, 1024), (0, 4096)]
    b = facts.bodies.get(P + "insert_segment_small")
    if b is None:
        ctx.missing(rule, "insert_segment_small")
    else:
        ctx.count(bodies=1)
        blk_e = rng_e = None
        for bb, t in b.calls():
            fn = F.callee(t)[0] or ""
            if fn.endswith("IndexMut::index_mut") and "'vec'" in str(flow.expr_of(b, t["args"][0])):
                blk_e = (bb, flow.fold(flow.expr_of(b, t["args"][1], max_depth=40)))
            if re.search(r"::get_mut$", fn) and len(t["args"]) > 1:
                r = flow.expr_of(b, t["args"][1], max_depth=40)
                if r[0] == "agg" and isinstance(r[1], tuple) and r[1][0] == "std::ops::Range":
                    rng_e = (bb, flow.fold(r[2][0]), flow.fold(r[2][1]))
        if blk_e is None or rng_e is None:
            ctx.missing(rule, "block index / bit range in insert_segment_small")
        else:
            wkey = leaves([blk_e[1], rng_e[1], rng_e[2]])
            bad = None
            try:
                if wkey is None:
                    raise NoEval("segment length leaf not found")
                KEYS = [wkey] + list(env_for(None, 0, 0, 0, 0).keys())
                f_blk, f_st, f_en = compile_expr(blk_e[1], KEYS), compile_expr(rng_e[1], KEYS), compile_expr(rng_e[2], KEYS)
                for (f0, M) in shapes:
                    count = min(M, 1100) if M != UMAX else 1100
                    widths = range(1, 256) if (f0, M) in ((0, UMAX), (0, 1024)) else (1, 3, 5, 8, 20, 32, 64, 100, 255)
                    for w in widths:
                        iv = []
                        for r in range(f0, f0 + count):
                            blk, st, en = f_blk(w, r, f0, M), f_st(w, r, f0, M), f_en(w, r, f0, M)
                            if en - st != w or en > 256 or st < 0 or blk < 0:
                                bad = bad or (w, r, f0, M, f"bit range {st}..{en} in block {blk}")
                            iv.append((blk * 256 + st, blk * 256 + en, r))
                        iv.sort()
                        for (a0, a1, ka), (b0, b1, kb) in zip(iv, iv[1:]):
                            if b0 < a1:
                                bad = bad or (w, kb, f0, M, f"records {ka} and {kb} share bits {b0}..{min(a1, b1)} of the store")
                        if bad:
                            break
                    if bad:
                        break
                ok = bad is None
                why = "every record of every width and batch shape gets its own bits" if ok else f"width {bad[0]}, record {bad[1]} (batch starting at {bad[2]}, max_multiplications {'usize::MAX' if bad[3] == UMAX else bad[3]}): {bad[4]} - the later record overwrites the earlier one, whose multiplication is then never proved"
            except NoEval as u:
                ok, why = False, f"cannot evaluate the slot arithmetic ({u})"
            ctx.ob(rule, "small:slots-disjoint", ok, why, site_of(b, blk_e[0]))
    b = facts.bodies.get(P + "insert_segment_large")
    if b is None:
        ctx.missing(rule, "insert_segment_large")
        return
    ctx.count(bodies=1)
    base = None
    for bb, t in b.calls():
        if (F.callee(t)[0] or "").endswith("::resize_with"):
            base = (bb, flow.fold(flow.expr_of(b, t["args"][1], max_depth=40)))
    idx = None
    for bb, t in b.calls():
        if (F.callee(t)[0] or "").endswith("IndexMut::index_mut") and "'vec'" in str(flow.expr_of(b, t["args"][0])):
            idx = (bb, flow.fold(flow.expr_of(b, t["args"][1], max_depth=40)))
        elif idx is None and re.search(r"(<impl \[T\]>|Vec::<T, A>)::get_mut$", F.callee(t)[0] or "") and "'vec'" in str(flow.expr_of(b, t["args"][0])):
            idx = (bb, flow.fold(flow.expr_of(b, t["args"][1], max_depth=40)))          # `if let Some(block) = self.vec.get_mut(k)`: the same slot
    nblk = None
    for nd in (walk_all(idx[1]) if idx else []):
        if nd[0] == "agg" and isinstance(nd[1], tuple) and nd[1][0] == "std::ops::Range":
            nblk = flow.fold(nd[2][1])
    if base is None or idx is None or nblk is None:
        ctx.missing(rule, "block arithmetic in insert_segment_large")
        return
    wkey = leaves([base[1], idx[1]])
    try:
        if wkey is None:
            raise NoEval("segment length leaf not found")
        bad = None
        ival = [nd for nd in walk_all(idx[1]) if nd[0] == "proj" and "Iterator::next" in str(nd)]
        for (f0, M) in shapes:
            count = min(M, 300) if M != UMAX else 300
            for w in (256, 512, 768, 1024):
                for r in range(f0, f0 + count):
                    k = r - f0
                    env = env_for(wkey, w, r, f0, M)
                    first = ieval(base[1], env)
                    n = ieval(nblk, env)
                    if first != k * (w // 256) or n != w // 256:
                        bad = bad or (w, r, f0, M, first, n)
                    if ival:
                        env2 = dict(env)
                        env2[flow.strip_casts(ival[0])] = 0
                        if ieval(idx[1], env2) != first:
                            bad = bad or (w, r, f0, M, ieval(idx[1], env2), n)
        ok = bad is None
        why = "the record with offset k occupies blocks k*w/256 .. (k+1)*w/256" if ok else f"width {bad[0]}, record {bad[1]} (batch starting at {bad[2]}, max_multiplications {'usize::MAX' if bad[3] == UMAX else bad[3]}): first block {bad[4]}, {bad[5]} block(s) - records overlap or leave the store misaligned"
    except NoEval as u:
        ok, why = False, f"cannot evaluate the block arithmetic ({u})"
    ctx.ob(rule, "large:blocks-disjoint", ok, why, site_of(b, base[0]))


def batch_origin(ctx, facts, rule):
    """The Batcher cuts records into batches of M; the proof batch it creates for index k must start at record k*M
    with the same M, otherwise positions computed from (record - first_record) land in the wrong slots."""
    from rules.C13 import ieval, beval, guard_holds, NoEval
    ctx.rule(f"{rule} (origin): MaliciousDZKPValidator::new hands Batcher::new the same M = max_multiplications_per_gate that it gives every Batch::new, and the first_record argument of Batch::new, evaluated as a function of (batch index k, M) whatever its form (`(M != MAX).then(|| ..)`, if / else, match), is Some(RecordId::from(k * M)) for M = 1..8, k = 0..8 and None for M = usize::MAX (the unlimited single batch)")
    root = "protocol::context::dzkp_validator::MaliciousDZKPValidator::<'a, B>::new"
    top = facts.bodies.get(root)
    tree = facts.tree(root)
    ctor = next((b for b in tree if b.kind == "Closure" and flow.find_calls(b, re.compile(r"dzkp_validator::Batch::new$"))), None)
    if top is None or ctor is None:
        return ctx.missing(rule, "MaliciousDZKPValidator::new and its batch constructor closure")
    ctx.count(bodies=2)
    bn = flow.find_calls(top, re.compile(r"batcher::Batcher::<'a, B>::new$"))
    bc = flow.find_calls(ctor, re.compile(r"dzkp_validator::Batch::new$"))
    if len(bn) != 1 or len(bc) != 1:
        return ctx.ob(rule, "batch-origin", False, "constructor shape not recognised (one Batcher::new, one Batch::new expected)", site_of(ctor))
    MAXU = 18446744073709551615
    m_top = flow.expr_of(top, bn[0][1]["args"][0], max_depth=4)
    m_batch = flow.expr_of(ctor, bc[0][1]["args"][1], max_depth=4)
    same_m = m_top[0] == "arg" and m_batch[0] == "upvar" and flow.upvar_name(ctor, 0) is not None
    K = ("arg", 2)
    old = flow.CLOSURE_DEFS
    flow.CLOSURE_DEFS = True
    try:
        fr = flow.expr_of(ctor, bc[0][1]["args"][0], max_depth=8)

        def payload(e, env):
            """value of an expression that is RecordId::from(x) / x.into()"""
            e = flow.strip_casts(e)
            while e[0] == "call" and re.search(r"(From::from|Into::into)$", e[1]):
                e = flow.strip_casts(e[2][0])
            return ieval(e, env)

        def first_record(k, M):
            env = {K: k, m_batch: M}
            if fr[0] == "call" and fr[1].endswith("bool>::then"):
                cl = fr[2][1]
                inner = facts.bodies.get(cl[1][1]) if cl[0] == "agg" and isinstance(cl[1], tuple) else None
                if inner is None:
                    raise NoEval("closure of bool::then not found")
                if not beval(fr[2][0], env):
                    return None
                ienv = {}
                for i, src in enumerate(cl[2]):
                    nm = flow.upvar_name(inner, i)
                    ienv[("upvar", nm)] = ieval(flow.strip_casts(src), env)
                return payload(flow.expr_of(inner, {"cp": [0]}, max_depth=8), ienv)
            if fr[0] == "agg" and isinstance(fr[1], tuple) and fr[1][0] == "std::option::Option":
                return None if fr[1][1] == "None" else payload(fr[2][0], env)
            if fr[0] == "place" and len(fr) == 2:
                dom = ctor.dominators()
                eg = flow.edge_guards(ctor)
                vals = []
                for bb, idx, d in ctor.defs().get(fr[1], []):
                    if idx == "t" or d["k"] != "agg" or d.get("adt") != "std::option::Option":
                        raise NoEval("first_record is assigned something other than Some(..) / None")
                    if all(guard_holds(f, env) for tgt, f in eg if flow.dominates(dom, tgt, bb)):
                        vals.append(None if d.get("vn") == "None" else payload(flow.expr_of(ctor, d["ops"][0], max_depth=8), env))
                if len(vals) != 1:
                    raise NoEval(f"{len(vals)} definitions of first_record apply")
                return vals[0]
            raise NoEval("first_record: " + str(fr)[:60])

        bad = None
        try:
            for M in range(1, 9):
                for k in range(9):
                    v = first_record(k, M)
                    if v != k * M and bad is None:
                        bad = f"batch {k} with M = {M} starts at record {v}, the Batcher files records {k * M}..{k * M + M - 1} under it"
            if bad is None and first_record(0, MAXU) is not None:
                bad = "with an unlimited batch size (M = usize::MAX) first_record is not None: k * M overflows / the single batch is pinned to a record it does not start at"
        except NoEval as ex:
            bad = f"cannot evaluate first_record ({ex})"
    finally:
        flow.CLOSURE_DEFS = old
    ok = same_m and bad is None
    why = "Batcher and Batch use the same M; batch k starts at record k*M (None for the unlimited batch)" if ok else (bad or "the batch size handed to the Batcher is not the M given to each Batch")
    ctx.ob(rule, "batch-origin", ok, why, site_of(ctor))


def walk_all(e):
    out = []
    if isinstance(e, tuple):
        out.append(e)
        for x in e[1:]:
            if isinstance(x, tuple):
                if x and isinstance(x[0], str):
                    out.extend(walk_all(x))
                else:
                    for y in x:
                        out.extend(walk_all(y))
    return out


def reveal_impls(ctx, facts, rule):
    """Which opening routine each `Reveal` impl uses: on every malicious context (MAC-upgraded or DZKP-upgraded, sharded
    or not) the impl must go through malicious_reveal (two copies of every missing share are compared); only the
    semi-honest contexts may use semi_honest_reveal."""
    ctx.rule(f"{rule}: every `impl Reveal<C> for ..` whose context C lives in protocol::context::malicious or dzkp_malicious calls malicious_reveal and nothing else that opens; no body other than a semi-honest Reveal impl calls semi_honest_reveal; impls for semi_honest / dzkp_semi_honest contexts call semi_honest_reveal")
    n = 0
    for p, b in sorted(facts.bodies.items()):
        m = re.search(r"basics::reveal::Reveal<protocol::context::(\w+)::(\w+)<(.*?)>>>::generic_reveal::\{closure#0\}$", p)
        if not m or facts.is_test_path(p):
            continue
        module = m.group(1)
        opens = sorted({(F.callee(t)[0] or "").split("::")[-1] for bb, t in b.calls() if re.search(r"reveal::(malicious_reveal|semi_honest_reveal)$", F.callee(t)[0] or "")})
        n += 1
        ctx.count(bodies=1)
        want = "malicious_reveal" if module in ("malicious", "dzkp_malicious") else "semi_honest_reveal"
        short = re.sub(r"\b(\w+::)+", "", p.split(" as ")[0].lstrip("<")) + " / " + module + "::" + m.group(2) + ("<Sharded>" if "sharding::Sharded" in m.group(3) else "")
        ok = opens == [want]
        ctx.ob(rule, short, ok, f"opens through {want}" if ok else f"this Reveal impl for a {module} context opens through {opens or 'nothing'} instead of {want}: the two copies of each missing share are not compared, so an altered opening message is accepted", site_of(b))
    ctx.floor(rule, "Reveal impls", n, 7)
    # census: nobody else opens through the unchecked routine (check_zero, the MAC validator's opening of r and the
    # shuffle's key opening all go through malicious_reveal today)
    for p, b in sorted(facts.bodies.items()):
        if facts.is_test_path(p) or not b.file.startswith("ipa-core/") or re.search(r"basics::reveal::Reveal<protocol::context::", p) or p.startswith("protocol::basics::reveal::semi_honest_reveal"):
            continue
        sh = [bb for bb, t in b.calls() if re.search(r"reveal::semi_honest_reveal$", F.callee(t)[0] or "")]
        if sh:
            ctx.count(bodies=1)
            ctx.ob(rule, f"unchecked-open@{p.split('::{closure')[0][-90:]}", False, "semi_honest_reveal is called outside the Reveal impls of the semi-honest contexts: a value is opened from a single copy of the missing share, so a peer can open it to anything", site_of(b, sh[0]))


BARE_MULTIPLY_USERS = {
    # bodies outside the multiplication traits that call the unprotected replicated multiplication directly, each for a stated reason
    "protocol::basics::mul::malicious::mac_multiply": "the MAC multiplication is two bare multiplications (x*y and rx*y) whose consistency the MAC check decides",
    "protocol::basics::check_zero::malicious_check_zero": "check_zero multiplies by a fresh random share and reveals; it is the MAC validation's own last step",
    "protocol::context::malicious::<impl protocol::context::upgrade::Upgradable<": "upgrade computes r*x with a bare multiplication that the MAC accumulators then cover (C04 WIRE-upgrade)",
    "protocol::ipa_prf::shuffle::malicious::compute_and_add_tags": "shuffle tags are key*row products on semi-honest shares; the shuffle verification opens the keys and recomputes them (C05 TAG)",
}


def multiply_impls(ctx, facts, rule):
    """Which multiplication each impl of a multiplication trait dispatches to: the DZKP-malicious context must record the
    multiplication in the proof (zkp_multiply), the MAC-malicious context must duplicate it on r*x (mac_multiply); only
    semi-honest contexts may use the bare sh_multiply.  The census is over every body that calls a multiplication routine,
    so a second trait (BooleanArrayMul, one impl per bit-array width) or a new direct user cannot slip past."""
    ctx.rule(f"{rule}: every non-test body that calls zkp_multiply / mac_multiply / sh_multiply is either an impl of a trait in protocol::basics::mul for a context C - C in dzkp_malicious -> zkp_multiply, C in malicious -> mac_multiply, C in semi_honest / dzkp_semi_honest -> sh_multiply, exactly one routine per impl - or one of the frozen direct users of the bare multiplication, each with a reason")
    want = {"dzkp_malicious": "zkp_multiply", "malicious": "mac_multiply", "semi_honest": "sh_multiply", "dzkp_semi_honest": "sh_multiply"}
    alias = {"semi_honest_multiply": "sh_multiply"}
    n = {"SecureMul": 0, "BooleanArrayMul": 0}
    rx = re.compile(r"::(zkp_multiply|mac_multiply|sh_multiply|semi_honest_multiply)$")
    for p, b in sorted(facts.bodies.items()):
        if facts.is_test_path(p) or not b.file.startswith("ipa-core/"):
            continue
        muls = sorted({alias.get(x, x) for x in ((F.callee(t)[0] or "").split("::")[-1] for bb, t in b.calls() if rx.search(F.callee(t)[0] or ""))})
        m = re.search(r"protocol::basics::mul::(\w+)<protocol::context::(\w+)::(\w+)<", p)
        if not muls and not (m and re.search(r"::multiply(::\{closure#0\})?$", p)):
            continue
        if m:
            if not re.search(r"::multiply(::\{closure#0\})?$", p):
                continue
            if not muls and p.endswith("::multiply") and (p + "::{closure#0}") in facts.bodies:
                continue            # async fn shell; the coroutine body is judged
            trait, module, cty = m.group(1), m.group(2), m.group(3)
            n[trait] = n.get(trait, 0) + 1
            ctx.count(bodies=1)
            ok = muls == [want.get(module, "?")]
            width = re.search(r"boolean_array::\w+::(BA\d+)", p)
            inst = f"{trait}<{module}::{cty}>" + (f"[{width.group(1)}]" if width else "")
            ctx.ob(rule, inst, ok, f"dispatches to {want.get(module)}" if ok else f"{trait} for a {module} context dispatches to {muls or 'nothing'} instead of {want.get(module)}: the multiplication is not covered by the " + ("proof: a tampered product share is accepted" if module == "dzkp_malicious" else "mode's check"), site_of(b))
            continue
        if muls == ["sh_multiply"] or "sh_multiply" in muls:
            if p.startswith("protocol::basics::mul::semi_honest::") or p.startswith("protocol::basics::mul::sh_multiply"):
                continue            # the routine itself and its module
            why = next((r for k, r in BARE_MULTIPLY_USERS.items() if p.startswith(k)), None)
            ctx.count(bodies=1)
            ctx.ob(rule, f"bare-multiply@{p.split('::{closure')[0][-90:]}", why is not None, why or "the unprotected replicated multiplication is called outside the multiplication traits and outside the documented direct users: under a malicious context this product is covered by neither proof nor MAC", site_of(b))
    ctx.floor(rule, "SecureMul impls", n["SecureMul"], 5)
    ctx.floor(rule, "BooleanArrayMul impls", n["BooleanArrayMul"], 16)


# ---------------------------------------------------------------------------------------------
VALUE_WRAP = re.compile(r"(Deref::deref|Vec::<T, A>::as_slice|AsRef::as_ref|Borrow::borrow|Clone::clone|slice::<impl \[T\]>::to_vec|Try::branch|Future::poll|Pin::<Ptr>::new_unchecked|IntoFuture::into_future|IntoIterator::into_iter|From::from|Into::into)$")


def is_value_of(e, target_rx):
    return value_source(e, target_rx) is not None


def value_source(e, target_rx):
    """the call node matching target_rx whose returned value e is, seen only through references, derefs, await/?
    plumbing and identity-like conversions (not merely an expression that mentions it); None otherwise."""
    while isinstance(e, tuple) and e:
        if e[0] == "call":
            if re.search(target_rx, e[1]):
                return e
            if VALUE_WRAP.search(e[1]) and e[2]:
                e = e[2][0]
                continue
            return None
        if e[0] in ("proj", "ref", "deref", "cast", "copy", "move"):
            e = e[1]
            continue
        if e[0] == "un" and len(e) > 2:
            e = e[2]
            continue
        return None
    return None


def shuffle_verify_path(ctx, facts, rule):
    """No input makes the shuffle verification vacuous: the only ways out of verify_shuffle with Ok are through the
    role's hX_verify; inside h1/h2_verify every Ok lies behind the pass edge of every hash comparison, inside
    h3_verify behind all three hash sends; the keys the tags are recomputed with are the opened MAC keys."""
    ctx.rule(f"{rule}: verify_shuffle has no Ok of its own (every Ok return is the awaited h1/h2/h3_verify result, one arm per role, each after the awaited reveal_keys whose output is the `keys` argument); in h1_verify/h2_verify every Ok return is dominated by the pass edge of every hash comparison; in h3_verify by the completion of every hash send")
    base = "protocol::ipa_prf::shuffle::malicious::"
    vb = async_body(facts, base + "verify_shuffle")
    if vb is None:
        return ctx.missing(rule, "verify_shuffle")
    ctx.count(bodies=1)
    dom = vb.dominators()
    rk = settled_calls(vb, r"shuffle::malicious::reveal_keys$")
    rk_ok = len(rk) == 1 and rk[0][2] is not None and rk[0][2]["q"] is not None
    ctx.ob(rule, "verify_shuffle:opens-keys", rk_ok, "reveal_keys(..).await? opens the MAC keys" if rk_ok else "verify_shuffle does not await/propagate reveal_keys exactly once", site_of(vb, rk[0][0]) if rk else site_of(vb))
    readies = []
    for h in ("h1_verify", "h2_verify", "h3_verify"):
        cs = settled_calls(vb, r"shuffle::malicious::" + h + "$")
        ok = len(cs) == 1 and cs[0][2] is not None
        flows = False
        keys_ok = False
        if ok:
            bb, t, st = cs[0]
            readies.append(st["ready"])
            if st["out"] is not None:
                al = flow.local_aliases_fwd(vb, st["out"])
                for x, idx, s_ in vb.iter_assigns():
                    if s_["p"] == [0] and s_["r"]["k"] == "use" and F.op_local(s_["r"]["o"]) in al:
                        flows = True
            if st["q"] is not None:
                flows = True
            keys_ok = rk_ok and is_value_of(flow.expr_of(vb, t["args"][1]), r"shuffle::malicious::reveal_keys$") and flow.dominates(dom, rk[0][2]["ready"], bb)
        ctx.ob(rule, f"verify_shuffle:{h}:verdict-returned", ok and flows, f"the {h} verdict is the function's result" if ok and flows else f"verify_shuffle does not return the awaited {h} verdict", site_of(vb, cs[0][0]) if cs else site_of(vb))
        ctx.ob(rule, f"verify_shuffle:{h}:uses-opened-keys", keys_ok, "tags are recomputed with the opened keys" if keys_ok else f"{h} is not given the keys opened by reveal_keys (or runs before they are opened)", site_of(vb, cs[0][0]) if cs else site_of(vb))
    early = [ob_ for ob_ in ok_blocks(vb) if not any(flow.dominates(dom, r, ob_) for r in readies)]
    ctx.ob(rule, "verify_shuffle:no-ok-without-verify", not early, "no Ok return bypasses the role's verification" if not early else "verify_shuffle can return Ok without opening the keys and comparing hashes (verification skipped for some input)", site_of(vb, early[0]) if early else site_of(vb))
    # inside the per-role verifiers
    for h, nmin in (("h1_verify", 3), ("h2_verify", 1)):
        b = async_body(facts, base + h)
        if b is None:
            ctx.missing(rule, h)
            continue
        ctx.count(bodies=1)
        d = b.dominators()
        gs = guards(b, r"ConstantTimeEq::ct_ne$|PartialEq::ne$")
        oks = ok_blocks(b)
        if len(gs) < nmin:
            wg, wok = wrapper_guards(facts, b, r"ConstantTimeEq::ct_ne$|PartialEq::ne$", "ShuffleValidationFailed")
            gs, oks = gs + wg, oks + wok
        bad = [o for o in oks if not all(flow.dominates(d, ed[0], o) or ed[0] == o for _, _, ed, _ in gs)]
        good = bool(oks) and len(gs) >= nmin and not bad
        ctx.ob(rule, f"{h}:ok-behind-all-comparisons", good, f"every Ok lies behind the pass edge of all {len(gs)} comparisons" if good else f"{h} can return Ok without passing every hash comparison (early return / bypass)", site_of(b, bad[0]) if bad else site_of(b))
    b3 = async_body(facts, base + "h3_verify")
    if b3 is None:
        ctx.missing(rule, "h3_verify")
    else:
        ctx.count(bodies=1)
        d = b3.dominators()
        sends = []
        for bb, t in flow.find_calls(b3, re.compile(r"::send$")):
            if len(t["args"]) >= 3 and any(c[1].endswith("compute_and_hash_tags") for c in walk_calls(flow.expr_of(b3, t["args"][2]))):
                sends.append(bb)
        oks = ok_blocks(b3)
        # a send counts once its future is driven: joined (try_join) or awaited; require each send call itself to dominate Ok
        bad = [o for o in oks if not all(flow.dominates(d, s, o) for s in sends)]
        good = bool(oks) and len(sends) >= 3 and not bad
        ctx.ob(rule, "h3_verify:ok-behind-all-sends", good, f"every Ok lies behind all {len(sends)} hash sends" if good else "h3_verify can return Ok without sending every hash (the peers' comparison would never complete or be skipped)", site_of(b3, bad[0]) if bad else site_of(b3))


# ---------------------------------------------------------------------------------------------
SEG_FIELDS = ("x_left", "x_right", "y_left", "y_right", "prss_left", "prss_right", "z_right")


def _leaves(e, kind):
    out = []
    if isinstance(e, tuple) and e and isinstance(e[0], str):
        if e[0] == kind:
            out.append(e)
        for x in e[1:]:
            if isinstance(x, tuple):
                if x and isinstance(x[0], str):
                    out.extend(_leaves(x, kind))
                else:
                    for y in x:
                        out.extend(_leaves(y, kind))
    return out


def field_transport(ctx, facts, rule):
    """The seven recorded values of a multiplication keep their identity from zkp_multiply to the proof tables:
    x_left stays x_left etc. through Segment::from_entries, insert_segment_small / _large, Block::set / clone_from."""
    ctx.rule(f"{rule}: Segment / MultiplicationInputsBlock have the same seven fields; every function that stores positional parameters into them (Segment::from_entries, MultiplicationInputsBlock::set, ::clone_from) maps its parameters one-to-one onto the fields; at each call site the argument handed to parameter k is the like-named field of the source segment (x_left -> x_left, ...); insert_segment_small pairs segment.F with block.F; zkp_multiply hands from_entries (a.left, a.right, b.left, b.right, prss.0, prss.1, z.right) for (x_left, x_right, y_left, y_right, prss_left, prss_right, z_right) and the same (a, b, prss.0, prss.1) to the multiplication")
    P = "protocol::context::dzkp_validator::"
    for adt in ("Segment", "MultiplicationInputsBlock"):
        a = facts.adts.get(P + adt)
        names = tuple(f["name"] for f in a["variants"][0]["fields"]) if a else ()
        ctx.ob(rule, f"{adt}:seven-fields", set(names) == set(SEG_FIELDS), "x/y left/right, prss left/right, z_right" if set(names) == set(SEG_FIELDS) else f"{adt} has fields {names}: the transport table no longer matches the data model")
    sinks = {}
    for root in (P + "Segment::<'a>::from_entries", P + "MultiplicationInputsBlock::set", P + "MultiplicationInputsBlock::clone_from"):
        b = facts.bodies.get(root)
        if b is None:
            ctx.missing(rule, root)
            continue
        ctx.count(bodies=1)
        m = {}
        for bb, idx, s in b.iter_assigns():
            r = s["r"]
            fs = [e for e in s["p"][1:] if isinstance(e, list) and e[0] == "f" and e[2] in SEG_FIELDS]
            if fs and "o" in r:
                args = {x[1] for x in _leaves(flow.expr_of(b, r["o"], max_depth=20), "arg") if len(x) == 2}
                if len(args) == 1:
                    m.setdefault(args.pop(), set()).add(fs[0][2])
            if r["k"] == "agg" and (r.get("adt") or "").startswith(P) and r.get("adt", "").split("::")[-1] in ("Segment", "MultiplicationInputsBlock"):
                names = [f["name"] for f in facts.adts[r["adt"]]["variants"][0]["fields"]]
                for name, o in zip(names, r["ops"]):
                    args = {x[1] for x in _leaves(flow.expr_of(b, o, max_depth=20), "arg") if len(x) == 2}
                    if len(args) == 1:
                        m.setdefault(args.pop(), set()).add(name)
        one = len(m) == 7 and all(len(v) == 1 for v in m.values()) and {next(iter(v)) for v in m.values()} == set(SEG_FIELDS)
        short = root.split("::")[-2].split("<")[0] + "::" + root.split("::")[-1]
        ctx.ob(rule, f"{short}:parameters-onto-fields", one, "seven parameters, one field each" if one else f"parameters are not stored one-to-one into the seven fields: { {k: sorted(v) for k, v in sorted(m.items())} }", site_of(b))
        if one:
            sinks[root] = (b, {k: next(iter(v)) for k, v in m.items()})
    # call sites whose arguments are fields of a source segment
    nsites = 0
    for body in sorted(facts.non_test_bodies(), key=lambda x: x.path):
        for bb, t in body.calls():
            fn = F.callee(t)[0] or ""
            if fn not in sinks:
                continue
            sb, m = sinks[fn]
            rows = []
            for k, fld in sorted(m.items()):
                if k - 1 >= len(t["args"]):
                    continue
                e = flow.expr_of(body, t["args"][k - 1], max_depth=12)
                src = {n for x in _leaves(e, "arg") + _leaves(e, "upvar") + _leaves(e, "place") for n in x[2:] if n in SEG_FIELDS}
                rows.append((k, fld, src))
            if not any(src for _, _, src in rows):
                continue        # not fed from a segment (checked separately for zkp_multiply)
            nsites += 1
            bad = [(k, fld, sorted(src)) for k, fld, src in rows if src != {fld}]
            short = fn.split("::")[-1]
            ctx.ob(rule, f"{short}@{body.path.split('::')[-1]}:like-named-fields", not bad, "each parameter receives the like-named field of the segment" if not bad else f"parameter for `{bad[0][1]}` receives the segment's {bad[0][2] or 'no field'}: the recorded values are exchanged on this path (an honest batch fails the proof, or a wrong relation is proved)", site_of(body, bb))
    ctx.floor(rule, "segment-fed call sites of set / clone_from", nsites, 2)
    # insert_segment_small: (segment.F, &mut block.G) pairs
    b = facts.bodies.get(P + "MultiplicationInputsBatch::insert_segment_small")
    if b is None:
        ctx.missing(rule, "insert_segment_small")
    else:
        ctx.count(bodies=1)
        pairs = []
        for bb, idx, s in b.iter_assigns():
            r = s["r"]
            if r["k"] == "agg" and r.get("ak") == "tuple" and len(r["ops"]) == 2:
                a, c = flow.expr_of(b, r["ops"][0], max_depth=12), flow.expr_of(b, r["ops"][1], max_depth=12)
                fa = [n for n in a[2:] if n in SEG_FIELDS] if a[0] == "arg" else []
                fc = [n for n in c[2:] if n in SEG_FIELDS] if c[0] in ("proj", "arg", "place") else []
                if fa and fc:
                    pairs.append((bb, fa[0], fc[-1]))
        badp = [p for p in pairs if p[1] != p[2]]
        okp = len(pairs) == 7 and not badp and {p[1] for p in pairs} == set(SEG_FIELDS)
        ctx.ob(rule, "insert_segment_small:like-named-pairs", okp, "seven (segment.F, block.F) pairs" if okp else (f"segment.{badp[0][1]} is copied into block.{badp[0][2]}" if badp else f"{len(pairs)} (segment field, block field) pairs found, expected the seven fields once each"), site_of(b, (badp or pairs or [(None,)])[0][0]) if (badp or pairs) else site_of(b))
    # zkp_multiply: what is recorded is what was multiplied
    root = "protocol::basics::mul::dzkp_malicious::zkp_multiply"
    zb = async_body(facts, root)
    fe = P + "Segment::<'a>::from_entries"
    if zb is None or fe not in sinks:
        ctx.missing(rule, "zkp_multiply / from_entries")
        return
    ctx.count(bodies=1)
    from rules.C07 import params
    pn = params(facts, root)
    A, B = pn.get(3), pn.get(4)
    call = flow.find_calls(zb, re.compile(r"Segment::<'a>::from_entries$"))
    mp = flow.find_calls(zb, re.compile(r"multiplication_protocol$"))
    seg_args = [flow.expr_of(zb, a, max_depth=40) for a in call[0][1]["args"]] if len(call) == 1 else None
    if not call:
        # the segment may be assembled by a straight-line helper of the module that is handed the operands: its
        # from_entries arguments, with the caller's values substituted for its parameters
        for hb_, ht in zb.calls():
            fn_ = F.callee(ht)[0] or ""
            hb = facts.bodies.get(fn_)
            if hb is None or hb.coroutine or not fn_.startswith(root.rsplit("::", 1)[0]):
                continue
            hc = flow.find_calls(hb, re.compile(r"Segment::<'a>::from_entries$"))
            if len(hc) != 1 or any(hb.term(x)["k"] == "switch" for x in hb.live_blocks()):
                continue
            outer = [flow.expr_of(zb, a, max_depth=40) for a in ht["args"]]

            def subst(x):
                if isinstance(x, tuple):
                    if len(x) == 2 and x[0] == "arg" and isinstance(x[1], int) and 1 <= x[1] <= len(outer):
                        return outer[x[1] - 1]
                    return tuple(subst(y) for y in x)
                return x
            seg_args = [subst(flow.expr_of(hb, a, max_depth=40)) for a in hc[0][1]["args"]]
            call = [(hb_, ht)]
    if len(call) != 1 or len(mp) != 1 or A is None or B is None:
        ctx.ob(rule, "zkp_multiply:records-one-segment", False, "zkp_multiply does not build exactly one segment from one multiplication", site_of(zb))
        return
    def role(e):
        """(operand, side) the expression denotes, through as_segment_entry / references"""
        s = str(e)
        v = value_source(e, r"as_segment_entry$")
        inner = v[2][0] if v else e
        src = value_source(inner, r"(left_arr|right_arr)$")
        if src is not None:
            side = "left" if src[1].endswith("left_arr") else "right"
            base = src[2][0]
            if base[0] == "upvar" and len(base) == 2:
                return (("a" if base[1] == A else "b" if base[1] == B else base[1]), side)
            if value_source(base, r"multiplication_protocol$") is not None:
                return ("z", side)
            return ("?", side)
        g = [x for x in _leaves(inner, "proj") if x[1][0] == "call" and x[1][1].endswith("SharedRandomness::generate")]
        if g and inner[0] == "proj" and inner[1][0] == "call" and inner[1][1].endswith("SharedRandomness::generate"):
            return ("prss", {"0": "left", "1": "right", 0: "left", 1: "right"}.get(inner[2], "?"))
        return ("?", "?")
    WANT = {"x_left": ("a", "left"), "x_right": ("a", "right"), "y_left": ("b", "left"), "y_right": ("b", "right"), "prss_left": ("prss", "left"), "prss_right": ("prss", "right"), "z_right": ("z", "right")}
    _, m = sinks[fe]
    for k, fld in sorted(m.items()):
        got = role(seg_args[k - 1])
        ctx.ob(rule, f"zkp_multiply:{fld}", got == WANT[fld], f"{fld} = {got[0]}.{got[1]}" if got == WANT[fld] else f"{fld} is recorded as {got[0]}.{got[1]}, expected {WANT[fld][0]}.{WANT[fld][1]}: the proof is about other values than the ones multiplied", site_of(zb, call[0][0]))
    margs = [flow.expr_of(zb, a, max_depth=40) for a in mp[0][1]["args"]]
    got = []
    for e in margs[2:6]:
        if e[0] == "upvar" and len(e) == 2:
            got.append("a" if e[1] == A else "b" if e[1] == B else e[1])
        elif e[0] == "proj" and e[1][0] == "call" and e[1][1].endswith("SharedRandomness::generate"):
            got.append("prss." + str(e[2]))
        else:
            got.append("?")
    okm = got == ["a", "b", "prss.0", "prss.1"]
    ctx.ob(rule, "zkp_multiply:multiplies-what-it-records", okm, "multiplication_protocol(ctx, record, a, b, prss.0, prss.1)" if okm else f"the multiplication is given {got}, the segment records (a, b, prss.0, prss.1)", site_of(zb, mp[0][0]))


# ---------------------------------------------------------------------------------------------
def _hash_cover_loop(ctx, rule, b, nx, it, ser, upd, fin):
    N = nx[0][0]
    rets = [bb for bb in b.live_blocks() if b.term(bb)["k"] == "ret"]
    src = flow.expr_of(b, nx[0][1]["args"][0], max_depth=10)       # what the loop draws from
    whole = src == ("call", "std::iter::IntoIterator::into_iter", (("arg", 1),))
    ctx.ob(rule, "hash:iterates-its-whole-argument", whole, "for x in input" if whole else "the hash loop does not iterate the argument itself (an adaptor such as take / skip / step_by / filter leaves elements out of the hash)", site_of(b, it[0][0]))
    sw = flow.next_switch(b, b.term(N)["t"]) if "t" in b.term(N) else None
    why = None
    if sw is None:
        why = "no match on the iterator's next()"
    else:
        arms = [x for x in b.succs(sw) if b.term(x)["k"] != "unreachable"]
        some = [x for x in arms if N in b.reachable(x)]
        if len(some) != 1:
            why = "cannot tell the Some arm of the hash loop"
        else:
            S = some[0]
            U = {bb for bb, t in upd}
            # the element must be absorbed before the next one is fetched, and the loop may only be left through None
            if N in b.reachable(S, avoid=frozenset(U)):
                why = "an element can be fetched from the iterator without being absorbed by the hasher"
            elif any(r in b.reachable(S, avoid=frozenset([N])) for r in rets):
                why = "the hash loop can be left before the iterator is exhausted: the remaining elements are not hashed"
    ctx.ob(rule, "hash:absorbs-every-element", why is None, "every element is serialised and absorbed; the loop ends only with the iterator" if why is None else why, site_of(b, N))
    # serialize(x, buf) then update(sha, buf): same buffer, whole buffer, the element of this iteration
    sa = [flow.expr_of(b, a, max_depth=8) for a in ser[0][1]["args"]]
    ua = [flow.expr_of(b, a, max_depth=8) for a in upd[0][1]["args"]]
    oks = "Iterator::next" in str(sa[0]) and "'as:Some'" in str(sa[0]) and len(ser) == 1
    okb = len(upd) == 1 and sa[1] == ua[1] and sa[1][0] == "call" and sa[1][1].endswith("Default::default")
    ctx.ob(rule, "hash:element->buffer->hasher", oks and okb, "x.serialize(&mut buf); sha.update(&buf)" if oks and okb else ("the value serialised is not the element the loop fetched" if not oks else "the hasher is not fed the whole buffer the element was serialised into (a sub-slice or a different buffer)"), site_of(b, upd[0][0]))
    dom = b.dominators()
    okd = flow.dominates(dom, ser[0][0], upd[0][0])
    ctx.ob(rule, "hash:serialise-before-absorb", okd, "serialize dominates update" if okd else "the buffer is absorbed before the element was serialised into it", site_of(b, upd[0][0]))
    ret = flow.expr_of(b, {"cp": [0]}, max_depth=8)
    okr = ret[0] == "agg" and ret[2][0][0] == "agg" and str(ret[2][0][1]).endswith("'Hash')") and ret[2][0][2][0][0] == "call" and ret[2][0][2][0][1].endswith("Digest::finalize") and ret[2][0][2][0][2][0] == ua[0]
    ctx.ob(rule, "hash:returns-finalize-of-that-hasher", okr, "Hash(sha.finalize())" if okr else "the returned hash is not the finalisation of the hasher that absorbed the elements", site_of(b, fin[0][0]))


def _hash_cover_for_each(ctx, facts, rule, b, it, fin):
    """the closure form of the hash loop: for_each is exhaustive over into_iter(argument); its closure serialises its own
    parameter into a buffer and absorbs that whole buffer on every path; the hasher it captured is the one finalised"""
    from rules.C06 import upvar_sources
    old = flow.CLOSURE_DEFS
    flow.CLOSURE_DEFS = True
    try:
        fe = flow.find_calls(b, re.compile(r"Iterator::for_each$"))
        if len(fe) != 1:
            return False
        src = flow.expr_of(b, fe[0][1]["args"][0], max_depth=10)
        ce = flow.expr_of(b, fe[0][1]["args"][1], max_depth=4)
    finally:
        flow.CLOSURE_DEFS = old
    cb = facts.bodies.get(ce[1][1]) if ce[0] == "agg" and isinstance(ce[1], tuple) and ce[1][0] == "closure" else None
    if cb is None:
        return False
    ser = [(bb, t) for bb, t in cb.calls() if (F.callee(t)[0] or "").endswith("SerializeAs::serialize")]
    upd = [(bb, t) for bb, t in cb.calls() if re.search(r"Digest::update$|Update::update$", F.callee(t)[0] or "")]
    if not ser or not upd:
        return False
    ctx.count(bodies=1)
    whole = src == ("call", "std::iter::IntoIterator::into_iter", (("arg", 1),))
    ctx.ob(rule, "hash:iterates-its-whole-argument", whole, "input.into_iter().for_each(..)" if whole else "the hash loop does not iterate the argument itself (an adaptor such as take / skip / step_by / filter leaves elements out of the hash)", site_of(b, fe[0][0]))
    rets = [bb for bb in cb.live_blocks() if cb.term(bb)["k"] == "ret"]
    U = {bb for bb, t in upd}
    skip = any(r in cb.reachable(0, avoid=frozenset(U)) for r in rets) and 0 not in U
    ctx.ob(rule, "hash:absorbs-every-element", not skip, "every element is serialised and absorbed; for_each visits all of them" if not skip else "the closure can return without the element being absorbed by the hasher", site_of(cb))
    sa = [flow.expr_of(cb, a, max_depth=8) for a in ser[0][1]["args"]]
    ua = [flow.expr_of(cb, a, max_depth=8) for a in upd[0][1]["args"]]
    ups = upvar_sources(facts, b, cb.path)
    def res(e):
        return ups.get(e[1], e) if e[0] == "upvar" else e
    oks = flow.strip_casts(sa[0])[:2] == ("arg", 2) and len(ser) == 1
    okb = len(upd) == 1 and sa[1] == ua[1] and (lambda x: x[0] == "call" and x[1].endswith("Default::default"))(res(sa[1]))
    ctx.ob(rule, "hash:element->buffer->hasher", oks and okb, "x.serialize(&mut buf); sha.update(&buf)" if oks and okb else ("the value serialised is not the element the loop fetched" if not oks else "the hasher is not fed the whole buffer the element was serialised into"), site_of(cb, upd[0][0]))
    okd = flow.dominates(cb.dominators(), ser[0][0], upd[0][0])
    ctx.ob(rule, "hash:serialise-before-absorb", okd, "serialize dominates update" if okd else "the buffer is absorbed before the element was serialised into it", site_of(cb, upd[0][0]))
    ret = flow.expr_of(b, {"cp": [0]}, max_depth=8)
    okr = ret[0] == "agg" and ret[2][0][0] == "agg" and str(ret[2][0][1]).endswith("'Hash')") and ret[2][0][2][0][0] == "call" and ret[2][0][2][0][1].endswith("Digest::finalize") and ret[2][0][2][0][2][0] == res(ua[0])
    ctx.ob(rule, "hash:returns-finalize-of-that-hasher", okr, "Hash(sha.finalize())" if okr else "the returned hash is not the finalisation of the hasher that absorbed the elements", site_of(b, fin[0][0]))
    return True


def hash_cover(ctx, facts, rule="HASH-cover"):
    """Every consistency check between helpers that compares hashes (shuffle verification, Fiat-Shamir challenges of the
    multiplication proofs, proof-share hashes exchanged by the verifiers) is only as strong as the hash's coverage of
    its input: an element that is not absorbed can be altered freely.  Honest runs cannot notice, both sides skip it."""
    ctx.rule(f"{rule}: compute_hash_internal iterates its whole argument (into_iter of the parameter itself, loop left only when next() is None), serialises each element into the buffer and absorbs the whole buffer (Digest::update on the same hasher) on every path back to next(), and returns Hash(finalize()) of that hasher; compute_hash / compute_possibly_empty_hash return component 0 of compute_hash_internal(their whole argument), compute_hash only after the non-empty assertion; hash_to_field combines both hashes")
    H = "helpers::hashing::"
    b = facts.bodies.get(H + "compute_hash_internal")
    if b is None:
        return ctx.missing(rule, "compute_hash_internal")
    ctx.count(bodies=1)
    nx = [(bb, t) for bb, t in b.calls() if (F.callee(t)[0] or "").endswith("Iterator::next")]
    it = [(bb, t) for bb, t in b.calls() if (F.callee(t)[0] or "").endswith("IntoIterator::into_iter")]
    ser = [(bb, t) for bb, t in b.calls() if (F.callee(t)[0] or "").endswith("SerializeAs::serialize")]
    upd = [(bb, t) for bb, t in b.calls() if re.search(r"Digest::update$|Update::update$", F.callee(t)[0] or "")]
    fin = [(bb, t) for bb, t in b.calls() if re.search(r"Digest::finalize$", F.callee(t)[0] or "")]
    if not nx and len(fin) == 1 and it and _hash_cover_for_each(ctx, facts, rule, b, it, fin):
        pass        # `input.into_iter().for_each(|x| { serialize; update })`: judged in the closure
    elif len(nx) != 1 or not it or not ser or not upd or len(fin) != 1:
        return ctx.missing(rule, f"compute_hash_internal: one next / finalize and into_iter, serialize, update calls (found {len(nx)}/{len(fin)}, {len(it)}, {len(ser)}+{len(upd)})")
    else:
        _hash_cover_loop(ctx, rule, b, nx, it, ser, upd, fin)
    for name, need_assert in (("compute_hash", True), ("compute_possibly_empty_hash", False)):
        w = facts.bodies.get(H + name)
        if w is None:
            ctx.missing(rule, name)
            continue
        ctx.count(bodies=1)
        r = flow.expr_of(w, {"cp": [0]}, max_depth=8)
        ok = r == ("proj", ("call", H + "compute_hash_internal", (("arg", 1),)), 0)
        ctx.ob(rule, f"{name}:forwards-whole-input", ok, "compute_hash_internal(input).0" if ok else "the wrapper does not return the hash of its whole argument", site_of(w))
        if need_assert:
            dbg = flow.debug_only_blocks(w)
            pan = [bb for bb, t in w.calls() if re.search(r"panicking::panic", F.callee(t)[0] or "") and bb not in dbg]     # a debug_assert! is not there in the shipped build
            g = [f for tgt, f in flow.edge_guards(w) if f[1] is not None and "compute_hash_internal" in str(f[1])]
            oka = bool(pan) and bool(g)
            ctx.ob(rule, "compute_hash:refuses-empty-input", oka, "an empty input panics (no fail-open hash of nothing)" if oka else "compute_hash no longer refuses an empty input: a check that hashes an empty table passes trivially", site_of(w))
    # who may hash "possibly nothing": only the shuffle's tag hash, whose table may legitimately be empty on a shard
    for p, ub in sorted(facts.bodies.items()):
        if facts.is_test_path(p) or not ub.file.startswith("ipa-core/") or p.startswith(H):
            continue
        if any((F.callee(t)[0] or "").endswith("hashing::compute_possibly_empty_hash") or (F.callee(t)[0] or "").endswith("hashing::compute_hash_internal") for bb, t in ub.calls()):
            ctx.count(bodies=1)
            ok = p.startswith("protocol::ipa_prf::shuffle::malicious::compute_and_hash_tags")
            ctx.ob(rule, f"possibly-empty-hash@{p.split('::{closure')[0][-80:]}", ok, "the shuffle's tag hash may cover an empty table (a shard without rows)" if ok else "a hash that accepts an empty input is used outside the shuffle's tag hash: a proof / share check over nothing passes trivially", site_of(ub))
    h2f = facts.bodies.get(H + "hash_to_field")
    if h2f is None:
        return ctx.missing(rule, "hash_to_field")
    ctx.count(bodies=1)
    ch = [(bb, t) for bb, t in h2f.calls() if (F.callee(t)[0] or "").endswith("hashing::compute_hash")]
    ok = False
    if len(ch) == 1:
        e = flow.expr_of(h2f, ch[0][1]["args"][0], max_depth=8)
        ok = e[0] == "agg" and e[1] == "array" and tuple(e[2]) == (("arg", 1), ("arg", 2))
    ctx.ob(rule, "hash_to_field:combines-both-hashes", ok, "compute_hash([left, right])" if ok else "the challenge is not derived from both hashes (left, right) in this order: one verifier's view does not bind it", site_of(h2f, ch[0][0]) if ch else site_of(h2f))
