"""C11  A report submitted twice in one query is rejected wherever the copies land.

Decided statically (structural part; DESIGN.md §3/C11), in the closure tree of the hybrid query runner:
  ORDER      reshard_aad(..).await? settles before UniqueTagValidator::check_duplicates, whose Result is
             `?`-propagated, and that Continue edge dominates the call creating hybrid_protocol
             ("before attribution starts, the query cannot complete").
  FLOW       the slice checked is the tag component (field 1) of reshard_aad's result; each tag is
             UniqueTag::from_unique_bytes(&enc_report) of the very report that is decrypted; unique_bytes of an
             encrypted report is a fixed prefix of the match-key ciphertext.
  ROUTE      the shard-picker closure returns tag.shard_picker(ctx.shard_count()) and does not read its RecordId
             argument: equal tags go to the same shard whatever their position.
  GUARD      check_duplicate returns Ok only on the `true` edge of HashSet::insert (first occurrence), otherwise
             Err(DuplicateBytes); check_duplicates propagates the first error.
  RANGE      shard_picker = from_le_bytes(bytes) % shard_count  (< shard_count, deterministic in the tag).
"""
import re
from vlib import facts as F, flow
from vlib.core import site_of
from rules import malsec

LEVEL = "other"
EXPLANATION = "C11: ordering of the duplicate check between resharding and the protocol, provenance of the checked collection and tags, position-independence of routing, guard polarity of the set insertion."

ROOT = "query::runner::hybrid::Query::<C, HV, R>::execute"


def run(ctx):
    input_bound(ctx, ctx.facts())
    from rules import C19
    C19.core(ctx, ctx.facts())         # "wherever the copies land": the exchange that brings equal tags to one shard
    C19.shard_counts(ctx, ctx.facts()) # both copies meet only if every shard uses the same modulus
    from rules import C17
    C17.items_flushed(ctx, ctx.facts())        # every report parsed from the request body is delivered to the runner (none dropped between chunks)
    C17.deferred_error_first(ctx, ctx.facts())
    C17.parse_errors(ctx, ctx.facts())
    C17.state(ctx, ctx.facts())
    facts = ctx.facts()
    tree = [b for b in facts.tree(ROOT) if b.file.startswith("ipa-core/")]
    if not tree:
        return ctx.missing("ORDER", ROOT)
    ctx.count(bodies=len(tree))
    main = None
    for b in tree:
        if b.coroutine and flow.find_calls(b, re.compile(r"reshard_tag::reshard_aad$")):
            main = b
    if main is None:
        return ctx.missing("ORDER", "body of execute calling reshard_aad")
    order(ctx, facts, main)
    flow_rules(ctx, facts, main, tree)
    route(ctx, facts, main, tree)
    guard(ctx, facts)
    rng(ctx, facts)
    ctx.assume("distinct reports colliding on the 16-byte tag is a probabilistic event, not decided")


def dup_check_calls(facts, b):
    """[(bb, terminator, operand holding the tags)]: calls of UniqueTagValidator::check_duplicates, or of a small wrapper
    in the runner module that builds a validator and returns check_duplicates(<its own argument>) unchanged"""
    out = [(bb, t, t["args"][1]) for bb, t in flow.find_calls(b, re.compile(r"UniqueTagValidator::check_duplicates$"))]
    for p_, wb in facts.bodies.items():
        if not p_.startswith("query::runner::hybrid::") or "::{closure" in p_ or facts.is_test_path(p_) or wb is b:
            continue
        cs = flow.find_calls(wb, re.compile(r"UniqueTagValidator::check_duplicates$"))
        if len(cs) != 1:
            continue
        passes_arg = "('arg', 1)" in str(flow.expr_of(wb, cs[0][1]["args"][1], max_depth=8))
        ret = flow.strip_casts(flow.expr_of(wb, {"cp": [0]}, max_depth=8))
        returns_it = ret[0] == "call" and ret[1].endswith("UniqueTagValidator::check_duplicates")
        if passes_arg and returns_it:
            out += [(bb, t, t["args"][0]) for bb, t in b.calls() if (F.callee(t)[0] or "") == p_]
    return out


def order(ctx, facts, b):
    ctx.rule("ORDER: reshard_aad settled(`?`) < check_duplicates (`?`) < hybrid_protocol")
    dom = b.dominators()
    ra = flow.find_calls(b, re.compile(r"reshard_tag::reshard_aad$"))
    cd = [(bb, t) for bb, t, _ in dup_check_calls(facts, b)]
    hp = flow.find_calls(b, re.compile(r"protocol::hybrid::hybrid_protocol$"))
    if not cd:
        return ctx.ob("ORDER", "check-present", False, "the query runner no longer checks the resharded tags for duplicates", site_of(b))
    if not ra or not hp:
        return ctx.missing("ORDER", "reshard_aad / hybrid_protocol calls")
    st = flow.settled(b, ra[0][0])
    ok1 = st is not None and st["q"] is not None and all(flow.dominates(dom, st["q"][1], x) for x, _ in cd)
    ctx.ob("ORDER", "reshard-before-check", ok1, "tags are checked after resharding completed" if ok1 else "duplicates are checked before the tags were routed to their shard (copies on different shards are not seen together)", site_of(b, cd[0][0]))
    q = flow.question_mark(b, cd[0][1]["d"][0])
    ok2 = q is not None
    ctx.ob("ORDER", "check-result-propagated", ok2, "check_duplicates(..)? : the duplicate error ends the query" if ok2 else "the Result of check_duplicates is dropped: duplicates are detected but ignored", site_of(b, cd[0][0]))
    ok3 = q is not None and all(flow.dominates(dom, q[1], x) for x, _ in hp)
    ctx.ob("ORDER", "check-before-protocol", ok3, "attribution starts only after the duplicate check passed" if ok3 else "hybrid_protocol can start before / without the duplicate check having passed", site_of(b, hp[0][0]))


def flow_rules(ctx, facts, b, tree):
    ctx.rule("FLOW: check_duplicates(&resharded_tags) with resharded_tags = reshard_aad(..).1; tag = UniqueTag::from_unique_bytes(&enc_report) of the report being decrypted; unique_bytes = mk_ciphertext()[0..TAG_SIZE]")
    cdx = dup_check_calls(facts, b)
    cd = [(bb, t) for bb, t, _ in cdx]
    if cd:
        e = flow.expr_of(b, cdx[0][2])
        s = str(e)
        ok = "reshard_aad" in s or "Future::poll" in s
        # the tuple component: second element of the awaited pair
        comp1 = re.search(r"'1'\)|, 1\)", s) is not None or "'1'" in s
        org = flow.origins(b, cdx[0][2], through_calls=(r"Deref::deref$", r"Try::branch$"))
        ctx.ob("FLOW", "checks-resharded-tags", comp1, "the collection checked is the tag component of reshard_aad's result" if comp1 else f"the collection checked is not reshard_aad(..).1: {s[:160]}", site_of(b, cd[0][0]))
    # tag and decrypt on the same report
    found = False
    # (decrypt + tag may sit in a helper fn of the runner's module that the stream adapter calls per report)
    helpers = [facts.bodies[fn] for x in tree for _, t in x.calls() for fn in [F.callee(t)[0] or ""] if fn in facts.bodies and fn.startswith("query::runner::hybrid::") and facts.bodies[fn] not in tree]
    for tb in list(tree) + helpers:
        fu = flow.find_calls(tb, re.compile(r"UniqueTag::from_unique_bytes$"))
        de = flow.find_calls(tb, re.compile(r"EncryptedHybridReport::<BK, V>::decrypt$|::decrypt$"))
        if fu and de:
            found = True
            a = malsec._base_locals(tb, fu[0][1]["args"][0])
            d = malsec._base_locals(tb, de[0][1]["args"][0])
            ok = bool(a & d)
            ctx.ob("FLOW", "tag-of-decrypted-report", ok, "the tag is taken from the same encrypted report that is decrypted" if ok else "the uniqueness tag is computed from a different value than the report being decrypted", site_of(tb, fu[0][0]))
    if not found:
        ctx.ob("FLOW", "tag-of-decrypted-report", False, "no closure computes UniqueTag::from_unique_bytes next to decrypt", None)
    ub = [x for p, x in facts.bodies.items() if re.match(r"^<report::hybrid::EncryptedHybridReport<BK, V> as report::hybrid::UniqueBytes>::unique_bytes$", p)]
    if not ub:
        ctx.missing("FLOW", "UniqueBytes for EncryptedHybridReport")
    else:
        u = ub[0]
        rngs = [[flow.expr_of(u, o) for o in s["r"]["ops"]] for _, _, s in u.iter_assigns() if s["r"]["k"] == "agg" and s["r"].get("adt") == "std::ops::Range"]
        mk = bool(flow.find_calls(u, re.compile(r"mk_ciphertext$")))
        ok = mk and len(rngs) == 1 and rngs[0][0] == ("const", 0) and rngs[0][1][0] == "const" and rngs[0][1][1] == 16
        if mk and not rngs:
            # `[..TAG_SIZE]` is the same prefix
            rto = [[flow.expr_of(u, o) for o in s_["r"]["ops"]] for _, _, s_ in u.iter_assigns() if s_["r"]["k"] == "agg" and s_["r"].get("adt") == "std::ops::RangeTo"]
            ok = len(rto) == 1 and rto[0][0][0] == "const" and rto[0][0][1] == 16
            rngs = rto
        ctx.ob("FLOW", "unique-bytes-prefix", ok, "unique_bytes = mk_ciphertext()[0..16]" if ok else f"unique_bytes is not the 16-byte ciphertext prefix ({rngs})", site_of(u))


def route(ctx, facts, b, tree):
    ctx.rule("ROUTE: the shard picker passed to reshard_aad is |ctx, _, tag| tag.shard_picker(ctx.shard_count()); its RecordId parameter is never read")
    ra = flow.find_calls(b, re.compile(r"reshard_tag::reshard_aad$"))
    pick = None
    for tb in tree:
        if tb.kind == "Closure" and flow.find_calls(tb, re.compile(r"UniqueTag::shard_picker$")):
            pick = tb
    if pick is None:
        return ctx.ob("ROUTE", "picker-uses-tag", False, "the shard picker does not route by tag.shard_picker(..)", site_of(b, ra[0][0]) if ra else None)
    sp = flow.find_calls(pick, re.compile(r"UniqueTag::shard_picker$"))
    e0 = flow.expr_of(pick, sp[0][1]["args"][0])
    e1 = flow.expr_of(pick, sp[0][1]["args"][1])
    ok = e0[:2] == ("arg", 4) and "shard_count" in str(e1) and "('arg', 2" in str(e1)
    ctx.ob("ROUTE", "picker-uses-tag", ok, "destination = tag.shard_picker(ctx.shard_count())" if ok else f"destination is computed from {str(e0)[:80]} / {str(e1)[:80]}", site_of(pick, sp[0][0]))
    # RecordId parameter (_3) unused
    used = False
    for bb, bl in enumerate(pick.blocks):
        txt = str(bl)
        if re.search(r"\{'(cp|mv)': \[3[\],]", txt):
            used = True
    ctx.ob("ROUTE", "position-independent", not used, "the record position does not influence routing" if not used else "the shard picker reads its RecordId argument: two copies of a report at different positions can land on different shards", site_of(pick))
    rets = [F.callee(t)[0] for bb, t in pick.calls() if t["d"] == [0]]
    ctx.ob("ROUTE", "returns-picker-result", any((r or "").endswith("UniqueTag::shard_picker") for r in rets), "the closure returns shard_picker's result unchanged", site_of(pick))


def guard(ctx, facts):
    ctx.rule("GUARD: check_duplicate: Ok only if HashSet::insert returned true; Err(DuplicateBytes) otherwise; check_duplicates = items.iter().try_for_each(check_duplicate)?")
    cd = facts.bodies.get("report::hybrid::UniqueTagValidator::check_duplicate")
    ins = facts.bodies.get("report::hybrid::UniqueTagValidator::insert")
    cds = facts.bodies.get("report::hybrid::UniqueTagValidator::check_duplicates")
    if not (cd and cds):
        return ctx.missing("GUARD", "UniqueTagValidator::{check_duplicate, check_duplicates}")
    ctx.count(bodies=3 if ins else 2)
    # the set insertion may go through the private insert() wrapper or be written directly in check_duplicate
    INS = r"UniqueTagValidator::insert$" if ins else r"HashSet.*::insert$"
    malsec.verdict_guard(ctx, "GUARD", "check_duplicate", cd, INS, False, "DuplicateBytes", 1, "value already present")
    g = malsec.guards(cd, INS)
    if g:
        arg = str(g[0][3][2][1]) if len(g[0][3][2]) > 1 else ""
        ctx.ob("GUARD", "check_duplicate:inserts-item-bytes", "unique_bytes" in arg, "the inserted key is item.unique_bytes()", site_of(cd, g[0][0]))
    if ins:
        e = flow.expr_of(ins, {"cp": [0]})
        ok = e[0] == "call" and e[1].endswith("HashSet::<T, S, A>::insert") or (e[0] == "call" and "HashSet" in e[1] and e[1].endswith("insert"))
        ctx.ob("GUARD", "insert:is-set-insert", ok, "insert() returns HashSet::insert's `newly inserted` flag" if ok else f"insert() returns {str(e)[:100]}", site_of(ins))
    else:
        ok = bool(g) and "hash_set" in flow.field_names_in(g[0][3][2][0]) if g else False
        ctx.ob("GUARD", "insert:is-set-insert", ok, "check_duplicate tests HashSet::insert's `newly inserted` flag on the validator's own set" if ok else "the tested insertion is not into the validator's set", site_of(cd))
    tfe = flow.find_calls(cds, re.compile(r"Iterator::try_for_each$"))
    q = flow.question_mark(cds, tfe[0][1]["d"][0]) if tfe else None
    direct = flow.find_calls(cds, re.compile(r"UniqueTagValidator::check_duplicate$"))
    loop_form = False
    if not tfe and direct:
        # `for item in items { self.check_duplicate(item)?; }`: the call sits in an exhaustive loop over the argument and
        # its error is propagated
        q = flow.question_mark(cds, direct[0][1]["d"][0])
        nx = [(bb, t) for bb, t in cds.calls() if (F.callee(t)[0] or "").endswith("Iterator::next") and "('arg', 2)" in str(flow.expr_of(cds, t["args"][0], max_depth=8))]
        item = str(flow.expr_of(cds, direct[0][1]["args"][1], max_depth=10))
        rets_ = [x for x in cds.live_blocks() if cds.term(x)["k"] == "ret"]
        errs_ = {bb for bb, t in cds.calls() if re.search(r"FromResidual", F.callee(t)[0] or "")}
        loop_form = len(nx) == 1 and "Iterator::next" in item and not any(r_ in cds.reachable(direct[0][0], avoid=frozenset([nx[0][0]]) | errs_) for r_ in rets_)
    ctx.ob("GUARD", "check_duplicates:propagates", q is not None, "the first duplicate error is returned" if q else "errors from check_duplicate are not propagated", site_of(cds))
    clos = [x for x in facts.tree("report::hybrid::UniqueTagValidator::check_duplicates") if x.kind == "Closure"]
    okc = any(flow.find_calls(x, re.compile(r"UniqueTagValidator::check_duplicate$")) for x in clos)
    okc = okc or loop_form
    ctx.ob("GUARD", "check_duplicates:per-item", okc, "every item goes through check_duplicate", site_of(cds))


def rng(ctx, facts):
    ctx.rule("RANGE: UniqueTag::shard_picker is a function of the tag bytes and the shard count only, and - evaluated for 1..8 shards and sample tag values - lies in [0, shard_count) and reaches every shard")
    b = facts.bodies.get("report::hybrid::UniqueTag::shard_picker")
    if b is None:
        return ctx.missing("RANGE", "UniqueTag::shard_picker")
    tf = flow.find_calls(b, re.compile(r"TryFrom::try_from$"))
    from rules.C13 import ieval, NoEval
    ok, why = False, "shard_picker does not convert a computed index with try_from"
    if tf:
        e = flow.expr_of(b, tf[0][1]["args"][0], max_depth=14)
        nums = [x for x in malsec.walk_calls(e) if re.search(r"from_(le|be|ne)_bytes$", x[1]) and x[2] and x[2][0][:3] == ("arg", 1, "bytes")]
        others = [x for x in malsec._leaves(e, "arg") if x[:2] not in (("arg", 1), ("arg", 2))] + [x for x in malsec._leaves(e, "arg") if x[:2] == ("arg", 1) and x[:3] != ("arg", 1, "bytes")]
        if not nums or others:
            why = "the shard index is not a function of the tag bytes and the shard count only"
        else:
            bad = None
            try:
                for cnt in range(1, 9):
                    seen = set()
                    for num in sorted({(k << sh) & (2 ** 128 - 1) for k in range(0, 40) for sh in (0, 8, 32, 64, 96, 120)} | {2 ** 64 - 1, 2 ** 128 - 1}):
                        v = ieval(e, {nums[0]: num, ("arg", 2): cnt, ("arg", 2, "0"): cnt})
                        seen.add(v)
                        if not (0 <= v < cnt) and bad is None:
                            bad = f"tag value {num} with {cnt} shards is routed to shard {v} (out of range)"
                    if len(seen) != cnt and bad is None:
                        bad = f"with {cnt} shards only shards {sorted(seen)} are ever picked"
            except NoEval as ex:
                bad = f"cannot evaluate the shard index ({ex})"
            ok, why = bad is None, (bad or "index = f(tag bytes, shard_count) in [0, shard_count), every shard reachable (evaluated for 1..8 shards)")
    ctx.ob("RANGE", "picker-shape", ok, why, site_of(b))


def input_bound(ctx, facts):
    """Every report of the shard's input has to be decrypted and tagged before the duplicate check can mean anything:
    the only bound on how many are read is `.take(query_size)` with the query's own declared size, handed through
    unchanged.  A smaller bound (e.g. size / shard_count) silently cuts the tail of an unevenly loaded shard - and a
    copy of a report sitting in that tail is never compared."""
    ctx.rule("BOUND-input: execute_hybrid_protocol passes `config.size` verbatim (lossless conversions only) as query_size to Query::execute, and execute limits its input stream with take(usize::from(query_size)) of that same parameter and with nothing else")
    tree = [b for b in facts.tree("query::runner::hybrid::execute_hybrid_protocol") if b.coroutine]
    call = None
    for b in tree:
        for bb, t in b.calls():
            if (F.callee(t)[0] or "").endswith("Query::<C, HV, R>::execute"):
                call = (b, bb, t)
    if call is None:
        ctx.missing("BOUND-input", "Query::execute call in execute_hybrid_protocol")
    else:
        b, bb, t = call
        ctx.count(bodies=1)
        e = flow.strip_casts(flow.expr_of(b, t["args"][2], max_depth=20))
        while e[0] == "call" and re.search(r"(From::from|Into::into|Clone::clone|TryFrom::try_from|Result::<T, E>::(unwrap|expect))$", e[1]) and e[2]:
            e = flow.strip_casts(e[2][0])
        ok = e[0] == "proj" and e[-1] == "size" and e[1][0] in ("upvar", "arg")
        ctx.ob("BOUND-input", "size-handed-through", ok, "query_size = config.size" if ok else f"the size given to Query::execute is `{str(e)[:100]}`, not the query's declared size: a shard holding more than that many reports drops the rest unseen (a duplicate in the dropped tail is never detected)", site_of(b, bb))
    ex = [b for b in facts.tree("query::runner::hybrid::Query::<C, HV, R>::execute") if b.coroutine]
    takes = []
    for b in ex:
        for bb, t in b.calls():
            if re.search(r"StreamExt::(take|take_while|take_until|skip|skip_while|step_by)$|Iterator::(take|skip|step_by)$", F.callee(t)[0] or ""):
                takes.append((b, bb, t))
    okt = len(takes) == 1 and (F.callee(takes[0][2])[0] or "").endswith("StreamExt::take")
    if okt:
        b, bb, t = takes[0]
        n = flow.strip_casts(flow.expr_of(b, t["args"][1], max_depth=12))
        while n[0] == "call" and re.search(r"(From::from|Into::into)$", n[1]) and n[2]:
            n = flow.strip_casts(n[2][0])
        pn = None
        root = facts.bodies.get("query::runner::hybrid::Query::<C, HV, R>::execute")
        if root is not None:
            names = {v["p"][0]: v["n"] for v in root.vars if len(v["p"]) == 1 and 1 <= v["p"][0] <= root.nargs}
            pn = names.get(3)
        okt = n == ("upvar", pn)
    ctx.ob("BOUND-input", "take(query_size)-only", okt, "the input stream is limited by take(query_size) and nothing else" if okt else "the report stream in Query::execute is truncated / skipped by something other than take(query_size)", site_of(takes[0][0], takes[0][1]) if takes else None)
