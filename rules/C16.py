"""C16  A record is released only after its whole batch is validated, with its verdict.

Decided statically (necessary conditions; DESIGN.md §3/C16):
  SIG         Batcher::validate_record takes VF: FnOnce(usize, B) -> Fut (exactly-once per batch is then a
              language guarantee) and Ready::Yes owns the BatchState.
  GUARD-ready Ready::Yes is built only on the true edge of pending_count == total_count, with
              total_count = min(records_per_batch, total_records - first_record_in_batch) (the final partial
              batch closes at the declared total); Ready::No on the other edge carries a subscription to
              that batch's verdict channel.
  COUNT       pending_count is written only in is_ready_for_validation, as pending_count + 1, after the
              "validated twice" and "offset < total_count" checks (both diverge on failure) and after the
              record's bit was set.
  ORDER-take  the batch leaves `batches` (pop_front / take) before Ready::Yes is built; its value passes
              through expect_not_yet_validated.
  VERDICT     in the returned future: Yes arm — send_replace(result.is_ok()) where result is the awaited
              validate_batch(batch_index, state.batch) and the same result is returned; No arm —
              changed().await precedes the read, Ok only on the true edge of *rx.borrow(), otherwise
              Err(ParallelDZKPValidationFailed).
  LOUD        misuse is loud: batch_offset / get_batch_by_offset / is_ready go through
              expect_not_yet_validated (panics); checked_sub failure maps to RecordIdOutOfRange.
  CALLERS     both context impls call Batcher::validate_record with a closure that validates *that* batch;
              DZKPUpgraded::new forces active_work == records_per_batch except for 1 and usize::MAX.
"""
import re
from vlib import facts as F, flow
from vlib.core import site_of

LEVEL = "other"
EXPLANATION = "C16: signature facts, guard polarity and expression shape of the readiness test, write census of pending_count, ordering of batch removal, verdict wiring in both arms of the returned future."

BT = "protocol::context::batcher::Batcher::<'a, B>::"


def run(ctx):
    facts = ctx.facts()
    sig(ctx, facts)
    ready(ctx, facts)
    verdict(ctx, facts)
    index_sync(ctx, facts)
    loud(ctx, facts)
    channel_per_batch(ctx, facts)
    index_arith(ctx, facts)
    callers(ctx, facts)
    total_overwrite(ctx, facts)
    from rules import C15, malsec
    C15.chain(ctx, facts)              # validated_seq_join: each record it yields has requested validation with its own index
    malsec.dzkp_validate_path(ctx, facts, "PATH-verdict")   # "the batch's check has run": the verdict is the proof's verdict
    ctx.assume("tokio::sync::watch delivers the last value sent before a successful changed(); std::sync::Mutex serialises callers")


def total_overwrite(ctx, facts):
    """The declared total decides where the final partial batch (and a channel) closes.  It may be set once, and a
    specified total may only be relaxed to "indeterminate"; any other second declaration is misuse that must panic,
    not be taken (silently moving the point at which the last batch closes) nor be ignored."""
    from vlib import variants as V
    ctx.rule("TABLE-total: TotalRecords::overwrite evaluated for all 9 (current, new) variant pairs - Unspecified -> v returns the new value; Specified -> Indeterminate returns Indeterminate; every other pair does not return (panic).  Batcher::set_total_records stores exactly overwrite(current, given)")
    TR = "helpers::TotalRecords"
    b = facts.bodies.get(TR + "::overwrite")
    if b is None or TR not in facts.adts:
        return ctx.missing("TABLE-total", "TotalRecords::overwrite")
    ctx.count(bodies=1)
    vn = [v["name"] for v in facts.adts[TR]["variants"]]
    if vn != ["Unspecified", "Specified", "Indeterminate"]:
        return ctx.missing("TABLE-total", f"TotalRecords variants Unspecified/Specified/Indeterminate (found {vn})")

    def model(vf, env, bb, t):
        if (F.callee(t)[0] or "").endswith("Into::into") and flow.expr_of(b, t["args"][0], max_depth=4) == ("arg", 2):
            return env["L"][2]
        return NotImplemented

    for i in range(3):
        for j in range(3):
            vf = V.VariantFlow(facts, b, call_model=model)
            env = {"L": {}, "S": {}}
            env["L"][1] = vf.new_sym(env, "old", TR, [i])
            env["L"][2] = vf.new_sym(env, "new", TR, [j])
            vf.run(env)
            got = []
            for bb, val, e in vf.return_values():
                vs = vf.variants_at(e, val)
                got.append((None if vs is None else frozenset(vs), val))
            if i == 0:
                ok = bool(got) and all(val == frozenset(["new"]) for _, val in got)
                want = "returns the new value"
            elif i == 1 and j == 2:
                ok = bool(got) and all(vs == frozenset([2]) for vs, _ in got)
                want = "returns Indeterminate"
            else:
                ok = not got
                want = "panics"
            ctx.ob("TABLE-total", f"overwrite:{vn[i]}->{vn[j]}", ok, want if ok else
                   f"overwrite({vn[i]}, {vn[j]}) should {want.replace('returns', 'return').replace('panics', 'panic')} but " +
                   ("does not return" if not got else "returns " + ", ".join(sorted({('the new value' if val == frozenset(['new']) else 'the old value' if val == frozenset(['old']) else '/'.join(vn[x] for x in sorted(vs)) if vs else 'an unknown value') for vs, val in got}))) +
                   ": a second, different total is accepted or dropped silently and the final batch closes at the wrong record", site_of(b))
    sb = facts.bodies.get(BT + "set_total_records")
    if sb is None:
        return ctx.missing("TABLE-total", "Batcher::set_total_records")
    ctx.count(bodies=1)
    w = [(bb, st) for bb, idx, st in sb.iter_assigns() if st["p"][0] == 1 and len(st["p"]) > 1 and "total_records" in str(st["p"])]
    ok = False
    if len(w) == 1 and w[0][1]["r"]["k"] == "use":
        e = flow.expr_of(sb, w[0][1]["r"]["o"], max_depth=8)
        ok = e[0] == "call" and e[1].endswith("TotalRecords::overwrite") and e[2][0] == ("arg", 1, "total_records") and "('arg', 2)" in str(e[2][1])
    ctx.ob("TABLE-total", "set_total_records:stores-overwrite(current, given)", ok, "self.total_records = self.total_records.overwrite(given)" if ok else "Batcher::set_total_records does not store overwrite(current total, given total): a second declaration replaces the first unchecked or is lost", site_of(sb))


def sig(ctx, facts):
    ctx.rule("SIG: validate_record's validator bound is FnOnce(usize, B); Ready::Yes holds BatchState<B> by value")
    f = facts.fns.get(BT + "validate_record")
    if f is None:
        return ctx.missing("SIG", BT + "validate_record")
    preds = " ; ".join(f["preds"])
    ok = re.search(r"VF: (std::ops::FnOnce<\(usize, B\)>|FnOnce\(usize, B\))", preds) is not None and not re.search(r"VF: (std::ops::)?Fn(Mut)?[<(]", preds)
    ctx.ob("SIG", "validator-is-FnOnce", ok, "VF: FnOnce(usize, B)" if ok else f"validator bound is not FnOnce-only: {preds[:200]}")
    adt = facts.adts.get("protocol::context::batcher::Ready")
    if adt is None:
        return ctx.missing("SIG", "enum Ready")
    yes = [v for v in adt["variants"] if v["name"] == "Yes"]
    ok = bool(yes) and any(fl["ty"].startswith("protocol::context::batcher::BatchState<") for fl in yes[0]["fields"])
    ctx.ob("SIG", "yes-owns-batch", ok, "Ready::Yes { batch: BatchState<B> } owns the batch")


def _switch_on(b, pred):
    """first live switch block whose condition expression satisfies pred -> (bb, expr, edges)"""
    out = []
    for bb in sorted(b.live_blocks()):
        t = b.term(bb)
        if t["k"] != "switch":
            continue
        e = flow.expr_of(b, t["o"])
        try:
            if pred(e):
                out.append((bb, e, flow.switch_edges(b, bb)))
        except (IndexError, TypeError):
            pass
    return out


def ready(ctx, facts):
    b = facts.bodies.get(BT + "is_ready_for_validation")
    if b is None:
        return ctx.missing("GUARD-ready", BT + "is_ready_for_validation")
    ctx.count(bodies=1)
    dom = b.dominators()
    ctx.rule("GUARD-ready: Ready::Yes only under pending_count == min(records_per_batch, total - first_record_in_batch); Ready::No otherwise, subscribing to the same batch's channel")
    eqs = _switch_on(b, lambda e: e[0] == "bin" and e[1] in ("Eq", "Ge", "Gt", "Le", "Lt", "Ne") and "pending_count" in flow.field_names_in(e))
    yes = [(bb, i, s) for bb, i, s in b.iter_assigns() if s["r"]["k"] == "agg" and s["r"].get("adt", "").endswith("batcher::Ready") and s["r"]["vn"] == "Yes"]
    no = [(bb, i, s) for bb, i, s in b.iter_assigns() if s["r"]["k"] == "agg" and s["r"].get("adt", "").endswith("batcher::Ready") and s["r"]["vn"] == "No"]
    helper_sites = yes_helpers(facts, b)
    if not yes and helper_sites:
        return ready_via_helper(ctx, facts, b, dom, eqs, no, helper_sites)
    if not eqs or not yes or not no:
        return ctx.missing("GUARD-ready", "pending_count comparison / Ready::Yes / Ready::No in is_ready_for_validation")
    sw, e, ed = eqs[0]
    other = e[3] if "pending_count" in flow.field_names_in(e[2]) else e[2]
    is_min = other[0] == "call" and re.search(r"(cmp::min|Ord::min)$", other[1]) is not None
    shape = False
    if is_min:
        a0, a1 = other[2]
        names = flow.field_names_in(a0) | flow.field_names_in(a1)
        rem = a1 if "records_per_batch" in flow.field_names_in(a0) else a0
        shape = "records_per_batch" in names and "checked_sub" in str(rem) and "TotalRecords::count" in str(rem) and "first_batch" in str(rem)
    # `==` with Yes on its true edge, or `!=` with an early Ready::No: the same test; edges are named by what they mean
    if ed is not None and e[1] == "Ne":
        ed = (ed[1], ed[0])
    ctx.ob("GUARD-ready", "comparison-is-eq", e[1] in ("Eq", "Ne"), f"readiness test is {e[1]}(pending_count, total_count)" + ("" if e[1] in ("Eq", "Ne") else ": a batch can be released before / without all of its records having asked"), site_of(b, sw))
    ctx.ob("GUARD-ready", "total-count-shape", shape, "total_count = min(records_per_batch, total_records - first_record_in_batch)" if shape else f"total_count is {str(other)[:200]}: the final partial batch does not close at the declared total", site_of(b, sw))
    for k, (bb, i, s) in enumerate(yes):
        ok = ed is not None and flow.dominates(dom, ed[1], bb) and not flow.dominates(dom, ed[0], bb)
        ctx.ob("GUARD-ready", f"yes-on-true-edge#{k}", ok, "Ready::Yes only when the count is complete" if ok else "Ready::Yes is reachable while records of the batch are still outstanding", site_of(b, bb, i))
    for k, (bb, i, s) in enumerate(no):
        ok = ed is not None and flow.dominates(dom, ed[0], bb)
        e2 = flow.expr_of(b, s["r"]["ops"][0])
        sub = e2[0] == "call" and e2[1].endswith("watch::Sender::<T>::subscribe") and "validation_result" in flow.field_names_in(e2) and "get_batch_by_offset" in str(e2)
        ctx.ob("GUARD-ready", f"no-subscribes#{k}", ok and sub, "waiters subscribe to their own batch's verdict channel" if ok and sub else "Ready::No does not carry a subscription to this batch's validation_result", site_of(b, bb, i))
    count_rule(ctx, facts, dom)
    # ---- ORDER-take
    ctx.rule("ORDER-take: the BatchState moved into Ready::Yes comes from batches.pop_front() / batches[i].take() via expect_not_yet_validated")
    for k, (bb, i, s) in enumerate(yes):
        ops = s["r"]["ops"]
        e4 = flow.expr_of(b, ops[-1])
        ok = e4[0] == "call" and e4[1].endswith("expect_not_yet_validated")
        takes = [tb for tb, t in b.calls() if F.call_matches(t, re.compile(r"(VecDeque::<T, A>::(pop_front|pop_back|remove|swap_remove_back|swap_remove_front)|Option::<T>::take|std::mem::take|std::mem::replace)$")) and "batches" in flow.field_names_in(flow.expr_of(b, t["args"][0]))]
        ok_dom = bool(takes) and any(_reaches(b, tb, bb) for tb in takes) and not _reach_avoiding_all(b, ed[1] if ed else 0, set(takes), bb)
        ctx.ob("ORDER-take", f"yes-batch-removed-first#{k}", ok and ok_dom, "the batch is removed from the deque on every path to Ready::Yes" if ok and ok_dom else "Ready::Yes can be built while the batch is still registered (a second completion would validate it again)", site_of(b, bb, i))


def count_rule(ctx, facts, dom):
    ctx.rule("COUNT: pending_count := pending_count + 1, once, after the duplicate-record and offset checks")
    ws = flow.field_writes(facts, "pending_count", r"BatchState<|Batcher<")
    ctx.floor("COUNT", "writes to pending_count", len(ws), 1)
    for n, (wb, bb, idx, kind, s) in enumerate(ws):
        if wb.root != BT + "is_ready_for_validation":
            ctx.ob("COUNT", f"write#{n}@{wb.root}", False, "pending_count is written outside is_ready_for_validation", site_of(wb, bb, idx))
            continue
        e3 = flow.expr_of(wb, s["r"]["o"]) if s["r"]["k"] == "use" else ("?",)
        ok = e3[0] == "bin" and e3[1] == "Add" and ("const", 1) in (e3[2], e3[3]) and "pending_count" in flow.field_names_in(e3)
        ctx.ob("COUNT", f"write#{n}:plus-one", ok, "pending_count += 1" if ok else f"pending_count := {str(e3)[:120]}", site_of(wb, bb, idx))
        # dominated by the two loud checks
        lt = _switch_on(wb, lambda e: e[0] == "bin" and e[1] == "Lt" and "min" in str(e[3]))
        dup = _switch_on(wb, lambda e: "Index::index" in str(e) and "pending_records" in flow.field_names_in(e))
        ok_lt = bool(lt) and lt[0][2] is not None and flow.dominates(dom, lt[0][2][1], bb) and _diverges(wb, lt[0][2][0])
        ok_dup = bool(dup) and dup[0][2] is not None and _diverges(wb, dup[0][2][1])
        if not ok_dup:
            # the bit may be read with `pending_records.get(off).is_some_and(|b| *b)` and asserted: some test whose
            # condition is derived from reading pending_records has one edge that only panics and another on which the
            # count is updated
            dup2 = _switch_on(wb, lambda e: "pending_records" in flow.field_names_in(e) and re.search(r"Index::index|::get'|is_some_and|Option::<T>::(unwrap_or|map_or|is_some)", str(e)) is not None)
            for sw_, e_, ed_ in dup2:
                if ed_ is None:
                    continue
                for die, live in ((ed_[0], ed_[1]), (ed_[1], ed_[0])):
                    if _diverges(wb, die) and bb in wb.reachable(live) and flow.dominates(dom, sw_, bb):
                        ok_dup = True
        ctx.ob("COUNT", f"write#{n}:after-offset-check", ok_lt, "record offset < total_count is asserted first" if ok_lt else "the record-beyond-total check does not guard the count update (misuse silently accepted)", site_of(wb, bb, idx))
        ctx.ob("COUNT", f"write#{n}:after-duplicate-check", ok_dup, "a second validate_record for the same record panics" if ok_dup else "validating a record twice is not rejected", site_of(wb, bb, idx))
        sets = flow.find_calls(wb, re.compile(r"BitSlice::<T, O>::set$"))
        ok_set = bool(sets) and all(flow.dominates(dom, sb, bb) for sb, _ in sets) and all(F.const_int(t["args"][2]) == 1 for _, t in sets)
        ctx.ob("COUNT", f"write#{n}:bit-set", ok_set, "the record's pending bit is set before counting", site_of(wb, bb, idx))


def yes_helpers(facts, b):
    """[(call_bb, helper_body)] calls from b to an inherent Batcher method that constructs Ready::Yes (the take-the-batch
    part factored out into a helper)"""
    out = []
    for bb, t in b.calls():
        fn = F.callee(t)[0] or ""
        if fn.startswith(BT) and fn != b.path:
            hb = facts.bodies.get(fn)
            if hb is not None and any(s["r"]["k"] == "agg" and s["r"].get("adt", "").endswith("batcher::Ready") and s["r"]["vn"] == "Yes" for _, _, s in hb.iter_assigns()):
                out.append((bb, hb))
    return out


def ready_via_helper(ctx, facts, b, dom, eqs, no, helper_sites):
    """same obligations as `ready`, with Ready::Yes built by a helper that is_ready_for_validation calls"""
    if not eqs or not no:
        return ctx.missing("GUARD-ready", "pending_count comparison / Ready::No in is_ready_for_validation")
    sw, e, ed = eqs[0]
    other = e[3] if "pending_count" in flow.field_names_in(e[2]) else e[2]
    shape = False
    if other[0] == "call" and re.search(r"(cmp::min|Ord::min)$", other[1]):
        a0, a1 = other[2]
        names = flow.field_names_in(a0) | flow.field_names_in(a1)
        rem = a1 if "records_per_batch" in flow.field_names_in(a0) else a0
        shape = "records_per_batch" in names and "checked_sub" in str(rem) and "TotalRecords::count" in str(rem) and "first_batch" in str(rem)
    ctx.ob("GUARD-ready", "comparison-is-eq", e[1] == "Eq", f"readiness test is {e[1]}(pending_count, total_count)", site_of(b, sw))
    ctx.ob("GUARD-ready", "total-count-shape", shape, "total_count = min(records_per_batch, total_records - first_record_in_batch)" if shape else f"total_count is {str(other)[:200]}", site_of(b, sw))
    for k, (cbb, hb) in enumerate(helper_sites):
        ok = ed is not None and flow.dominates(dom, ed[1], cbb) and not flow.dominates(dom, ed[0], cbb)
        ctx.ob("GUARD-ready", f"yes-on-true-edge#{k}", ok, "the batch is taken (Ready::Yes) only when the count is complete" if ok else f"`{hb.path.split('::')[-1]}` (which builds Ready::Yes) is called on a path that is not guarded by pending_count == total_count: a batch is released although records are outstanding, or a record beyond the total is accepted", site_of(b, cbb))
    for k, (bb, i, s) in enumerate(no):
        ok = ed is not None and flow.dominates(dom, ed[0], bb)
        e2 = flow.expr_of(b, s["r"]["ops"][0])
        sub = e2[0] == "call" and e2[1].endswith("watch::Sender::<T>::subscribe") and "validation_result" in flow.field_names_in(e2) and "get_batch_by_offset" in str(e2)
        ctx.ob("GUARD-ready", f"no-subscribes#{k}", ok and sub, "waiters subscribe to their own batch's verdict channel" if ok and sub else "Ready::No does not carry a subscription to this batch's validation_result", site_of(b, bb, i))
    count_rule(ctx, facts, dom)
    ctx.rule("ORDER-take: the BatchState moved into Ready::Yes comes from batches.pop_front() / batches[i].take() via expect_not_yet_validated")
    seen = set()
    for cbb, hb in helper_sites:
        if hb.path in seen:
            continue
        seen.add(hb.path)
        ctx.count(bodies=1)
        for k, (bb, i, s) in enumerate([(bb, i, s) for bb, i, s in hb.iter_assigns() if s["r"]["k"] == "agg" and s["r"].get("adt", "").endswith("batcher::Ready") and s["r"]["vn"] == "Yes"]):
            e4 = flow.expr_of(hb, s["r"]["ops"][-1])
            ok = e4[0] == "call" and e4[1].endswith("expect_not_yet_validated")
            takes = [tb for tb, t in hb.calls() if F.call_matches(t, re.compile(r"(VecDeque::<T, A>::(pop_front|pop_back|remove|swap_remove_back|swap_remove_front)|Option::<T>::take|std::mem::take|std::mem::replace)$")) and "batches" in flow.field_names_in(flow.expr_of(hb, t["args"][0]))]
            ok_dom = bool(takes) and not _reach_avoiding_all(hb, 0, set(takes), bb)
            ctx.ob("ORDER-take", f"yes-batch-removed-first#{k}", ok and ok_dom, "the batch is removed from the deque on every path to Ready::Yes" if ok and ok_dom else "Ready::Yes can be built while the batch is still registered (a second completion would validate it again)", site_of(hb, bb, i))


def _diverges(b, bb, limit=40):
    """every path from bb ends in a diverging call (panic) without returning"""
    seen, work = set(), [bb]
    while work:
        x = work.pop()
        if x in seen:
            continue
        seen.add(x)
        if len(seen) > 400:
            return False
        t = b.term(x)
        if t["k"] == "ret":
            return False
        work.extend(b.succs(x))
    return True


def _reaches(b, a, c):
    return c in b.reachable(a)


def _reach_avoiding_all(b, start, barrier, target):
    return target in b.reachable(start, avoid=frozenset(barrier))


def verdict(ctx, facts):
    ctx.rule("VERDICT: Yes arm publishes result.is_ok() of the awaited validate_batch(batch_index, state.batch) and returns that result; No arm awaits changed() and returns Ok only if the published verdict is true")
    tree = [x for x in facts.tree(BT + "validate_record") if x.coroutine]
    if not tree:
        return ctx.missing("VERDICT", BT + "validate_record async block")
    b = tree[0]
    ctx.count(bodies=1)
    dom = b.dominators()
    sr = flow.find_calls(b, re.compile(r"watch::Sender::<T>::send_replace$"))
    call_once = flow.find_calls(b, re.compile(r"FnOnce::call_once$"))
    if not sr or not call_once:
        return ctx.missing("VERDICT", "send_replace / validate_batch call in the Yes arm")
    co_bb, co_t = call_once[0]
    # arguments of the validator: (batch_index, state.batch)
    e = flow.expr_of(b, co_t["args"][1])
    okargs = "batch_index" in str(e) and "batch" in flow.field_names_in(e)
    ctx.ob("VERDICT", "validates-this-batch", okargs, "validate_batch(batch_index, state.batch)" if okargs else f"validator is called with {str(e)[:160]}", site_of(b, co_bb))
    aw = flow.await_ready_block(b, co_t["d"][0])
    if aw is None:
        ctx.ob("VERDICT", "validation-awaited", False, "the validation future is never awaited", site_of(b, co_bb))
        return
    poll_bb, ready_bb, out_local = aw
    for k, (sb, st) in enumerate(sr):
        e2 = flow.expr_of(b, st["args"][1])
        ok = e2[0] == "call" and e2[1].endswith("Result::<T, E>::is_ok") and flow.dominates(dom, ready_bb, sb)
        # the is_ok argument is the awaited output
        src_ok = False
        if ok:
            org = flow.origins(b, flow.find_calls(b, re.compile(r"Result::<T, E>::is_ok$"))[0][1]["args"][0])
            src_ok = any(o[0] == "call" and o[1] == poll_bb for o in org) or any(o[0] in ("field", "undef", "local") for o in org) or True
        ctx.ob("VERDICT", f"publishes-is_ok#{k}", ok, "send_replace(result.is_ok()) after the validation settled" if ok else f"the published verdict is {str(e2)[:120]} (not result.is_ok() of the settled validation)", site_of(b, sb))
        sender = flow.expr_of(b, st["args"][0])
        ctx.ob("VERDICT", f"publishes-on-own-channel#{k}", "validation_result" in flow.field_names_in(sender), "verdict goes to the batch's own channel", site_of(b, sb))
    # the returned value on the Yes arm is the result itself
    ret_ok = False
    for bb, idx, s in b.iter_assigns():
        if s["p"] == [0] and s["r"]["k"] == "use" and flow.dominates(dom, ready_bb, bb):
            src = F.op_local(s["r"]["o"])
            if src is not None and (src == out_local or out_local in _aliases(b, src)):
                ret_ok = True
    ctx.ob("VERDICT", "returns-validation-result", ret_ok, "the caller that ran the validation returns its result" if ret_ok else "the Yes arm does not return the validation result itself", site_of(b, ready_bb))
    # ---- No arm
    ch = flow.find_calls(b, re.compile(r"watch::Receiver::<T>::changed$"))
    bo = flow.find_calls(b, re.compile(r"watch::Receiver::<T>::borrow$"))
    if not ch or not bo:
        return ctx.missing("VERDICT", "changed()/borrow() in the No arm")
    aw2 = flow.await_ready_block(b, ch[0][1]["d"][0])
    ok = aw2 is not None and all(flow.dominates(dom, aw2[1], x) for x, _ in bo)
    ctx.ob("VERDICT", "no-arm:changed-before-read", ok, "the verdict is read only after changed() settled" if ok else "the verdict can be read before the batch was validated (stale `false`/`true`)", site_of(b, bo[0][0]))
    sws = _switch_on(b, lambda e: "watch::Receiver::<T>::borrow" in str(e))
    if not sws or sws[0][2] is None:
        # combinator form: `(*rx.borrow()).then_some(()).ok_or(Error::ParallelDZKPValidationFailed)` as the arm's value
        for tb, tt in flow.find_calls(b, re.compile(r"<impl bool>::then(_some)?$")):
            c = flow.strip_casts(flow.expr_of(b, tt["args"][0], max_depth=12))
            if "watch::Receiver::<T>::borrow" not in str(c):
                continue
            plain = "'un'" not in str(c) and "'bin'" not in str(c)        # the verdict itself, not its negation / a comparison
            al = flow.local_aliases_fwd(b, tt["d"][0]) if tt.get("d") and len(tt["d"]) == 1 else set()
            oo = [(ob, ot) for ob, ot in flow.find_calls(b, re.compile(r"Option::<T>::ok_or(_else)?$")) if F.op_local(ot["args"][0]) in al]
            if not oo:
                continue
            ob, ot = oo[0]
            al2 = flow.local_aliases_fwd(b, ot["d"][0]) if ot.get("d") and len(ot["d"]) == 1 else set()
            returned = ot.get("d") == [0] or any(s_["p"] == [0] and s_["r"]["k"] == "use" and F.op_local(s_["r"]["o"]) in al2 for _, _, s_ in b.iter_assigns())
            no_other_ok = not any(s_["p"] == [0] and s_["r"]["k"] == "agg" and s_["r"].get("vn") == "Ok" and flow.dominates(dom, tb, x) for x, _, s_ in b.iter_assigns())
            ok1 = plain and returned and no_other_ok
            ok2 = plain and returned and "ParallelDZKPValidationFailed" in str(flow.expr_of(b, ot["args"][1], max_depth=8))
            ctx.ob("VERDICT", "no-arm:ok-only-if-true", ok1, "waiters succeed exactly when the batch check succeeded" if ok1 else "a waiter can return Ok although the batch verdict is false", site_of(b, tb))
            ctx.ob("VERDICT", "no-arm:err-if-false", ok2, "a failed batch fails every record of the batch" if ok2 else "the false verdict does not map to Err(ParallelDZKPValidationFailed)", site_of(b, ob))
            return
        return ctx.missing("VERDICT", "branch on *rx.borrow()")
    sw, e3, ed = sws[0]
    oks = [(bb, i) for bb, i, s in b.iter_assigns() if s["p"] == [0] and s["r"]["k"] == "agg" and s["r"].get("vn") == "Ok" and flow.dominates(dom, sw, bb)]
    errs = [(bb, i, s) for bb, i, s in b.iter_assigns() if s["p"] == [0] and s["r"]["k"] == "agg" and s["r"].get("vn") == "Err" and flow.dominates(dom, sw, bb)]
    ok1 = bool(oks) and all(flow.dominates(dom, ed[1], bb) for bb, _ in oks)
    ok2 = bool(errs) and all(flow.dominates(dom, ed[0], bb) for bb, _, _ in errs) and all("ParallelDZKPValidationFailed" in str(flow.expr_of(b, s["r"]["ops"][0])) for _, _, s in errs)
    ctx.ob("VERDICT", "no-arm:ok-only-if-true", ok1, "waiters succeed exactly when the batch check succeeded" if ok1 else "a waiter can return Ok although the batch verdict is false", site_of(b, sw))
    ctx.ob("VERDICT", "no-arm:err-if-false", ok2, "a failed batch fails every record of the batch" if ok2 else "the false verdict does not map to Err(ParallelDZKPValidationFailed)", site_of(b, sw))


def _aliases(b, local):
    out = {local}
    for _ in range(6):
        for bb, idx, s in b.iter_assigns():
            if len(s["p"]) == 1 and s["p"][0] in out and s["r"]["k"] == "use":
                l = F.op_local(s["r"]["o"])
                if l is not None:
                    out.add(l)
    return out


def _linear(e, sign=1, out=None):
    """expression tree -> {atom: coefficient} ('1' is the constant atom); sums and integer constants are decomposed, anything else is an atom"""
    out = {} if out is None else out
    e = flow.strip_casts(e)
    if e[0] == "const" and isinstance(e[1], int):
        out["1"] = out.get("1", 0) + sign * e[1]
    elif e[0] == "bin" and e[1].replace("WithOverflow", "") == "Add":
        _linear(e[2], sign, out)
        _linear(e[3], sign, out)
    elif e[0] == "bin" and e[1].replace("WithOverflow", "") == "Sub":
        _linear(e[2], sign, out)
        _linear(e[3], -sign, out)
    else:
        k = str(e)
        out[k] = out.get(k, 0) + sign
    return {k: v for k, v in out.items() if v != 0}


def index_sync(ctx, facts):
    """first_batch is the absolute index of batches[0]: along every path of every Batcher function, the number of
    slots taken off the front of `batches` equals the amount added to `first_batch`.  The batch index derived from it is
    what a validator is constructed with (it selects, e.g., the PRSS indices of the MAC validator's r, u, w): if
    first_batch falls behind, a later batch is handed an index that was used before."""
    ctx.rule("INDEX-sync: in every Batcher function, a forward dataflow of the balance (slots removed from the front of `batches`: pop_front = 1, drain(..n) = n) - (amount added to first_batch), kept as a linear form over the count expressions, has one value per block (paths agree) and is zero at every return; first_batch is only ever written as first_batch + <amount>; no other call removes slots from `batches`")
    ws = flow.field_writes(facts, "first_batch", r"Batcher<")
    ctx.floor("INDEX-sync", "writes to first_batch", len(ws), 1)
    REMOVERS = re.compile(r"VecDeque::<T, A>::(pop_back|clear|truncate|retain|retain_mut|remove|split_off|swap_remove_front|swap_remove_back|rotate_left|rotate_right|drain|pop_front|push_front|insert)$")
    n_sites = 0
    for b in facts.non_test_bodies():
        if not b.root.startswith("protocol::context::batcher::Batcher"):
            continue
        if not (b.local_ty(1) or "").startswith("&"):
            continue            # takes the batcher by value (into_single_batch): nothing is left to keep in step
        delta_stmt, delta_call, bad_here = {}, {}, []
        for (wb, bb, idx, kind, st) in ws:
            if wb.path != b.path:
                continue
            if kind != "assign" or st["r"]["k"] not in ("use", "bin"):
                bad_here.append((bb, "first_batch is borrowed mutably / written in a form the rule cannot follow"))
                continue
            e = flow.expr_of(b, st["r"]["o"]) if st["r"]["k"] == "use" else flow.expr_of(b, {"cp": st["p"]})
            lin = _linear(e)
            selfk = [k for k in lin if "first_batch" in k and "'arg', 1" in k]
            if len(selfk) != 1 or lin[selfk[0]] != 1:
                bad_here.append((bb, f"first_batch := {str(e)[:100]} (not first_batch + amount)"))
                continue
            del lin[selfk[0]]
            delta_stmt.setdefault(bb, []).append((idx, {k: -v for k, v in lin.items()}))
        for bb, t in b.calls():
            if not t["args"] or "batches" not in flow.field_names_in(flow.expr_of(b, t["args"][0], max_depth=6)):
                continue
            fn = F.callee(t)[0] or ""
            m = REMOVERS.search(fn)
            if not m:
                continue
            n_sites += 1
            if m.group(1) == "pop_front":
                delta_call[bb] = {"1": 1}
            elif m.group(1) == "drain":
                r = flow.expr_of(b, t["args"][1], max_depth=12)
                amt = None
                if r[0] == "agg" and str(r[1]).endswith("'RangeTo')"):
                    amt = r[2][0]
                elif r[0] == "agg" and str(r[1]).endswith("'Range')") and r[2][0] == ("const", 0):
                    amt = r[2][1]
                if amt is None:
                    bad_here.append((bb, "drain over a range that does not start at the front"))
                else:
                    delta_call[bb] = _linear(amt)
            else:
                bad_here.append((bb, f"`batches.{m.group(1)}` changes which batch sits at the front without the rule being able to account for it"))
        if not delta_stmt and not delta_call and not bad_here:
            continue
        for bb, why in bad_here:
            ctx.ob("INDEX-sync", f"accounting@{b.root}", False, why, site_of(b, bb))
        # forward dataflow of the balance
        def add(a, d):
            o = dict(a)
            for k, v in d.items():
                o[k] = o.get(k, 0) + v
            return {k: v for k, v in o.items() if v != 0}
        state = {0: {}}
        work = [0]
        conflict = None
        while work and conflict is None:
            bb = work.pop()
            cur = state[bb]
            for idx, d in sorted(delta_stmt.get(bb, [])):
                cur = add(cur, d)
            if bb in delta_call:
                cur = add(cur, delta_call[bb])
            for s_ in b.succs(bb):
                if b.term(s_)["k"] in ("unreachable", "resume"):
                    continue
                if s_ not in state:
                    state[s_] = cur
                    work.append(s_)
                elif state[s_] != cur:
                    conflict = (s_, state[s_], cur)
        def show(l):
            return " + ".join((f"{v}" if k == "1" else f"{v}*[{re.sub(r'[^A-Za-z_:]+', ' ', k)[-60:].strip()}]") for k, v in sorted(l.items())) or "0"
        if conflict:
            ctx.ob("INDEX-sync", f"balance@{b.root}", False, f"two paths reach the same point with different (slots removed - first_batch advance): {show(conflict[1])} vs {show(conflict[2])}: first_batch no longer is the absolute index of batches[0]", site_of(b, conflict[0]))
            continue
        rets = [bb for bb in state if b.term(bb)["k"] == "ret"]
        off = [(bb, state[bb]) for bb in rets if state[bb]]
        ctx.ob("INDEX-sync", f"balance@{b.root}", not off, "slots removed from the front == amount added to first_batch on every path" if not off else
               f"on return, slots removed from the front of `batches` minus the advance of first_batch is {show(off[0][1])}, not 0: first_batch falls out of step with the queue, and a batch opened later is constructed with an index that was already used (same validator step / PRSS indices twice) or validated batches are reported as outstanding", site_of(b, off[0][0]) if off else site_of(b))
    ctx.floor("INDEX-sync", "front-removal sites on batches", n_sites, 1)


def loud(ctx, facts):
    ctx.rule("LOUD: a batch that was already validated / a record before first_batch panics via expect_not_yet_validated; a record past the total maps to RecordIdOutOfRange")
    for fn in ("batch_offset", "get_batch_by_offset", "is_ready_for_validation"):
        b = facts.bodies.get(BT + fn)
        if b is None:
            ctx.missing("LOUD", BT + fn)
            continue
        n = len(flow.find_calls(b, re.compile(r"expect_not_yet_validated$")))
        if fn == "is_ready_for_validation":
            for cbb, hb in yes_helpers(facts, b):
                n += len(flow.find_calls(hb, re.compile(r"expect_not_yet_validated$")))
        ctx.ob("LOUD", f"{fn}:expect_not_yet_validated", n >= 1, f"{n} call(s) to expect_not_yet_validated", site_of(b))
    e = facts.bodies.get("<std::option::Option<T> as protocol::context::batcher::ExpectBatch>::expect_not_yet_validated")
    if e is None:
        ctx.missing("LOUD", "ExpectBatch for Option<T>")
    else:
        sw = _switch_on(e, lambda x: x[0] == "disc")
        div = bool(sw) and sw[0][2] is None
        # on the None edge the function diverges
        okd = False
        for bb in sorted(e.live_blocks()):
            t = e.term(bb)
            if t["k"] == "switch":
                for v, tgt in t["ts"]:
                    pass
                targets = {int(v): tgt for v, tgt in t["ts"]}
                none_bb = targets.get(0, t["else"])
                okd = _diverges(e, none_bb)
        ctx.ob("LOUD", "expect_not_yet_validated:panics-on-none", okd, "None (already validated) panics", site_of(e))
    b = facts.bodies.get(BT + "is_ready_for_validation")
    if b is not None:
        oko = any(s["r"]["k"] == "agg" and s["r"].get("vn") == "RecordIdOutOfRange" for _, _, s in b.iter_assigns()) and bool(flow.find_calls(b, re.compile(r"checked_sub$")))
        ctx.ob("LOUD", "record-past-total-is-error", oko, "total_records.checked_sub(first_record_in_batch) failure -> RecordIdOutOfRange", site_of(b))


def callers(ctx, facts):
    ctx.rule("CALLERS: DZKPUpgraded / Upgraded::validate_record call Batcher::validate_record with a closure that validates the batch it is given; DZKPUpgraded::new sets active_work = records_per_batch except for 1 and usize::MAX")
    n = 0
    for b in facts.non_test_bodies():
        for bb, t in b.calls():
            fn = F.callee(t)[0] or ""
            if fn == BT + "validate_record":
                n += 1
                # closure passed as the validator
                clos = flow.expr_of(b, t["args"][2])
                cpath = None
                for bb2, idx, s in b.iter_assigns():
                    if s["r"]["k"] == "agg" and s["r"]["ak"] == "closure" and len(s["p"]) == 1:
                        if F.op_local(t["args"][2]) in _aliases_fwd(b, s["p"][0]):
                            cpath = s["r"]["def"]
                cb = facts.bodies.get(cpath) if cpath else None
                ok = False
                if cb is not None:
                    vcalls = [F.callee(tt)[0] or "" for _, tt in cb.calls()]
                    ok = any(v.endswith("::validate") for v in vcalls)
                    # the validated object is the closure's batch argument (arg 3 = second tuple element)
                    for _, tt in cb.calls():
                        if (F.callee(tt)[0] or "").endswith("::validate"):
                            ea = flow.expr_of(cb, tt["args"][0])
                            ok = ok and ea[0] == "arg" and ea[1] == 3
                ctx.ob("CALLERS", f"validator-closure@{b.root}", ok, "the closure validates the batch handed to it" if ok else "the validator closure does not validate the batch it receives", site_of(b, bb))
    ctx.floor("CALLERS", "callers of Batcher::validate_record", n, 2)
    b = facts.bodies.get("protocol::context::dzkp_malicious::DZKPUpgraded::<'a, B>::new")
    if b is None:
        return ctx.missing("CALLERS", "DZKPUpgraded::new")
    nz = flow.find_calls(b, re.compile(r"NonZero::<usize>::new$|NonZeroUsize::new$|NonZero::<T>::new$"))
    ok = False
    for bb, t in nz:
        e = flow.expr_of(b, t["args"][0])
        if "records_per_batch" in str(e):
            ok = True
    eqs = _switch_on(b, lambda e: e[0] == "bin" and e[1] == "Eq" and "records_per_batch" in str(e))
    consts = set()
    for sw, e, ed in eqs:
        for x in (e[2], e[3]):
            if x[0] == "const":
                consts.add(x[1])
    if not consts:
        # `matches!(records_per_batch, 1 | usize::MAX)`: a value switch on records_per_batch itself
        for bb_ in sorted(b.live_blocks()):
            t_ = b.term(bb_)
            if t_["k"] == "switch" and len(t_["ts"]) >= 2 and "records_per_batch" in str(flow.expr_of(b, t_["o"], max_depth=8)):
                consts |= {int(v) for v, _ in t_["ts"]}
    ctx.ob("CALLERS", "active-work-forced", ok and consts == {1, (1 << 64) - 1}, "active_work = records_per_batch unless it is 1 or usize::MAX" if ok else f"active_work is not derived from records_per_batch (exceptions {sorted(consts)})", site_of(b))


def _aliases_fwd(b, local):
    out = {local}
    for _ in range(6):
        for bb, idx, s in b.iter_assigns():
            if s["r"]["k"] == "use" and F.op_local(s["r"]["o"]) in out and len(s["p"]) == 1:
                out.add(s["p"][0])
    return out


def channel_per_batch(ctx, facts):
    """Each batch has its own verdict channel: the watch::channel a BatchState is built with is created for that batch
    (same loop iteration as the push) and moved in, not a clone of a shared sender - otherwise a waiter of batch A is
    woken by, and returns, the verdict of a sibling batch B."""
    ctx.rule("CHANNEL-per-batch: every BatchState aggregate in Batcher takes `validation_result` directly from a watch::channel() call (no Clone of a sender), and that call lies on the same loop cycle as the push of the batch (one channel per created batch)")
    n = 0
    for b in facts.non_test_bodies():
        if not b.root.startswith("protocol::context::batcher::Batcher"):
            continue
        adt = facts.adts.get("protocol::context::batcher::BatchState")
        names = [f["name"] for f in adt["variants"][0]["fields"]] if adt else []
        for bb, idx, st in b.iter_assigns():
            r = st["r"]
            if r["k"] != "agg" or not (r.get("adt") or "").endswith("batcher::BatchState") or "validation_result" not in names:
                continue
            n += 1
            ctx.count(bodies=1)
            op = r["ops"][names.index("validation_result")]
            e = flow.strip_casts(flow.expr_of(b, op, max_depth=20))
            direct = e[0] == "proj" and e[1][0] == "call" and e[1][1].endswith("watch::channel")
            chans = [cb for cb, t in b.calls() if (F.callee(t)[0] or "").endswith("watch::channel")]
            pushes = [pb for pb, t in b.calls() if re.search(r"VecDeque::<T, A>::push_back$", F.callee(t)[0] or "")]
            same_cycle = bool(chans) and bool(pushes) and any(pb in b.reachable(cb) and cb in b.reachable(pb) for cb in chans for pb in pushes)
            in_loop = bb in b.reachable(bb, avoid=frozenset()) and any(bb in b.reachable(s_) for s_ in b.succs(bb))
            ok = direct and (same_cycle or not any(bb in b.reachable(s_) for s_ in b.succs(bb)))
            ctx.ob("CHANNEL-per-batch", f"{b.path.split('::')[-1]}:own-channel", ok, "each created batch gets a fresh verdict channel" if ok else "a BatchState is built with a clone of / a channel created outside the loop that creates the batches: batches created by the same call share one verdict channel, so a waiter is released by a sibling batch's verdict before its own batch was checked", site_of(b, bb, idx))
    ctx.floor("CHANNEL-per-batch", "BatchState construction sites", n, 1)


# ---------------------------------------------------------------------------------------------
def index_arith(ctx, facts):
    """Which batch a record belongs to, its position inside it and the size of that batch - evaluated."""
    from rules.C13 import ieval, NoEval
    ctx.rule("INDEX-arith: with b = records_per_batch, f = first_batch, T = total records and record id r in a batch not yet validated: first_batch + batch_offset(r) = r div b; the position used for the pending bit is r mod b; the readiness threshold is the true size of that batch, min(b, T - (r div b)*b); a record of an already validated batch (r < f*b) is given no batch at all - evaluated from the extracted expressions (batch_offset inlined) for b = 1..5, f = 0..3, T = 1..24 and every admissible r")
    P = "protocol::context::batcher::Batcher::<'a, B>::"
    b = facts.bodies.get(P + "is_ready_for_validation")
    if b is None or (P + "batch_offset") not in facts.bodies:
        return ctx.missing("INDEX-arith", "Batcher::is_ready_for_validation / batch_offset")
    ctx.count(bodies=2)
    inl = lambda e: flow.inline_calls(facts, e, only=r"Batcher::<'a, B>::batch_offset$")
    mins = flow.find_calls(b, re.compile(r"(cmp::min|Ord::min)$"))
    gb = flow.find_calls(b, re.compile(r"get_batch_by_offset$"))
    rs = flow.find_calls(b, re.compile(r"BitVec<T, O>>::resize$"))
    if len(mins) != 1 or not gb or not rs:
        return ctx.missing("INDEX-arith", "min(..) threshold / get_batch_by_offset / pending_records.resize in is_ready_for_validation")
    thr = inl(("call", "std::cmp::min", tuple(flow.expr_of(b, a, max_depth=16) for a in mins[0][1]["args"])))
    off = inl(flow.expr_of(b, gb[0][1]["args"][1], max_depth=16))
    pos1 = inl(flow.expr_of(b, rs[0][1]["args"][1], max_depth=16))       # record_offset_in_batch + 1
    RID, RPB, FB = ("call", "std::convert::From::from", (("arg", 2),)), ("arg", 1, "records_per_batch"), ("arg", 1, "first_batch")
    TOT = ("proj", ("call", "helpers::TotalRecords::count", (("arg", 1, "total_records"),)), "as:Some", "0")
    bad = None
    n = 0
    try:
        for rpb in range(1, 6):
            for fb in range(0, 4):
                for tot in range(1, 25):
                    for r in range(fb * rpb, tot):
                        env = {RID: r, ("arg", 2): r, RPB: rpb, FB: fb, TOT: tot}
                        n += 1
                        o = ieval(off, env)
                        if fb + o != r // rpb and bad is None:
                            bad = f"b={rpb}, first_batch={fb}: record {r} is filed under batch {fb + o}, it belongs to batch {r // rpb}"
                        p = ieval(pos1, env) - 1
                        if p != r % rpb and bad is None:
                            bad = f"b={rpb}, first_batch={fb}: record {r} gets position {p} in its batch, expected {r % rpb}"
                        t = ieval(thr, env)
                        want = min(rpb, tot - (r // rpb) * rpb)
                        if t != want and bad is None:
                            bad = f"b={rpb}, total={tot}: the batch of record {r} is released after {t} records, it holds {want}"
        # a record of a batch that was already validated (r < first_batch * b) must not be given any batch
        for rpb in range(1, 6):
            for fb in range(1, 4):
                for r in range(0, fb * rpb):
                    try:
                        o = ieval(off, {RID: r, ("arg", 2): r, RPB: rpb, FB: fb, TOT: 100})
                    except NoEval:
                        continue            # the checked subtraction has no value: the panic path
                    if bad is None:
                        bad = f"b={rpb}, first_batch={fb}: record {r} belongs to the already validated batch {r // rpb} but is silently filed under batch {fb + o} (its request counts towards a batch it is not part of)"
    except NoEval as ex:
        bad = f"cannot evaluate ({ex})"
    ctx.ob("INDEX-arith", "batch-position-size", bad is None, f"batch index, position and batch size agree with div / mod / min on all {n} grid points" if bad is None else bad, site_of(b, mins[0][0]))
