"""C19  Resharding moves each record to its chosen shard once, same order on all helpers.

Decided statically (structural part; DESIGN.md §3/C19), in the closure tree of reshard_try_stream:
  ROUTE      the destination of a record is exactly shard_picker(ctx, RecordId::from(i), &val) with i the
             sequential counter (incremented once per record); on the == my_shard edge the record is kept
             (Some(val)) and nothing is sent; on the other edge it is sent to send_channels[dest] (awaited,
             error `?`-propagated), the per-destination record id advances by one after the send, and None is
             yielded — never both, never neither.
  ORDER      received/kept records are stored in r[usize::from(shard_id)] keyed by the *source shard* carried by
             the stream item and the result is r.into_iter().flatten(): deterministic order; the send side is
             a sequential try_unfold (no join/select/seq_join inside the send closure).
  PAIR-close when the input is exhausted, every channel in send_channels is closed (loop over values() calling
             close(last_record)) before Ok(None).
  ERR        input.try_next().await? / send ... ? / send_recv.try_next().await? : no Result in this tree is
             dropped; more items than the size hint => Err(RecordIdOutOfRange).
  SPLIT      reshard_aad: StreamSplitter pushes k and yields a in the same poll; size_hint is the inner one.
"""
import re
from vlib import facts as F, flow
from vlib.core import site_of
from rules import malsec
from rules.C07 import params as C07params

LEVEL = "other"
EXPLANATION = "C19: destination/keep-or-send dataflow, per-destination counters, close-all pairing, error propagation and order-determinism shape of reshard_try_stream."

ROOT = "protocol::context::reshard_try_stream"


def run(ctx):
    facts = ctx.facts()
    from rules import C17
    C17.parse_errors(ctx, facts)      # the receive path parses records with RecordsStream: a parse error must surface
    core(ctx, facts)
    shard_counts(ctx, facts)
    from rules import C01
    C01.prf_wiring(ctx, facts)        # resharding by PRF value: the picker reads the PRF value only (same on all helpers)
    ctx.assume("gateway delivery (C13) and message timing are not decided here")


def core(ctx, facts):
    """the resharding exchange itself (also run by the properties that rely on it: C05, C11)"""
    tree = facts.tree(ROOT)
    if not tree:
        return ctx.missing("ROUTE", ROOT)
    send = None
    main = None
    for b in tree:
        if b.coroutine and flow.find_calls(b, re.compile(r"std::ops::Fn::call$")) and flow.find_calls(b, re.compile(r"TryStreamExt::try_next$")):
            send = b
        elif b.coroutine and flow.find_calls(b, re.compile(r"stream::try_unfold$")):
            main = b
    if send is None or main is None:
        return ctx.missing("ROUTE", "send closure / main body of reshard_try_stream")
    ctx.count(bodies=len(tree))
    route(ctx, facts, send)
    close_all(ctx, facts, send)
    errors(ctx, facts, send, main)
    order(ctx, facts, send, main)
    split(ctx, facts)
    err_adapters(ctx, facts)
    wrappers(ctx, facts)


def route(ctx, facts, b):
    ctx.rule("ROUTE: dest = shard_picker(ctx, RecordId::from(*i), &val); `*i += 1` once; dest == my_shard => keep (Some(val)), no send; else send(record_id, val).await? to send_channels[dest], record_id += 1, yield None")
    dom = b.dominators()
    pk = flow.find_calls(b, re.compile(r"std::ops::Fn::call$"))
    pb, pt = pk[0]
    e = flow.expr_of(b, pt["args"][1])
    s = str(e)
    ok = e[0] == "agg" and "From::from" in s and re.search(r"upvar|arg", s) is not None
    # the RecordId argument derives from the counter (upvar tuple field 2 -> `i`)
    rid = e[2][1] if e[0] == "agg" and len(e[2]) >= 3 else None
    ok_rid = rid is not None and rid[0] == "call" and rid[1].endswith("From::from")
    ctx.ob("ROUTE", "picker-gets-counter", ok and ok_rid, "shard_picker is called with RecordId::from(counter)" if ok and ok_rid else f"shard_picker's record id is {str(rid)[:100]}", site_of(b, pb))
    val_arg = e[2][2] if e[0] == "agg" and len(e[2]) >= 3 else None
    ok_val = val_arg is not None and "try_next" in str(val_arg)
    ctx.ob("ROUTE", "picker-gets-record", ok_val, "shard_picker sees the record just read from the input" if ok_val else "shard_picker is not applied to the current record", site_of(b, pb))
    # counter increment: exactly one `(*_1.x) = +1` write dominated by the picker call or dominating the branch
    incs = []
    for bb, idx, st in b.iter_assigns():
        if st["r"]["k"] == "bin" and st["r"]["op"] == "AddWithOverflow" and F.const_int(st["r"]["b"]) == 1:
            pl = F.op_place(st["r"]["a"])
            if pl and pl[0] == 1:
                incs.append(bb)
    ctx.ob("ROUTE", "counter-increments-once", len(incs) == 1, f"{len(incs)} increment(s) of the sequential counter per record" if len(incs) == 1 else f"the record counter is incremented {len(incs)} times per record", site_of(b, incs[0]) if incs else site_of(b))
    # keep-or-send branch
    gs = [g for g in malsec.guards(b, r"PartialEq::(eq|ne)$") if "Fn::call" in str(g[3])]
    if not gs:
        return ctx.ob("ROUTE", "keep-or-send-branch", False, "no comparison of the picked shard with my_shard", site_of(b))
    sw, ex, ed, call = gs[0]
    is_ne = call[1].endswith("ne")
    keep_edge = ed[0] if is_ne else ed[1]
    send_edge = ed[1] if is_ne else ed[0]
    other = [x for x in call[2] if "Fn::call" not in str(x)]
    ok_my = bool(other) and "shard_id" in str(other[0]) or "my_shard" in str(other[0]) or "upvar" in str(other[0])
    ctx.ob("ROUTE", "compares-with-my-shard", bool(ok_my), "the picked shard is compared with this shard's id", site_of(b, sw))
    sends = flow.find_calls(b, re.compile(r"::send$"))
    keep_reach = b.reachable(keep_edge)
    send_reach = b.reachable(send_edge)
    oks = malsec.ok_blocks(b)
    # what is yielded to the local output: the Option inside Ok(Some(((my_shard, <Option>), state))).  It is either built
    # in each arm (two Ok returns) or chosen in the arms and returned once (`let kept = if .. { Some(val) } else { ..; None }`):
    # collect its definitions with the block they sit in
    ydefs = []      # (block, 'Some' | 'None' | '?', expression text)

    def _opt(e):
        e = flow.strip_casts(e)
        if e[0] == "agg" and isinstance(e[1], tuple) and e[1][0] == "std::option::Option":
            return e[1][1], str(e)
        return None

    for o in oks:
        for st in b.stmts(o):
            if "p" in st and st["p"] == [0] and st["r"]["k"] == "agg":
                inner = flow.strip_casts(flow.expr_of(b, st["r"]["ops"][0], max_depth=30))
                if not (inner[0] == "agg" and isinstance(inner[1], tuple) and inner[1][1] == "Some"):
                    continue            # Ok(None): end of stream
                y = None
                try:
                    y = flow.strip_casts(inner[2][0][2][0][2][1])        # Some(( (my_shard, Y), state ))
                except (IndexError, TypeError):
                    pass
                if y is None:
                    ydefs.append((o, "?", str(inner)[:80]))
                elif _opt(y):
                    ydefs.append((o, _opt(y)[0], _opt(y)[1]))
                elif y[0] == "place" and len(y) == 2:
                    for dbb, didx, d in b.defs().get(y[1], []):
                        if didx != "t" and d["k"] == "agg" and d.get("adt") == "std::option::Option":
                            ydefs.append((dbb, d.get("vn"), str(flow.expr_of(b, d["ops"][0], max_depth=30)) if d["ops"] else "None"))
                        else:
                            ydefs.append((dbb, "?", "assigned by " + str(d.get("k"))))
                else:
                    ydefs.append((o, "?", str(y)[:80]))
    keep_defs = [(bb, vn, ex) for bb, vn, ex in ydefs if flow.dominates(dom, keep_edge, bb)]
    send_defs = [(bb, vn, ex) for bb, vn, ex in ydefs if flow.dominates(dom, send_edge, bb)]
    stray = [(bb, vn, ex) for bb, vn, ex in ydefs if not flow.dominates(dom, keep_edge, bb) and not flow.dominates(dom, send_edge, bb)]
    # keep edge: no send reachable before its yield; the yield carries Some(val)
    keep_sends = [x for x, _ in sends if x in keep_reach and x not in send_reach]
    ctx.ob("ROUTE", "keep:no-send", not keep_sends and bool(keep_defs) and not stray, "a record for this shard is kept and not sent" if not keep_sends and keep_defs and not stray else "a record destined to this shard is also sent (duplicated) or lost", site_of(b, sw))
    for bb_, vn, ex in keep_defs:
        carries = vn == "Some" and "try_next" in ex
        ctx.ob("ROUTE", "keep:yields-record", carries, "kept record is yielded to the local output" if carries else "the kept record is not passed on: it is dropped", site_of(b, bb_))
    send_oks = [bb_ for bb_, vn, ex in send_defs]
    send_calls = [(x, t) for x, t in sends if x in send_reach and x not in keep_reach]
    ok_send = False
    if send_calls:
        x, t = send_calls[0]
        st_ = flow.settled(b, x)
        via = None
        if st_ is None:
            # send(...).await.map_err(..)? : the poll output goes through map_err before `?`
            aw = flow.await_ready_block(b, t["d"][0])
            if aw:
                for mb, mt in flow.find_calls(b, re.compile(r"Result::<T, E>::map_err$")):
                    q = flow.question_mark(b, mt["d"][0])
                    if q and flow.dominates(dom, aw[1], mb):
                        via = q
        q = (st_ or {}).get("q") if st_ else None
        if st_ is not None and q is None:
            for mb, mt in flow.find_calls(b, re.compile(r"Result::<T, E>::map_err$")):
                q2 = flow.question_mark(b, mt["d"][0])
                if q2 and flow.dominates(dom, st_["ready"], mb):
                    q = q2
        q = q or via
        ok_send = q is not None and all(flow.dominates(dom, q[1], o) for o in send_oks) and bool(send_oks)
        ctx.ob("ROUTE", "send:awaited-and-propagated", ok_send, "send is awaited, its error `?`-propagated, before the record is counted as moved" if ok_send else "the send to the destination shard is not awaited / its error is dropped: a record can be lost silently", site_of(b, x))
        ev = str(flow.expr_of(b, t["args"][2]))
        ctx.ob("ROUTE", "send:sends-the-record", "try_next" in ev, "the record sent is the one just read", site_of(b, x))
        ech = str(flow.expr_of(b, t["args"][0]))
        ctx.ob("ROUTE", "send:channel-of-dest", "HashMap::<K, V, S, A>::get_mut" in ech and "Fn::call" in ech, "the channel is send_channels[dest_shard]" if "Fn::call" in ech else "the channel used is not indexed by the picked shard", site_of(b, x))
        # record id advance after send
        adv = flow.find_calls(b, re.compile(r"AddAssign::add_assign$"))
        ok_adv = any(F.const_int(t2["args"][1]) == 1 and q is not None and flow.dominates(dom, q[1], xb) for xb, t2 in adv)
        ctx.ob("ROUTE", "send:record-id-advances", ok_adv, "per-destination record id += 1 after a successful send" if ok_adv else "the per-destination record id does not advance by one per sent record", site_of(b, x))
    else:
        ctx.ob("ROUTE", "send:awaited-and-propagated", False, "no send on the other-shard edge: records for other shards are dropped", site_of(b, sw))
    for bb_, vn, ex in send_defs:
        ctx.ob("ROUTE", "send:yields-none", vn == "None", "a sent record is not also kept locally" if vn == "None" else "a record that was sent to another shard is also yielded locally (duplicated)", site_of(b, bb_))


def _is_next_option(e):
    """the Option that `input.try_next().await?` evaluates to"""
    return isinstance(e, tuple) and e[0] == "proj" and e[2:] == ("as:Continue", "0") and e[1][0] == "call" and e[1][1].endswith("Try::branch")


def _ends_unclosed(b, facts, close_bbs, end_bbs):
    """Is an end-of-stream return reachable from the entry without entering the close loop?  Reachability over
    (block, what is known about the Option from try_next: unknown / Some / None): an edge that contradicts what an earlier
    test of the same Option established is not taken, so `if next.is_none() { close all } ... match next { None => end }`
    is recognised as closing before every end."""
    from rules.C17 import variant_arms
    arms_at = {}
    for sw, pl, arms in variant_arms(b, "std::option::Option", facts):
        if _is_next_option(flow.expr_of(b, {"cp": pl}, max_depth=6)):
            arms_at[sw] = arms
    know = {}
    for tgt, f in flow.edge_guards(b):
        if f[0] in ("true", "false") and f[1][0] == "call" and re.search(r"Option::<T>::is_(none|some)$", f[1][1]) and _is_next_option(f[1][2][0]):
            none = f[1][1].endswith("is_none")
            know[tgt] = "N" if (f[0] == "true") == none else "S"
    seen = {(0, "U")}
    work = [(0, "U")]
    while work:
        bb, st = work.pop()
        if bb in end_bbs:
            return True
        for s_ in b.succs(bb):
            if s_ in close_bbs:
                continue
            ns = st
            new = None
            if bb in arms_at:
                a = arms_at[bb]
                if s_ == a.get("None") and s_ != a.get("Some"):
                    new = "N"
                elif s_ == a.get("Some") and s_ != a.get("None"):
                    new = "S"
            if new is None and b.term(bb)["k"] == "switch" and s_ in know and len(b.preds(s_)) == 1:
                new = know[s_]
            if new is not None:
                if st != "U" and st != new:
                    continue            # contradicts an earlier test of the same value
                ns = new
            if (s_, ns) not in seen:
                seen.add((s_, ns))
                work.append((s_, ns))
    return False


def close_all(ctx, facts, b):
    ctx.rule("PAIR-close: on the input-exhausted edge every value of send_channels is closed with its last record id before Ok(None); every close call is dominated by the Continue edge of `?` on input.try_next() and lies on the None side of its Option (never on an error path)")
    dom = b.dominators()
    cl = flow.find_calls(b, re.compile(r"::close$"))
    vals = [(bb, t) for bb, t in flow.find_calls(b, re.compile(r"HashMap::<K, V, S, A>::(values|values_mut|iter|iter_mut)$")) if "SendingEnd<" in (b.local_ty(F.op_local(t["args"][0])) or "")]   # the map of sending ends, whatever it is called
    lb, helper_call = b, None
    if not cl:
        # the loop may live in an async helper that is handed the map: `close_shard_channels(send_channels).await`
        for hbb, ht in b.calls():
            fn = F.callee(ht)[0] or ""
            if fn in facts.bodies and any("SendingEnd<" in (b.local_ty(F.op_local(a)) or "") for a in ht["args"] if F.op_local(a) is not None):
                for hb in facts.tree(fn):
                    hcl = flow.find_calls(hb, re.compile(r"::close$")) if hb.coroutine else []
                    hvals = [(bb, t) for bb, t in flow.find_calls(hb, re.compile(r"HashMap::<K, V, S, A>::(values|values_mut|iter|iter_mut)$")) if "upvar" in str(flow.expr_of(hb, t["args"][0], max_depth=6))] if hcl else []
                    if hcl and hvals and flow.settled(b, hbb) is not None:
                        lb, helper_call, cl_loop = hb, (hbb, ht), hcl
                        cl, vals = [(hbb, ht)], [(hbb, ht)]
    if not cl or not vals:
        return ctx.ob("PAIR-close", "close-loop", False, "no loop closing the send channels when the input ends: peers wait forever / records stay buffered", site_of(b))
    cb, ct = cl[0] if helper_call is None else cl_loop[0]
    e = str(flow.expr_of(lb, ct["args"][0]))
    ok = "Iterator::next" in e and re.search(r"HashMap::<K, V, S, A>::(values|values_mut|iter|iter_mut)'", e) is not None
    ctx.ob("PAIR-close", "closes-each-channel", ok, "close() is applied to every channel yielded by send_channels.values()" if ok else "close() is not applied to the iterated channels", site_of(lb, cb))
    e2 = str(flow.expr_of(lb, ct["args"][1]))
    ctx.ob("PAIR-close", "closes-at-last-record", "Iterator::next" in e2, "closed at the per-destination record count", site_of(lb, cb))
    # Ok(None) after exhaustion is reached only through the loop exit
    try_next = flow.find_calls(b, re.compile(r"TryStreamExt::try_next$"))
    oks = malsec.ok_blocks(b)
    nones = []
    for o in oks:
        for st in b.stmts(o):
            if "p" in st and st["p"] == [0] and st["r"]["k"] == "agg":
                ee = flow.expr_of(b, st["r"]["ops"][0])
                if ee[0] == "agg" and ee[1] == ("std::option::Option", "None"):
                    nones.append(o)
    okn = bool(nones) and not _ends_unclosed(b, facts, {x for x, _ in vals}, set(nones))
    ctx.ob("PAIR-close", "ok-none-after-close-loop", okn, "the send stream ends only after the close loop ran" if okn else "the send stream can end without closing the channels", site_of(b, nones[0]) if nones else site_of(b))
    # closing is the only end-of-data signal a receiving shard gets: it may happen only once the input has ended
    # cleanly - after the `?` on try_next took its Continue edge and on the None side of the unwrapped Option.  Closed
    # on an error path, the peers take what they got so far for the complete set and return Ok.
    from rules.C17 import variant_arms
    tn = try_next[0][0] if try_next else None
    stn = flow.settled(b, tn) if tn is not None else None
    q = stn["q"] if stn else None
    opt = [x for x in variant_arms(b, "std::option::Option", facts) if _is_next_option(flow.expr_of(b, {"cp": x[1]}, max_depth=6))]
    for k, (cbb, ctt) in enumerate(cl):
        after_q = q is not None and flow.dominates(dom, q[1], cbb)
        none_side = any("None" in arms and flow.dominates(dom, arms["None"], cbb) and not ("Some" in arms and arms["Some"] == arms["None"]) for _, _, arms in opt) \
            or flow.holds(b, dom, cbb, lambda f: f[0] in ("true", "false") and f[1][0] == "call" and _is_next_option(f[1][2][0] if f[1][2] else None) and ((f[0] == "true" and f[1][1].endswith("Option::<T>::is_none")) or (f[0] == "false" and f[1][1].endswith("Option::<T>::is_some"))))
        okc = after_q and none_side
        ctx.ob("PAIR-close", f"close#{k}:only-after-clean-end-of-input", okc, "channels are closed only after try_next()? yielded None" if okc else
               ("the channels are closed on a path on which the input may have failed (before the `?` on try_next): the peer shards see a clean end of data, keep what they received so far and complete successfully with records missing" if not after_q else
                "the channels are closed on a path that is not the end of the input (not under the None arm of try_next): peers see the end of data early"), site_of(b, cbb))
    st = flow.settled(lb, cb)
    ctx.ob("PAIR-close", "close-awaited", st is not None, "close(..) is awaited" if st else "close(..) future is created but never awaited (nothing is closed)", site_of(b, cb))


def errors(ctx, facts, send, main):
    ctx.rule("ERR: every fallible await in the tree is `?`-propagated (input.try_next, send, merged stream try_next); exceeding the size hint => Err(RecordIdOutOfRange)")
    for name, b in (("send-closure", send), ("main", main)):
        tn = flow.find_calls(b, re.compile(r"TryStreamExt::try_next$"))
        for k, (bb, t) in enumerate(tn):
            st = flow.settled(b, bb)
            ok = st is not None and st["q"] is not None
            ctx.ob("ERR", f"{name}:try_next#{k}", ok, "stream error is propagated with `?`" if ok else "an error from the stream is not propagated (records silently missing)", site_of(b, bb))
    gs = [g for g in malsec.guards(send, r"^$")]
    found = False
    for bb in sorted(send.live_blocks()):
        t = send.term(bb)
        if t["k"] != "switch":
            continue
        e = flow.expr_of(send, t["o"])
        is_cmp = e[0] == "bin" and e[1] in ("Ge", "Gt", "Lt", "Le")
        # the counter (the captured `i`, through RecordId / usize conversions) against the size hint (a captured length)
        cnt_side = is_cmp and [k for k in (2, 3) if re.search(r"try_from|From::from|Into::into", str(e[k])) and "upvar" in str(e[k])]
        if is_cmp and cnt_side and "upvar" in str(e[5 - cnt_side[0]]):
            found = True
            ed = flow.switch_edges(send, bb)
            # normalise to `counter OP length`
            op = e[1] if cnt_side[0] == 2 else {"Ge": "Le", "Gt": "Lt", "Le": "Ge", "Lt": "Gt"}[e[1]]
            bad = ed[1] if op in ("Ge", "Gt") else ed[0]
            reach = send.reachable(bad)
            ok = any(x in reach for x in malsec.err_aggs(send, "RecordIdOutOfRange")) and not any(x in reach for x, _ in flow.find_calls(send, re.compile(r"std::ops::Fn::call$")))
            e = (e[0], "Ge" if op in ("Ge", "Lt") else op, e[2], e[3])
            ctx.ob("ERR", "size-hint-guard", ok and e[1] == "Ge", "more records than the size hint => Err(RecordIdOutOfRange)" if ok and e[1] == "Ge" else f"size-hint guard is `{e[1]}` / does not return RecordIdOutOfRange before routing", site_of(send, bb))
    if not found:
        ctx.ob("ERR", "size-hint-guard", False, "no guard against input longer than its size hint", site_of(send))


def _root_local(b, op, depth=0):
    """the local an operand ultimately refers to, through moves, copies, reborrows and deref_mut-style forwarding"""
    l = F.op_local(op) if isinstance(op, dict) else op
    for _ in range(12):
        ds = b.defs().get(l, [])
        if len(ds) != 1:
            return l
        bb, idx, d = ds[0]
        if idx == "t":
            if re.search(r"(Deref::deref|DerefMut::deref_mut|AsMut::as_mut|AsRef::as_ref|Borrow::borrow|BorrowMut::borrow_mut|IntoIterator::into_iter)$", F.callee(d)[0] or "") and d["args"]:
                l = F.op_local(d["args"][0])
                if l is None:
                    return None
                continue
            return l
        if d["k"] in ("ref", "raw") and d.get("p"):
            l = d["p"][0]
        elif d["k"] == "use" and F.op_local(d["o"]) is not None:
            l = F.op_local(d["o"])
        else:
            return l
    return l


def order(ctx, facts, send, main):
    ctx.rule("ORDER: r[usize::from(shard_id)].push(m) with shard_id taken from the merged stream item; result = r.into_iter().flatten().collect(); no parallel combinator inside the send closure; send stream built by try_unfold and merged with select")
    pushes = flow.find_calls(main, re.compile(r"Vec::<T, A>::push$|Vec::<T>::push$"))
    okp = False
    site = None
    for bb, t in pushes:
        e = str(flow.expr_of(main, t["args"][0]))
        if "IndexMut::index_mut" in e:
            site = bb
            okp = "From::from" in e and "try_next" in e and ("'0'" in e or ", 0)" in e)
    ctx.ob("ORDER", "slot-by-source-shard", okp, "records are appended to the slot of the shard they came from" if okp else "the output slot is not keyed by the source shard id of the item (arrival order would leak into the result order)", site_of(main, site) if site is not None else site_of(main))
    names = [F.callee(t)[0] or "" for _, t in main.calls()]
    # the result is the concatenation of the buckets r[0], r[1], .. in that order.  Accepted forms, identified by what
    # they do: collect(flatten(into_iter(r))), or a vector that is only ever extended with the items of an exhaustive
    # loop over into_iter(r).  `r` is the value the buckets were pushed into.
    r_loc = None
    for bb, t in pushes:
        e0 = flow.strip_casts(flow.expr_of(main, t["args"][0], max_depth=8))
        if e0[0] == "call" and e0[1].endswith("IndexMut::index_mut"):
            ix = [(b2, t2) for b2, t2 in main.calls() if (F.callee(t2)[0] or "").endswith("IndexMut::index_mut") and t2["d"] and _root_local(main, t["args"][0]) == t2["d"][0]]
            if ix:
                r_loc = _root_local(main, ix[0][1]["args"][0])
    why_flat = None
    rv_op = None
    for o in malsec.ok_blocks(main):
        for st in main.stmts(o):
            if "p" in st and st["p"] == [0] and st["r"]["k"] == "agg":
                rv_op = st["r"]["ops"][0]
    rets_ = [x for x in main.live_blocks() if main.term(x)["k"] == "ret"]
    if r_loc is None or rv_op is None:
        why_flat = "the per-source-shard buckets or the returned vector were not found"
    else:
        rv_loc = _root_local(main, rv_op)
        d_ = main.defs().get(rv_loc, [])
        prod = d_[0][2] if len(d_) == 1 and d_[0][1] == "t" else None
        pfn = (F.callee(prod)[0] or "") if prod else ""
        if pfn.endswith("Iterator::collect"):
            chain = flow.strip_casts(flow.expr_of(main, prod["args"][0], max_depth=6))
            fl = [(b2, t2) for b2, t2 in main.calls() if (F.callee(t2)[0] or "").endswith("Iterator::flatten") and t2["d"] and t2["d"][0] == _root_local(main, prod["args"][0])]
            if not fl or _root_local(main, fl[0][1]["args"][0]) != r_loc:
                why_flat = "the collected iterator is not flatten() over the buckets themselves (an adaptor such as rev / skip / a different source changes the order or drops a bucket)"
        elif pfn.endswith("concat"):
            if _root_local(main, prod["args"][0]) != r_loc:
                why_flat = "concat() is not applied to the buckets"
        elif re.search(r"Vec::<T(, A)?>::(new|with_capacity)$", pfn):
            muts = [(b2, t2) for b2, t2 in main.calls() if re.search(r"(Extend<.*>>::extend|Extend::extend|Vec::<T, A>::(append|extend_from_slice|push|insert|extend|truncate|clear|pop|remove|swap_remove|drain|retain|sort\w*|reverse|dedup\w*))$", F.callee(t2)[0] or "") and t2["args"] and _root_local(main, t2["args"][0]) == rv_loc]
            nxt = [(b2, t2) for b2, t2 in main.calls() if (F.callee(t2)[0] or "").endswith("Iterator::next") and _root_local(main, t2["args"][0]) == r_loc]
            if len(muts) != 1 or len(nxt) != 1 or not re.search(r"(extend|append|extend_from_slice)$", F.callee(muts[0][1])[0] or ""):
                why_flat = "the returned vector is not filled by exactly one extend inside one loop over the buckets"
            else:
                item = str(flow.expr_of(main, muts[0][1]["args"][1], max_depth=10))
                N_ = nxt[0][0]
                if "Iterator::next" not in item or "'as:Some'" not in item:
                    why_flat = "what is appended to the result is not the bucket the loop is at"
                elif any(r_ in main.reachable(muts[0][0], avoid=frozenset([N_])) for r_ in rets_):
                    why_flat = "the loop over the buckets can end before the last bucket"
        else:
            why_flat = f"the result is produced by {pfn.split('::')[-1] or 'something'} and not by concatenating the buckets in index order"
    ctx.ob("ORDER", "flatten-in-shard-order", why_flat is None, "result is the concatenation of the per-source-shard vectors in index order" if why_flat is None else why_flat + " (the order in which each shard holds its records must be the same on all three helpers)", site_of(main))
    ctx.ob("ORDER", "send-is-try_unfold", any(n.endswith("stream::try_unfold") for n in names) and any(n.endswith("stream::select") for n in names), "sequential send loop (try_unfold) merged with the receive stream (select)", site_of(main))
    par = [F.callee(t)[0] for _, t in send.calls() if re.search(r"(join_all|try_join|join\d?|select|seq_join|parallel_join|FuturesUnordered|spawn)$", F.callee(t)[0] or "")]
    ctx.ob("ORDER", "send-closure-sequential", not par, "no concurrent combinator inside the send step" if not par else f"sends are issued concurrently ({par[:2]}): per-destination order is no longer the input order", site_of(send))


def split(ctx, facts):
    ctx.rule("SPLIT: StreamSplitter::poll_next pushes k and returns Ready(Some(Ok(a))) in the same poll, forwards Err and None; size_hint delegates to the inner stream")
    bs = [b for p, b in facts.bodies.items() if p.startswith("<query::runner::reshard_tag::StreamSplitter<") and p.endswith("Stream>::poll_next")]
    if not bs:
        return ctx.missing("SPLIT", "StreamSplitter::poll_next")
    b = bs[0]
    dom = b.dominators()
    prx = re.compile(r"Vec::<T, A>::push$|Vec::<T>::push$")
    tree = [x for p_, x in facts.bodies.items() if p_ == b.path or p_.startswith(b.path + "::{closure")]
    where = [(x, bb) for x in tree for bb, _ in flow.find_calls(x, prx)]
    ok, why = False, "tag is yielded without storing the data part (data and tags get out of step)"
    if len(where) == 1:
        pbody, pbb = where[0]
        if pbody is b:
            # explicit match: every Ok(..) built for the caller is dominated by the push
            oks_ = [bb for bb, idx, s_ in b.iter_assigns() if s_["r"]["k"] == "agg" and s_["r"].get("adt") == "std::result::Result" and s_["r"]["vn"] == "Ok"]
            ok = bool(oks_) and all(flow.dominates(dom, pbb, o) for o in oks_)
        else:
            # closure form: `item.map(|(data, tag)| { buf.push(data); tag })` - the closure stores before it returns on
            # every path, and it is the function given to Result::map (so it runs for every Ok item and for nothing else)
            rets_ = [x for x in pbody.live_blocks() if pbody.term(x)["k"] == "ret"]
            stores_first = pbb == 0 or not any(r_ in pbody.reachable(0, avoid=frozenset([pbb])) for r_ in rets_)
            old_cd = flow.CLOSURE_DEFS
            flow.CLOSURE_DEFS = True
            try:
                parent = facts.bodies.get(pbody.path.rsplit("::{closure", 1)[0])
                given = False
                if parent is not None:
                    for bb, t in parent.calls():
                        if re.search(r"Result::<T, E>::map$", F.callee(t)[0] or "") and len(t["args"]) == 2:
                            a1 = flow.expr_of(parent, t["args"][1], max_depth=4)
                            if a1[0] == "agg" and isinstance(a1[1], tuple) and a1[1][1] == pbody.path:
                                given = True
            finally:
                flow.CLOSURE_DEFS = old_cd
            ok = stores_first and given
            if not given:
                why = "the closure that stores the data part is not the one applied to every Ok item (Result::map)"
    elif len(where) > 1:
        why = "the data part is stored more than once per item"
    ctx.ob("SPLIT", "push-then-yield", ok, "each item's data part is stored exactly once before its tag is yielded" if ok else why, site_of(b))
    sh = [bd for p, bd in facts.bodies.items() if p.startswith("<query::runner::reshard_tag::StreamSplitter<") and p.endswith("Stream>::size_hint")]
    oks = bool(sh) and any((F.callee(t)[0] or "").endswith("Stream::size_hint") for _, t in sh[0].calls())
    ctx.ob("SPLIT", "size-hint-delegates", oks, "size_hint is the inner stream's", site_of(sh[0]) if sh else None)
    ra = malsec.async_body(facts, "query::runner::reshard_tag::reshard_aad")
    if ra is None:
        return ctx.missing("SPLIT", "reshard_aad")
    rs = flow.find_calls(ra, re.compile(r"context::reshard_try_stream$"))
    st = flow.settled(ra, rs[0][0]) if rs else None
    okq = st is not None and st["q"] is not None
    if st is not None and not okq and st.get("out") is not None:
        # `reshard_try_stream(..).await.map(|a| (k, a))` as the function's value keeps the error as it is
        al = flow.local_aliases_fwd(ra, st["out"])
        for mb, mt in flow.find_calls(ra, re.compile(r"Result::<T, E>::(map|and_then)$")):
            if F.op_local(mt["args"][0]) in al and not (set(malsec.ok_blocks(ra)) & ra.reachable(mb)):
                okq = True
    ctx.ob("SPLIT", "reshard-awaited", okq, "reshard_try_stream is awaited and `?`-propagated", site_of(ra))
    if rs:
        e = str(flow.expr_of(ra, rs[0][1]["args"][2]))
        ctx.ob("SPLIT", "picker-forwarded", "arg" in e or "upvar" in e, "the caller's shard picker is passed through unchanged", site_of(ra, rs[0][0]))


def err_adapters(ctx, facts):
    """ERR-adapter: a stream adapter whose items are Results must not turn an inner `Some(Err(e))` into
    `None` / `Some(Ok(_))`: on the shard receive path `None` is the normal end of a peer's stream, so a swallowed
    transport error makes resharding return Ok with records missing."""
    from vlib import variants as V
    ctx.rule("ERR-adapter: for every Stream::poll_next impl (non-test) whose Item is a Result and that polls an inner stream of Results: wherever the inner result may be Some(Err), the value returned is the inner result itself or Ready(Some(Err(_)))")
    n = 0
    for b in sorted(facts.non_test_bodies(), key=lambda x: x.path):
        if not b.file.startswith("ipa-core/") or not b.path.endswith("Stream>::poll_next") or b.kind != "AssocFn":
            continue
        rty = b.local_ty(0)
        if not rty.startswith("std::task::Poll<std::option::Option<") or "Result<" not in rty and "Item" not in rty:
            continue
        inner = [(bb, t) for bb, t in b.calls() if re.search(r"(Stream::poll_next|StreamExt::poll_next_unpin|TryStream::try_poll_next)$", F.callee(t)[0] or "")]
        if not inner:
            continue
        # only adapters whose inner item type is a Result too
        ib, it = inner[0]
        ity = b.local_ty(it["d"][0])
        if "Result<" not in ity and "Item" not in ity:
            continue
        if "Result<" not in rty and "Result<" not in ity:
            # opaque associated item types: only analyse if a Result variant is ever matched/built
            if not any(s["r"]["k"] == "agg" and s["r"].get("adt") == "std::result::Result" for _, _, s in b.iter_assigns()) and "as Err" not in str(b.blocks):
                continue
        n += 1
        ctx.count(bodies=1)

        def model(vf, env, bb, t, _ib=ib):
            if bb == _ib:
                res = vf.new_sym(env, "inner-res", "std::result::Result", None, origin=("inner",))
                opt = vf.new_sym(env, "inner-opt", "std::option::Option", None, origin=("inner",))
                vf.syms["inner-opt"].payload[(1, 0)] = res
                pol = vf.new_sym(env, "inner-poll", "std::task::Poll", None, origin=("inner",))
                vf.syms["inner-poll"].payload[(0, 0)] = opt
                return pol
            return NotImplemented
        vf = V.VariantFlow(facts, b, call_model=model)
        try:
            vf.run()
        except RuntimeError as e:
            ctx.ob("ERR-adapter", b.path, False, f"not analysable: {e}", site_of(b))
            continue
        bad = None

        def nested_ok(vf, env, val):
            """val is Ready(Some(Err)) possibly, or contains the inner syms themselves"""
            if not isinstance(val, frozenset):
                return False
            for s in val:
                if s in ("inner-poll",):
                    continue
                sym = vf.syms[s]
                if sym.adt != "std::task::Poll":
                    return False
                vs = env["S"].get(s, frozenset())
                if vs != frozenset([0]):
                    return False   # Pending / unknown while an error is pending
                o = sym.payload.get((0, 0))
                if not isinstance(o, frozenset):
                    return False
                for os_ in o:
                    if os_ == "inner-opt":
                        continue
                    osym = vf.syms[os_]
                    if env["S"].get(os_, frozenset()) != frozenset([1]):
                        return False
                    r = osym.payload.get((1, 0))
                    if not isinstance(r, frozenset):
                        return False
                    for rs in r:
                        if rs == "inner-res":
                            continue
                        if vf.syms[rs].adt != "std::result::Result" or env["S"].get(rs, frozenset()) != frozenset([1]):
                            return False
            return True

        for bb in sorted(vf.in_env):
            env2 = vf.copy_env(vf.in_env[bb])
            for idx, st in enumerate(b.stmts(bb)):
                if "p" not in st:
                    continue
                val = vf.rvalue(env2, bb, idx, st["r"])
                vf.assign(env2, bb, idx, st["p"], val)
                if st["p"] == [0]:
                    S = env2["S"]
                    err_pending = S.get("inner-res") == frozenset([1]) and S.get("inner-opt", frozenset([1])) == frozenset([1]) and S.get("inner-poll", frozenset([0])) == frozenset([0])
                    if err_pending and not nested_ok(vf, env2, val):
                        bad = (bb, idx)
        ctx.ob("ERR-adapter", b.path, bad is None, "an inner Some(Err(e)) is passed on as an error" if bad is None else "on the inner stream's Some(Err(_)) edge this adapter returns something else (e.g. Ready(None)): the transport error is swallowed and the consumer sees a normal end of stream — records are silently dropped",
               site_of(b, bad[0], bad[1]) if bad else site_of(b))
    ctx.floor("ERR-adapter", "Result-item stream adapters", n, 1)


# ---------------------------------------------------------------------------------------------
def wrappers(ctx, facts):
    """The entry points most protocols use are thin wrappers around reshard_try_stream; the fan-in of the receive side
    covers every peer shard exactly once and labels each item with the shard it came from."""
    ctx.rule("WRAP: reshard_stream = reshard_try_stream(ctx, input.map(Ok), picker) and reshard_iter = reshard_stream(ctx, stream::iter(input), picker), results returned unchanged; recv_from_shards = select_all over peer_shards() of shard_recv_channel(origin) with every item labelled by that same origin; peer_shards() = ShardIndex::iter(shard_count()) filtered by `!= shard_id()` and ShardIndex::iter = (0..n).map(ShardIndex)")
    flow_old = flow.CLOSURE_DEFS
    flow.CLOSURE_DEFS = True
    try:
        for root, callee, inner_rx in (("protocol::context::reshard_stream", "protocol::context::reshard_try_stream", r"StreamExt::map$"), ("protocol::context::reshard_iter", "protocol::context::reshard_stream", r"stream::iter$")):
            b = malsec.async_body(facts, root)
            if b is None:
                ctx.missing("WRAP", root)
                continue
            ctx.count(bodies=1)
            name = root.split("::")[-1]
            pn = C07params(facts, root)
            cs = flow.find_calls(b, re.compile(re.escape(callee) + "$"))
            ok = False
            why = f"{name} does not call {callee.split('::')[-1]} exactly once"
            if len(cs) == 1:
                a = [flow.expr_of(b, x, max_depth=20) for x in cs[0][1]["args"]]
                okc = a[0] == ("upvar", pn.get(1)) and a[2] == ("upvar", pn.get(3))
                src = a[1]
                shape = src[0] == "call" and re.search(inner_rx, src[1]) is not None
                if shape and src[1].endswith("StreamExt::map"):
                    shape = src[2][0] == ("upvar", pn.get(2)) and src[2][1] == ("fn", "std::prelude::v1::Ok")
                elif shape:
                    inner = src[2][0]
                    while inner[0] == "call" and inner[1].endswith("IntoIterator::into_iter"):
                        inner = inner[2][0]
                    shape = inner == ("upvar", pn.get(2))
                ret = flow.expr_of(b, {"cp": [0]}, max_depth=40)
                okr = malsec.value_source(ret, re.escape(callee) + "$") is not None and "Try::branch" not in str(ret)[:200]
                ok = okc and shape and okr
                why = "context, every input item and the picker are handed on unchanged and the callee's result is returned" if ok else ("the context or the shard picker handed on is not the caller's" if not okc else ("the items handed on are not exactly the caller's input (filtered, mapped or truncated)" if not shape else "the callee's result is not returned as is"))
            ctx.ob("WRAP", f"{name}:forwards", ok, why, site_of(b, cs[0][0]) if cs else site_of(b))
        # recv_from_shards
        root = "protocol::context::ShardedContext::recv_from_shards"
        b = facts.bodies.get(root)
        if b is None:
            ctx.missing("WRAP", root)
        else:
            ctx.count(bodies=3)
            ret = flow.expr_of(b, {"cp": [0]}, max_depth=20)
            ok = ret[0] == "call" and ret[1].endswith("stream::select_all") and ret[2][0][0] == "call" and ret[2][0][1].endswith("Iterator::map") and ret[2][0][2][0] == ("call", "sharding::ShardConfiguration::peer_shards", (("arg", 1),))
            ctx.ob("WRAP", "recv_from_shards:all-peers-merged", ok, "select_all(peer_shards().map(..))" if ok else "the receive side does not merge one stream per peer shard (a shard's rows would never be received)", site_of(b))
            per = facts.bodies.get(root + "::{closure#0}")
            lab = facts.bodies.get(root + "::{closure#0}::{closure#0}")
            okp = okl = False
            if per is not None and lab is not None:
                rc = flow.find_calls(per, re.compile(r"shard_recv_channel$"))
                okp = len(rc) == 1 and flow.expr_of(per, rc[0][1]["args"][1]) == ("arg", 2)
                mp = flow.find_calls(per, re.compile(r"StreamExt::map$"))
                cap = flow.expr_of(per, mp[0][1]["args"][1], max_depth=8) if mp else None
                okp = okp and cap is not None and cap[0] == "agg" and cap[2] == (("arg", 2),)
                r2 = flow.expr_of(lab, {"cp": [0]}, max_depth=8)
                okl = r2[0] == "agg" and r2[1] == "tuple" and len(r2[2]) == 2 and r2[2][0][0] == "upvar" and r2[2][1] == ("arg", 2)
            ctx.ob("WRAP", "recv_from_shards:labelled-with-origin", okp and okl, "items of shard_recv_channel(origin) are labelled (origin, item)" if okp and okl else "a received item is not labelled with the shard whose channel it came from (rows are filed under the wrong origin: global order differs between helpers)", site_of(per) if per is not None else site_of(b))
        # peer_shards(): every shard index below shard_count() except this shard's own, each once
        pb = facts.bodies.get("sharding::ShardConfiguration::peer_shards")
        ib = facts.bodies.get("sharding::ShardIndex::iter")
        if pb is None or ib is None:
            ctx.missing("WRAP", "ShardConfiguration::peer_shards / ShardIndex::iter")
        else:
            ctx.count(bodies=2)
            ret = flow.expr_of(pb, {"cp": [0]}, max_depth=10)
            why = None
            if not (ret[0] == "call" and ret[1].endswith("Iterator::filter") and ret[2][0] == ("call", "sharding::ShardIndex::iter", (("call", "sharding::ShardConfiguration::shard_count", (("arg", 1),)),))):
                why = "peer_shards() is not a filter over ShardIndex::iter(self.shard_count())"
            else:
                cl = ret[2][1]
                cb = facts.bodies.get(cl[1][1]) if cl[0] == "agg" and isinstance(cl[1], tuple) else None
                caps = cl[2] if cb is not None else ()
                pred = flow.expr_of(cb, {"cp": [0]}, max_depth=8) if cb is not None else None
                this = ("call", "sharding::ShardConfiguration::shard_id", (("arg", 1),))
                def is_item(e):
                    return e[0] == "arg" and e[1] == 2
                okp_ = pred is not None and ((pred[0] == "call" and pred[1].endswith("PartialEq::ne")) or (pred[0] == "bin" and pred[1] == "Ne")) and \
                    len(caps) == 1 and caps[0] == this and sorted(1 if is_item(x) else 0 for x in (pred[2] if pred[0] == "call" else pred[2:4])) == [0, 1]
                if not okp_:
                    why = "the filter of peer_shards() is not `index != self.shard_id()`: a peer is left out (its records are never received and its channel never closed) or this shard is treated as its own peer"
            it = flow.expr_of(ib, {"cp": [0]}, max_depth=8)
            oki = it[0] == "call" and it[1].endswith("Iterator::map") and it[2][0] == ("agg", ("std::ops::Range", "Range"), (("const", 0), ("arg", 1, "0"))) and it[2][1] == ("fn", "sharding::ShardIndex")
            if why is None and not oki:
                why = "ShardIndex::iter() is not (0..count).map(ShardIndex): some shard index is skipped or visited twice"
            ctx.ob("WRAP", "peer_shards:all-others-once", why is None, "peer_shards() = (0..shard_count) without this shard" if why is None else why, site_of(pb))
    finally:
        flow.CLOSURE_DEFS = flow_old


# ---------------------------------------------------------------------------------------------
def shard_counts(ctx, facts):
    """Every routing decision is `something % shard_count()`, on every shard of a helper and on all three helpers: they
    agree only if all of them see the same count.  The count is derived in layers (transport: number of peers; gateway:
    peers + 1; contexts: forwarded) and the HTTP transports - compiled in the real-world-infra configurations only -
    override the default `peers().count()`; an override that is off by one changes the modulus on real deployments and
    nowhere else."""
    from rules.C13 import ieval, NoEval
    ctx.rule("COUNT-shards: every override of Transport::peer_count equals, evaluated for 1..6 shards, the number of items of the same impl's peers() (source collection minus this identity) or forwards to the inner transport; &Gateway::shard_count = peer_count(shard transport) + 1; every other ShardConfiguration::shard_count is a field read or forwards to an inner value")
    old = flow.CLOSURE_DEFS
    flow.CLOSURE_DEFS = True
    try:
        n_over = 0
        for p, b in sorted(facts.bodies.items()):
            if facts.is_test_path(p) or not b.file.startswith("ipa-core/"):
                continue
            m = re.match(r"^<(.+) as helpers::transport::Transport>::peer_count$", p)
            if not m:
                continue
            ctx.count(bodies=1)
            n_over += 1
            who = m.group(1).split("::")[-1]
            e = flow.expr_of(b, {"cp": [0]}, max_depth=10)
            if e[0] == "call" and e[1].endswith("Transport::peer_count") and e[2][0][0] == "arg" and e[2][0][1] == 1:
                ctx.ob("COUNT-shards", f"peer_count:{who}", True, "forwards to the inner transport", site_of(b))
                continue
            e2 = e
            while e2[0] == "call" and re.search(r"(TryFrom::try_from|TryInto::try_into|From::from|Into::into|Result::<T, E>::(unwrap|expect)|Option::<T>::(unwrap|expect))$", e2[1]):
                e2 = e2[2][0]
            if e2[0] == "call" and e2[1].endswith("Iterator::count") and e2[2][0][0] == "call" and e2[2][0][1].endswith("Transport::peers") and e2[2][0][2] == (("arg", 1),):
                ctx.ob("COUNT-shards", f"peer_count:{who}", True, "counts its own peers()", site_of(b))
                continue
            pb = facts.bodies.get(p[:-len("peer_count")] + "peers")
            why = None
            if pb is None:
                why = "peer_count is overridden but peers() of the same impl was not found"
            else:
                pe = flow.expr_of(pb, {"cp": [0]}, max_depth=10)
                while pe[0] == "call" and re.search(r"Iterator::(copied|cloned)$", pe[1]):
                    pe = pe[2][0]
                if not (pe[0] == "call" and pe[1].endswith("Iterator::filter")):
                    why = "peers() is not `collection.filter(|v| v != this)`"
                else:
                    src, cl = pe[2][0], pe[2][1]
                    cb = facts.bodies.get(cl[1][1]) if cl[0] == "agg" and isinstance(cl[1], tuple) else None
                    pred = flow.expr_of(cb, {"cp": [0]}, max_depth=8) if cb is not None else None
                    if not (pred and ((pred[0] == "call" and pred[1].endswith("PartialEq::ne")) or (pred[0] == "bin" and pred[1] == "Ne"))):
                        why = "the filter of peers() is not `!= this identity`"
                    SC = ("arg", 1, "shard_count")
                    if why is None:
                        if src == ("call", "sharding::ShardIndex::iter", (SC,)):
                            size = lambda n: n
                            rng = range(1, 7)
                        elif "make_three" in str(src) or "Role::all" in str(src):
                            size = lambda n: 3
                            rng = range(3, 4)
                        else:
                            why = "cannot tell how many identities peers() draws from"
                    if why is None:
                        try:
                            for n in rng:
                                got = ieval(e, {SC: n, ("call", "std::convert::From::from", (SC,)): n})
                                if got != size(n) - 1:
                                    why = f"with {size(n)} identities in the network peers() yields {size(n) - 1} but peer_count() returns {got}: the gateway's shard_count (peer_count + 1) is {got + 1} on this transport - a different modulus for every `% shard_count` routing decision than on the other transports / helpers"
                                    break
                        except NoEval as ex:
                            why = f"cannot evaluate peer_count ({ex})"
            ctx.ob("COUNT-shards", f"peer_count:{who}", why is None, "equals the number of peers()" if why is None else why, site_of(b))
        ctx.floor("COUNT-shards", "Transport::peer_count overrides", n_over, 2)
        n_sc = 0
        for p, b in sorted(facts.bodies.items()):
            if facts.is_test_path(p) or not b.file.startswith("ipa-core/") or not re.search(r"sharding::ShardConfiguration(>| for ).*::shard_count$", p):
                continue
            ctx.count(bodies=1)
            n_sc += 1
            e = flow.expr_of(b, {"cp": [0]}, max_depth=10)
            ty = p.split(" as ")[0].lstrip("<") if " as " in p else p.split(" for ")[-1].rsplit(">::", 1)[0]
            ty = re.sub(r"<.*", "", ty)
            who = ("&" if ty.startswith("&") else "") + "::".join(ty.lstrip("&").split("::")[-2:])
            if re.search(r"(^<&|for &)helpers::gateway::Gateway", p):
                ok = e == ("call", "std::convert::From::from", (("bin", "Add", ("call", "helpers::transport::Transport::peer_count", (("arg", 1, "transports", "shard"),)), ("const", 1)),))
                ctx.ob("COUNT-shards", "shard_count:&Gateway", ok, "peer_count(shard transport) + 1" if ok else f"the gateway's shard count is not the shard transport's peer_count() + 1 (this instance): {str(e)[:120]}", site_of(b))
                continue
            fwd = e[0] == "call" and e[1].endswith("ShardConfiguration::shard_count") and len(e[2]) == 1 and "'bin'" not in str(e[2][0])
            fld = e[0] == "arg" and e[1] == 1 and e[-1] == "shard_count"
            ctx.ob("COUNT-shards", f"shard_count:{who}", fwd or fld, "forwards / reads the stored count" if (fwd or fld) else f"shard_count() of this layer computes something of its own ({str(e)[:100]}): the layers disagree about the modulus", site_of(b))
        ctx.floor("COUNT-shards", "ShardConfiguration::shard_count impls", n_sc, 6)
    finally:
        flow.CLOSURE_DEFS = old
