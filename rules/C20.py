"""C20  Helper-to-helper and shard-to-shard endpoints refuse unauthenticated callers.

Decided statically (necessary conditions; DESIGN.md §3/C20):
  ROUTE   abstract evaluation of every axum Router-building function under net::server::handlers
          (Router::new/route/merge/nest/layer + calls to other router functions): every route mounted
          through h2h_router / s2s_router is wrapped by HelperAuthentication<_, Helper|Shard>;
          in the full mpc_router / shard_router every handler that is peer-only (takes the caller's
          ClientIdentity, or is mounted by the peer routers) carries the layer; the report-collector
          routes carry none.  A route merged after `.layer(..)` is not wrapped — the model applies
          a layer only to the routes present when it is applied (axum semantics).
  GUARD   HelperAuthentication::call forwards to the inner service only on the Some edge of
          extensions().get::<ClientIdentity<F::Identity>>(); the other edge answers
          StatusCode::UNAUTHORIZED.
  WHO     ClientIdentity values are constructed / inserted into request extensions only by the
          certificate acceptor, the header service and TryFrom<&HeaderValue>; the identity header is
          read only by SetClientIdentityFromHeader::call; SetClientIdentityFromHeader::new is
          referenced only on the disable_https == true arms of start_on and
          ClientCertRecognizingAcceptor::new only on the false arms; no query handler reads headers.
"""
import re
from vlib import facts as F, flow, variants as V
from vlib.core import site_of

LEVEL = "other"
EXPLANATION = "C20: route/layer census by abstract evaluation of router builders, guard polarity of the authentication layer, who-may-construct census for ClientIdentity, TLS/plain-HTTP arm exclusivity."
CONFIGS_QUICK = ["Q"]
CONFIGS_THOROUGH = ["Q", "P", "N"]

H = "net::server::handlers::"
AUTH = "net::server::handlers::query::HelperAuthentication"
CID = "net::server::ClientIdentity"


class Route:
    def __init__(self, handler, layers=()):
        self.handler, self.layers = handler, tuple(layers)

    def with_layer(self, l):
        return Route(self.handler, self.layers + (l,))

    def authed(self):
        return [l for l in self.layers if AUTH + "<" in l]


class RouterEval:
    def __init__(self, ctx, facts):
        self.ctx, self.facts, self.memo, self.problems = ctx, facts, {}, []

    def eval_fn(self, path, stack=()):
        if path in self.memo:
            return self.memo[path]
        if path in stack:
            return []
        b = self.facts.bodies.get(path)
        if b is None:
            self.problems.append((path, "router function has no body"))
            return []
        self.ctx.count(bodies=1)
        env = {}
        bb, seen = 0, set()
        while bb is not None and bb not in seen:
            seen.add(bb)
            for s in b.stmts(bb):
                if "p" in s and len(s["p"]) == 1:
                    r = s["r"]
                    if r["k"] == "use":
                        src = F.op_local(r["o"])
                        if src in env:
                            env[s["p"][0]] = env[src]
                    elif r["k"] == "agg":
                        env[s["p"][0]] = ("value", r.get("adt") or r["ak"])
            t = b.term(bb)
            if t["k"] == "call":
                fn, res, info = F.callee(t)
                args = [env.get(F.op_local(a)) if F.op_local(a) is not None else a for a in t["args"]]
                val = None
                dest_is_router = b.local_head(t["d"][0]) == "axum::Router" if len(t["d"]) == 1 else False
                if fn == "axum::Router::<S>::new":
                    val = ("router", [])
                elif fn in ("axum::Router::<S>::merge", "axum::Router::<S>::nest", "axum::Router::<S>::nest_service"):
                    parts = [a for a in args if isinstance(a, tuple) and a[0] == "router"]
                    if len(parts) != 2:
                        self.problems.append((path, f"{fn}: operand is not a modelled router"))
                    val = ("router", [r for p in parts for r in p[1]])
                elif fn in ("axum::Router::<S>::route", "axum::Router::<S>::route_service"):
                    base = args[0] if isinstance(args[0], tuple) and args[0][0] == "router" else ("router", [])
                    mr = args[2] if len(args) > 2 else None
                    handlers = mr[1] if isinstance(mr, tuple) and mr[0] == "method_router" else ["<unknown handler>"]
                    val = ("router", base[1] + [Route(h) for h in handlers])
                elif fn and re.match(r"^axum::routing::(get|post|put|delete|patch|head|options|any|on)$", fn):
                    hs = []
                    for a in t["args"]:
                        k = a.get("k") if isinstance(a, dict) else None
                        if k and "fn" in k:
                            hs.append(k["fn"])
                    val = ("method_router", hs or ["<closure handler>"])
                elif fn and re.match(r"^axum::routing::MethodRouter::<S, E>::(get|post|put|delete|patch|head|options|on)$", fn):
                    prev = args[0][1] if isinstance(args[0], tuple) and args[0][0] == "method_router" else []
                    hs = [a["k"]["fn"] for a in t["args"] if isinstance(a, dict) and a.get("k") and "fn" in a["k"]]
                    val = ("method_router", prev + hs)
                elif fn in ("axum::Router::<S>::layer", "axum::Router::<S>::route_layer"):
                    base = args[0] if isinstance(args[0], tuple) and args[0][0] == "router" else None
                    lty = (info.get("ga") or ["?", "?"])[-1]
                    if base is None:
                        self.problems.append((path, "layer applied to an unmodelled router"))
                        base = ("router", [])
                    val = ("router", [r.with_layer(lty) for r in base[1]])
                elif fn in ("axum::Router::<S>::with_state", "axum::Router::<S>::fallback", "axum::Router::<S>::fallback_service", "std::clone::Clone::clone"):
                    val = args[0] if args and isinstance(args[0], tuple) else None
                elif fn and fn in self.facts.bodies and self.facts.fns.get(fn, {}).get("output", "").startswith("axum::Router"):
                    val = ("router", self.eval_fn(fn, stack + (path,)))
                elif dest_is_router:
                    self.problems.append((path, f"unmodelled router combinator `{fn}`"))
                    val = ("router", [])
                if len(t["d"]) == 1:
                    if val is not None:
                        env[t["d"][0]] = val
                    else:
                        env.pop(t["d"][0], None)
                bb = t["t"]
            elif t["k"] in ("goto", "drop", "fe", "fu", "assert"):
                bb = t["t"]
            elif t["k"] == "ret":
                break
            else:
                self.problems.append((path, f"router builder has control flow ({t['k']}) the route census does not model"))
                break
        out = env.get(0)
        routes = out[1] if isinstance(out, tuple) and out[0] == "router" else []
        if not (isinstance(out, tuple) and out[0] == "router"):
            self.problems.append((path, "returned router is not modelled"))
        self.memo[path] = routes
        return routes


def run(ctx):
    facts = ctx.facts()
    route_census(ctx, facts)
    guard_auth(ctx, facts)
    guard_cert(ctx, facts)
    who_identity(ctx, facts)
    end_entity_cert(ctx, facts)
    tls_arms(ctx, facts)
    handlers_no_headers(ctx, facts)
    ctx.assume("axum::Router::layer wraps exactly the routes present when it is applied; tower/axum/rustls behave as documented")


def peer_handler(facts, h):
    f = facts.fns.get(h)
    return bool(f and any(CID + "<" in i for i in f["inputs"]))


def route_census(ctx, facts):
    ctx.rule("ROUTE-peer: every route returned by h2h_router / s2s_router carries a HelperAuthentication<_, Helper|Shard> layer (flavor matching the router)")
    ctx.rule("ROUTE-full: in mpc_router / shard_router every peer-only handler carries that layer, every route of shard_router except echo carries it, and the report-collector routes of query_router carry none")
    ev = RouterEval(ctx, facts)
    for name in ("query::h2h_router", "query::s2s_router", "query::query_router", "mpc_router", "shard_router"):
        if H + name not in facts.bodies:
            ctx.missing("ROUTE-peer", H + name)
            return
    h2h = ev.eval_fn(H + "query::h2h_router")
    s2s = ev.eval_fn(H + "query::s2s_router")
    coll = ev.eval_fn(H + "query::query_router")
    mpc = ev.eval_fn(H + "mpc_router")
    shard = ev.eval_fn(H + "shard_router")
    for path, why in ev.problems:
        ctx.ob("ROUTE-model", f"{path}", False, why)
    ctx.floor("ROUTE-peer", "h2h routes", len(h2h), 2)
    ctx.floor("ROUTE-peer", "s2s routes", len(s2s), 4)
    ctx.floor("ROUTE-full", "collector routes", len(coll), 5)
    peer_handlers = set()
    for label, routes, flavor in (("h2h", h2h, "net::Helper>"), ("s2s", s2s, "net::Shard>")):
        for n, r in enumerate(routes):
            peer_handlers.add(r.handler)
            au = r.authed()
            ok = bool(au) and all(a.rstrip("}>").endswith(flavor.rstrip(">")) or (flavor in a) for a in au)
            ctx.ob("ROUTE-peer", f"{label}:{F.short(r.handler, 2)}", ok,
                   f"wrapped by {au[0][:120]}" if au else "route is mounted in the peer router WITHOUT the authentication layer (merged after .layer(..) or layer removed)")
    for n, r in enumerate(coll):
        ctx.ob("ROUTE-full", f"collector:{F.short(r.handler, 2)}", not r.authed(), "reachable without peer identity" if not r.authed() else "report-collector route is behind the peer authentication layer")
    for label, routes in (("mpc", mpc), ("shard", shard)):
        ctx.floor("ROUTE-full", f"{label} routes", len(routes), 6 if label == "mpc" else 5)
        for r in routes:
            hshort = F.short(r.handler, 2)
            needs = peer_handler(facts, r.handler) or (r.handler in peer_handlers and r.handler not in {c.handler for c in coll})
            if label == "shard" and not re.search(r"::echo::", r.handler):
                needs = True
            if needs:
                ctx.ob("ROUTE-full", f"{label}:{hshort}", bool(r.authed()), "peer-only route is behind HelperAuthentication" if r.authed() else "peer-only route is reachable WITHOUT the authentication layer")
    # peer-only router functions are mounted only from the two authenticated routers
    for rf in ("query::step::router", "query::prepare::router", "query::status_match::router"):
        callers = set()
        for b in facts.non_test_bodies():
            for bb, t in b.calls():
                if F.callee(t)[0] == H + rf:
                    callers.add(b.root)
        ok = callers <= {H + "query::h2h_router", H + "query::s2s_router"} and callers
        ctx.ob("ROUTE-callers", rf, ok, f"mounted only by {sorted(F.short(c,1) for c in callers)}")


def guard_auth(ctx, facts):
    ctx.rule("GUARD-auth: in HelperAuthentication::call, Service::call on self.inner happens only where the extension lookup of ClientIdentity<F::Identity> is Some; where it is None the response is built from StatusCode::UNAUTHORIZED")
    bs = [b for p, b in facts.bodies.items() if p.startswith("<" + AUTH) and p.endswith("tower::Service<hyper::Request<B>>>::call")]
    if not bs:
        return ctx.missing("GUARD-auth", "HelperAuthentication::call")
    b = bs[0]
    ctx.count(bodies=1)
    gets = [(bb, t) for bb, t in b.calls() if F.callee(t)[0] == "axum::http::Extensions::get"]
    ok_ga = bool(gets) and all(re.match(r"^net::server::ClientIdentity<<F as net::ConnectionFlavor>::Identity>$", (F.callee(t)[2].get("ga") or [""])[0]) for _, t in gets)
    ctx.ob("GUARD-auth", "lookup-type", ok_ga, "extension looked up is ClientIdentity<F::Identity>" if ok_ga else "the authentication layer does not look up ClientIdentity<F::Identity>", site_of(b))
    if not gets:
        return
    gb = gets[0][0]

    def model(vf, env, bb, t):
        if bb == gb:
            return vf.new_sym(env, "lookup", "std::option::Option", None, origin=("lookup",))
        return NotImplemented
    vf = V.VariantFlow(facts, b, call_model=model).run()
    inner_calls = [(bb, t) for bb, t in b.calls() if F.callee(t)[0] == "tower::Service::call"]
    ctx.floor("GUARD-auth", "inner.call sites", len(inner_calls), 1)
    for n, (bb, t) in enumerate(inner_calls):
        env = vf.env_before_term(bb)
        vs = env["S"].get("lookup") if env else None
        ctx.ob("GUARD-auth", f"inner-call#{n}", vs == frozenset([1]), "inner service is called only when an identity is present" if vs == frozenset([1]) else "inner service can be called without a ClientIdentity extension (None edge reaches it)", site_of(b, bb))
    # the None edge answers 401
    unauth_blocks = []
    # (the response may be built by a small helper of the same crate that call() invokes: one level is followed)
    helpers = [(cb, facts.bodies[fn]) for cb, t in b.calls() for fn in [F.callee(t)[0] or ""] if fn in facts.bodies and fn.startswith("net::") and len(facts.bodies[fn].blocks) <= 12]
    for at, hb in [(None, b)] + helpers:
        for bb, idx, s in hb.iter_assigns():
            r = s["r"]
            if r["k"] == "agg":
                for o in r["ops"]:
                    k = o.get("k")
                    if k and k.get("ty") == "hyper::StatusCode":
                        unauth_blocks.append((bb if at is None else at, k.get("def")))     # judged where call() builds / requests it
    ok401 = bool(unauth_blocks) and all(d == "hyper::StatusCode::UNAUTHORIZED" for _, d in unauth_blocks)
    ctx.ob("GUARD-auth", "status-401", ok401, "rejection status is StatusCode::UNAUTHORIZED" if ok401 else f"rejection status is {[d for _, d in unauth_blocks]}", site_of(b))
    for bb, d in unauth_blocks:
        env = vf.in_env.get(bb)
        vs = env["S"].get("lookup") if env else None
        ctx.ob("GUARD-auth", "reject-on-none", vs == frozenset([0]), "401 is built on the None edge", site_of(b, bb))
    # every return is one of the two
    rets = vf.return_values()
    ctx.ob("GUARD-auth", "returns", len(rets) >= 1, "function returns")


def maker_reason(root):
    for k, v in IDENTITY_MAKERS.items():
        if k == root:
            return v
    if re.match(r"^<net::server::ClientIdentity<I> as std::convert::TryFrom<&[\w:]*HeaderValue>>::try_from$", root):
        return "parses the header value"
    return None


def guard_cert(ctx, facts):
    """NetworkConfig::identify_cert may return an identity only when a certificate was presented."""
    ctx.rule("GUARD-cert: identify_cert(cert: Option<&CertificateDer>) can return Some(identity) only on paths where cert is Some (variant-set dataflow on the parameter): no certificate => no identity")
    bs = [b for p, b in facts.bodies.items() if p.endswith("NetworkConfig::<F>::identify_cert") and b.kind == "AssocFn"]
    if not bs:
        return ctx.missing("GUARD-cert", "config::NetworkConfig::identify_cert")
    b = bs[0]
    ctx.count(bodies=1)
    vf = V.VariantFlow(facts, b)
    env = {"L": {}, "S": {}}
    env["L"][2] = vf.new_sym(env, "cert", "std::option::Option", None, origin=("param",))
    vf.run(env)
    # check at every point where the return place is written (the single `ret` block joins all paths)
    n = 0
    bad_site = None
    for bb in sorted(vf.in_env):
        env2 = vf.copy_env(vf.in_env[bb])
        for idx, st in enumerate(b.stmts(bb)):
            if "p" not in st:
                continue
            val = vf.rvalue(env2, bb, idx, st["r"])
            vf.assign(env2, bb, idx, st["p"], val)
            if st["p"] == [0]:
                n += 1
                vs = vf.variants_at(env2, val) if isinstance(val, frozenset) else {0, 1}
                if 1 in vs and 0 in env2["S"].get("cert", frozenset([0, 1])):
                    bad_site = (bb, idx)
        t = b.term(bb)
        if t["k"] == "call" and t["d"] == [0]:
            n += 1
            for succ, e3 in vf.edge_envs(vf.in_env[bb], bb):
                val = e3["L"].get(0)
                vs = vf.variants_at(e3, val) if isinstance(val, frozenset) else {0, 1}
                if 1 in vs and 0 in e3["S"].get("cert", frozenset([0, 1])):
                    bad_site = (bb, "t")
    ctx.floor("GUARD-cert", "writes of identify_cert's return value", n, 1)
    ctx.ob("GUARD-cert", "identity-requires-certificate", bad_site is None,
           "an identity is returned only when a certificate is present" if bad_site is None else "identify_cert can return Some(identity) although no client certificate was presented (a peer configured without a certificate would match `None`): unauthenticated TLS callers get an identity",
           site_of(b, bad_site[0], bad_site[1]) if bad_site else site_of(b))
    # the acceptor feeds identify_cert with the peer certificate of the TLS stream
    acc = [x for x in facts.tree("<net::server::ClientCertRecognizingAcceptor<F> as axum_server::accept::Accept<I, S>>::accept")]
    okp = False
    for x in acc:
        for bb, t in x.calls():
            if (F.callee(t)[0] or "").endswith("identify_cert") and "peer_certificates" in str(flow.expr_of(x, t["args"][1])):
                okp = True
    ctx.ob("GUARD-cert", "acceptor-uses-peer-certificate", okp, "the identity is computed from the TLS peer certificate" if okp else "ClientCertRecognizingAcceptor does not derive the identity from peer_certificates()")


IDENTITY_MAKERS = {
    "<net::server::SetClientIdentityFromCertificate<S, F> as tower::Service<hyper::Request<B>>>::call": "inserts the identity recognised from the client certificate",
    "<net::server::SetClientIdentityFromHeader<S, F> as tower::Service<hyper::Request<B>>>::call": "plain-HTTP mode only: identity from header",
    "<net::server::ClientCertRecognizingAcceptor<F> as axum_server::accept::Accept<I, S>>::accept": "maps the recognised certificate to an identity",
    "<net::server::ClientIdentity<I> as std::convert::TryFrom<&hyper::header::HeaderValue>>::try_from": "parses the header value",
    "<net::server::ClientIdentity<I> as std::clone::Clone>::clone": "derive(Clone): copies an existing identity",
}


def end_entity_cert(ctx, facts):
    """TLS proves possession of the key of the FIRST certificate of the presented chain only; later entries are whatever
    the client chose to append."""
    ctx.rule("WHO-identity (certificate): every call of NetworkConfig::identify_cert outside tests is given the end-entity certificate of the connection, i.e. the first element of rustls' peer_certificates() (`.and_then(<[_]>::first)`, `.get(0)` or `[0]`), not another element of the presented chain")
    n = 0
    for b in sorted(facts.non_test_bodies(), key=lambda x: x.path):
        for bb, t in b.calls():
            if not (F.callee(t)[0] or "").endswith("identify_cert"):
                continue
            n += 1
            old = flow.CLOSURE_DEFS
            flow.CLOSURE_DEFS = True
            try:
                e = flow.expr_of(b, t["args"][1], max_depth=12)
                s_ = str(e)
                # a closure handed to and_then / map: what it returns counts
                for m_ in re.finditer(r"\('closure', '([^']+)'\)", s_):
                    cb = facts.bodies.get(m_.group(1))
                    if cb is not None:
                        s_ += " " + str(flow.expr_of(cb, {"cp": [0]}, max_depth=8))
            finally:
                flow.CLOSURE_DEFS = old
            from_chain = "peer_certificates" in s_
            first = ("<impl [T]>::first" in s_ and "<impl [T]>::last" not in s_) or re.search(r"<impl \[T\]>::get'.*\('const', 0\)", s_) is not None or re.search(r"Index::index'.*\('const', 0\)", s_) is not None
            ok = from_chain and first
            ctx.ob("WHO-identity", f"end-entity-cert@{b.root.split('::')[-1]}#{n}", ok, "identify_cert(peer_certificates().first())" if ok else ("the identity is looked up from a certificate that is not taken from the connection's verified chain" if not from_chain else "the identity is looked up from a chain element other than the first: a peer that owns one trusted key can append another peer's public certificate and be taken for that peer"), site_of(b, bb))
    ctx.floor("WHO-identity", "identify_cert call sites", n, 1)


def who_identity(ctx, facts):
    ctx.rule("WHO-identity: ClientIdentity(..) is constructed (aggregate or tuple-constructor fn value) and Extensions::insert::<ClientIdentity<_>> is called only inside the frozen set of identity-provenance items; F::identity_header() is read on the server side only by SetClientIdentityFromHeader::call")
    n = 0
    for b in facts.non_test_bodies():
        if not b.file.startswith("ipa-core/"):
            continue
        hits = []
        for bb, idx, s in b.iter_assigns():
            r = s["r"]
            if r["k"] == "agg" and r.get("adt") == CID:
                hits.append(("construct", bb))
        for bb, t in b.calls():
            fn, res, info = F.callee(t)
            if fn == "axum::http::Extensions::insert" and CID + "<" in (info.get("ga") or [""])[0]:
                hits.append(("insert-extension", bb))
            for a in t["args"]:
                k = a.get("k")
                if k and k.get("fn") == CID + "::<I>" or (k and k.get("fn", "").startswith(CID) and "ClientIdentity" in k.get("fn", "") and k.get("fn", "").split("::")[-1].startswith("ClientIdentity")):
                    hits.append(("ctor-as-fn", bb))
            if fn and fn.endswith("ConnectionFlavor::identity_header") and b.path.startswith("net::server") or (fn and fn.endswith("ConnectionFlavor::identity_header") and "net::server" in b.root):
                hits.append(("read-identity-header", bb))
        for kind, bb in hits:
            n += 1
            ok = maker_reason(b.root) is not None
            if kind == "read-identity-header":
                ok = b.root == "<net::server::SetClientIdentityFromHeader<S, F> as tower::Service<hyper::Request<B>>>::call"
            ctx.ob("WHO-identity", f"{kind}@{b.root}", ok, maker_reason(b.root) or "identity is fabricated / header is read outside the identity-provenance items", site_of(b, bb))
    ctx.floor("WHO-identity", "identity provenance sites", n, 4)
    # server-side identity_header readers anywhere in net::server
    readers = set()
    for b in facts.non_test_bodies():
        if "net::server" not in b.root:
            continue
        for bb, t in b.calls():
            fn = F.callee(t)[0]
            if fn and fn.endswith("identity_header"):
                readers.add(b.root)
    ctx.ob("WHO-identity", "identity-header-readers", readers <= {"<net::server::SetClientIdentityFromHeader<S, F> as tower::Service<hyper::Request<B>>>::call"} and bool(readers), f"server-side readers of the identity header: {sorted(readers)}")
    # the struct is private to net::server
    adt = facts.adts.get(CID)
    if adt:
        ctx.ob("WHO-identity", "type-visibility", adt["vis"] != "pub", f"ClientIdentity visibility: {adt['vis']}")
    else:
        ctx.missing("WHO-identity", CID)


def tls_arms(ctx, facts):
    ctx.rule("ARM-tls: in start_on, SetClientIdentityFromHeader::new is referenced only in blocks dominated by the disable_https==true edge, ClientCertRecognizingAcceptor::new only by the false edge; neither is referenced anywhere else in non-test code")
    root = "net::server::IpaHttpServer::<F>::start_on"
    tree = facts.tree(root)
    main = [b for b in tree if b.coroutine]
    if not main:
        return ctx.missing("ARM-tls", root)
    b = main[0]
    ctx.count(bodies=len(tree))
    # find the switch on the disable_https flag
    sw = None
    for bb in sorted(b.live_blocks()):
        t = b.term(bb)
        if t["k"] != "switch":
            continue
        p = F.op_place(t["o"])
        if not p:
            continue
        org = None
        # tuple field 0 of the match scrutinee, or the bool itself
        base = p[0]
        for (dbb, didx, d) in b.defs().get(base, []):
            if didx != "t" and d["k"] == "agg" and d["ak"] == "tuple" and len(p) == 2:
                org = d["ops"][p[1][1]]
            elif didx != "t" and d["k"] == "use" and len(p) == 1:
                org = d["o"]
        if org is None:
            continue
        src = F.op_place(org)
        srcs = [src] if src else []
        if src and len(src) == 1:
            for (dbb, didx, d) in b.defs().get(src[0], []):
                if didx != "t" and d["k"] == "use" and F.op_place(d["o"]):
                    srcs.append(F.op_place(d["o"]))
        if any(isinstance(e, list) and e[0] == "f" and len(e) > 2 and e[2] == "disable_https" for s in srcs for e in s[1:]):
            sw = bb
            break
    if sw is None:
        return ctx.missing("ARM-tls", "switch on config.disable_https in start_on")
    t = b.term(sw)
    false_bb = [x for v, x in t["ts"] if int(v) == 0]
    true_bb = t["else"]
    if not false_bb:
        return ctx.missing("ARM-tls", "false edge of the disable_https switch")
    false_bb = false_bb[0]
    dom = b.dominators()

    def fn_refs(body, pat):
        out = []
        for bb2, t2 in body.calls():
            if F.call_matches(t2, pat):
                out.append(bb2)
            for a in t2["args"]:
                k = a.get("k")
                if k and "fn" in k and pat.search(k["fn"]):
                    out.append(bb2)
        return out
    hdr = re.compile(r"SetClientIdentityFromHeader::<S, F>::new$")
    crt = re.compile(r"ClientCertRecognizingAcceptor::<F>::new$")
    hb = fn_refs(b, hdr)
    # the header layer may be installed by a small helper of the server module (`plaintext_make_service(router)`): a call
    # of such a helper counts as installing the layer, and the helper may be called from start_on only
    wrappers = {}
    for ob in facts.non_test_bodies():
        if ob.root != root and ob.path.startswith("net::server::") and "::{closure" not in ob.path and fn_refs(ob, hdr) and not fn_refs(ob, crt):
            wrappers[ob.path] = ob
    wcalls = [bb2 for bb2, t2 in b.calls() if (F.callee(t2)[0] or "") in wrappers]
    hb = hb + wcalls
    ctx.floor("ARM-tls", "header-layer references", len(hb), 1)
    # use sites: what each started server is given (decides the property); the construction site is only a fallback
    spawns = [(bb2, t2) for bb2, t2 in b.calls() if (F.callee(t2)[0] or "").endswith("spawn_server")]
    resolved = 0
    for n, (sbb, st) in enumerate(spawns):
        server = str(flow.expr_of(b, st["args"][1], max_depth=60))
        service = str(flow.expr_of(b, st["args"][3], max_depth=60))
        if "into_make_service" not in service and not any(w in service for w in wrappers):
            continue
        resolved += 1
        tls = "rustls" in server
        has_hdr = "SetClientIdentityFromHeader" in service or any(w in service for w in wrappers)
        on_true = flow.dominates(dom, true_bb, sbb) and not flow.dominates(dom, false_bb, sbb)
        on_false = flow.dominates(dom, false_bb, sbb)
        if tls:
            ok = not has_hdr and on_false
            ctx.ob("ARM-tls", f"serve#{n}:tls-server-ignores-identity-header", ok, "TLS server: identity comes from the certificate only" if ok else "a TLS-enabled server is started with the SetClientIdentityFromHeader layer (or on the disable_https arm): a caller without a client certificate can name itself in a header", site_of(b, sbb))
        else:
            ok = has_hdr and on_true
            ctx.ob("ARM-tls", f"serve#{n}:plain-server-under-disable_https", ok, "plain HTTP server only when https is disabled, identity from the header" if ok else "a plain-HTTP server is started outside the disable_https arm or without the header identity layer", site_of(b, sbb))
    ctx.floor("ARM-tls", "servers started", len(spawns), 4)
    if resolved < len(spawns):
        for n, x in enumerate(hb):
            ok = flow.dominates(dom, true_bb, x) and not flow.dominates(dom, false_bb, x)
            ctx.ob("ARM-tls", f"header-layer#{n}", ok, "header identity layer only under disable_https == true" if ok else "SetClientIdentityFromHeader is installed on a path where TLS is enabled: a caller-supplied identity header would be honoured", site_of(b, x))
    # certificate acceptor: referenced in closures created on the false arms
    ncert = 0
    for cb in tree:
        if cb is b:
            refs = fn_refs(cb, crt)
            for x in refs:
                ncert += 1
                ctx.ob("ARM-tls", f"cert-acceptor#{ncert}", flow.dominates(dom, false_bb, x), "certificate acceptor only when TLS is enabled", site_of(b, x))
        elif fn_refs(cb, crt):
            # which block of the parent creates this closure?
            for bb2, idx, s in b.iter_assigns():
                r = s["r"]
                if r["k"] == "agg" and r["ak"] == "closure" and r.get("def") == cb.path:
                    if not flow.dominates(dom, false_bb, bb2):
                        # a closure made before the branch and handed out later: judged at the calls that receive it
                        old_cd = flow.CLOSURE_DEFS
                        flow.CLOSURE_DEFS = True
                        try:
                            uses = [ub for ub, ut in b.calls() if any((lambda e: e[0] == "agg" and isinstance(e[1], tuple) and e[1][:2] == ("closure", cb.path))(flow.expr_of(b, a, max_depth=6)) for a in ut["args"])]
                        finally:
                            flow.CLOSURE_DEFS = old_cd
                        if uses:
                            for ub in uses:
                                ncert += 1
                                ctx.ob("ARM-tls", f"cert-acceptor#{ncert}", flow.dominates(dom, false_bb, ub), "certificate acceptor only when TLS is enabled", site_of(b, ub))
                            continue
                    ncert += 1
                    ok = flow.dominates(dom, false_bb, bb2)
                    ctx.ob("ARM-tls", f"cert-acceptor#{ncert}", ok, "certificate acceptor only when TLS is enabled", site_of(b, bb2))
    ctx.floor("ARM-tls", "certificate-acceptor references", ncert, 2)
    # nobody else references either constructor
    others = set()
    for ob in facts.non_test_bodies():
        if ob.root == root:
            continue
        if ob.path in wrappers or ob.root in wrappers:
            continue
        if fn_refs(ob, hdr) or fn_refs(ob, crt) or any((F.callee(t2)[0] or "") in wrappers for _, t2 in ob.calls()):
            others.add(ob.root)
    ctx.ob("ARM-tls", "no-other-users", not others, f"other users of the identity services: {sorted(others)}")


def handlers_no_headers(ctx, facts):
    ctx.rule("WHO-headers: no function under net::server::handlers::query takes a HeaderMap / TypedHeader / raw Request parameter or calls .headers(); peer handlers take the identity as Extension<ClientIdentity<F::Identity>>")
    n = 0
    for path, f in sorted(facts.fns.items()):
        if not path.startswith(H + "query::") or facts.is_test_path(path) or "test_helpers" in path:
            continue
        if re.search(r"HelperAuthentication", path):
            continue
        n += 1
        bad = [i for i in f["inputs"] if re.search(r"(HeaderMap|TypedHeader|hyper::Request<|http::Request<|request::Parts)", i)]
        ctx.ob("WHO-headers", f"sig:{path}", not bad, "no raw header access in signature" if not bad else f"handler takes {bad}")
    for b in facts.non_test_bodies():
        if not b.root.startswith(H + "query::") or "HelperAuthentication" in b.root:
            continue
        for bb, t in b.calls():
            fn = F.callee(t)[0] or ""
            if re.search(r"Request::<T>::headers(_mut)?$|HeaderMap", fn):
                ctx.ob("WHO-headers", f"call:{b.root}", False, f"handler code reads request headers via {fn}", site_of(b, bb))
    ctx.floor("WHO-headers", "handler functions", n, 8)
