"""C15  Sequential join returns results in input order within a bounded window.

Decided statically (necessary conditions; DESIGN.md §3/C15) — queue discipline of SequentialFutures:
  WHO-queue   the `active` deque is only used through push_back / pop_front / front_mut / iter_mut /
              len / capacity / with_capacity (FIFO => output order == input order).
  GUARD-pop   pop_front happens only on the true edge of check_ready() of the *front* item.
  PAIR-poll   when the front item is not ready, every other active item is polled
              (iter_mut().skip(1) loop reaching check_ready) before Pending is returned.
  LOOP-refill the refill loop runs while len < capacity and pushes exactly the polled source item.
  WAKE-1      Pending => registered, with ONE frozen infeasible-path exception: the final
              `else { Pending }` (no active item, source not done) is reachable only after the refill
              loop polled the source, because capacity >= 1 (NonZeroUsize) — the premises of the
              exception are themselves checked.
  CHAIN       validated_seq_join: each item is followed by validate_record(index) of its own index
              and the validator is kept alive until the stream ends; try_join is seq_join+try_collect.
  JOIN-parallel  parallel_join: the single-threaded variant is futures::try_join_all (not join_all);
              the spawner-based variant awaits one task result at a time (`next`), applies `?` to it
              before awaiting the next one (first error returned as soon as it is available, not after
              every other task has finished) and pushes the Ok value in arrival (= spawn) order.
Configuration M (multi-threading) has its own spawner-based implementation: WAKE-1 and the refill
condition are checked there too (thorough tier).
"""
import re
from vlib import facts as F, flow, wake
from vlib.core import site_of

LEVEL = "other"
EXPLANATION = "C15: method whitelist on the active deque, guard polarity of pop_front, poll-the-rest pairing, refill-loop shape, WAKE-1 with one reasoned exception, chaining of validate_record in validated_seq_join."
CONFIGS_QUICK = ["Q", "M"]
CONFIGS_THOROUGH = ["Q", "M", "N"]

ALLOWED = {"push_back", "pop_front", "front_mut", "iter_mut", "len", "capacity", "with_capacity", "is_empty", "front", "iter"}


def run(ctx):
    facts = ctx.facts()
    local = [b for p, b in facts.bodies.items() if p.startswith("<seq_join::local::SequentialFutures<") and p.endswith("Stream>::poll_next")]
    mt = [b for p, b in facts.bodies.items() if p.startswith("<seq_join::multi_thread::SequentialFutures<") and p.endswith("Stream>::poll_next")]
    if local:
        check_local(ctx, facts, local[0])
    elif mt:
        check_mt(ctx, facts, mt[0])
    else:
        ctx.missing("WHO-queue", "SequentialFutures::poll_next")
    window_size(ctx, facts)
    chain(ctx, facts)
    parallel(ctx, facts)


def _is_active_param(e):
    """the constructor's first parameter (a NonZeroUsize) read as a number: active.get(), usize::from(active), .into()"""
    e = flow.strip_casts(e)
    while e[0] == "call" and re.search(r"(NonZero::<T>::get|NonZero::<usize>::get|From::from|Into::into)$", e[1]) and len(e[2]) == 1:
        e = flow.strip_casts(e[2][0])
    return e == ("arg", 1)


def window_size(ctx, facts):
    """`active` is the caller's promise about how far apart dependent tasks may be: a task may wait for one up to
    active - 1 positions behind it.  The window the join really keeps (the deque's capacity / the spawner's limit) must be
    that number itself, not something smaller derived from it (a size hint, a cap): otherwise the head waits for a task
    that is never started and the join hangs."""
    ctx.rule("WINDOW-size: SequentialFutures::new keeps `active` itself as the window: the capacity handed to VecDeque::with_capacity (local) / stored in `capacity` (multi-threaded) is active.get() of the constructor's parameter, nothing else flows into it")
    is_active = _is_active_param
    n = 0
    for path, which in (("seq_join::local::SequentialFutures::<'_, S, F>::new", "local"), ("seq_join::multi_thread::SequentialFutures::<'_, S, F>::new", "mt")):
        b = facts.bodies.get(path)
        if b is None:
            continue
        n += 1
        ctx.count(bodies=1)
        if which == "local":
            wc = flow.find_calls(b, re.compile(r"VecDeque::<T>::with_capacity$|VecDeque::<T, A>::with_capacity(_in)?$"))
            ok = len(wc) == 1 and is_active(flow.expr_of(b, wc[0][1]["args"][0], max_depth=12))
            ctx.ob("WINDOW-size", "local:capacity=active", ok, "the deque is created with capacity active.get()" if ok else f"the window of the single-threaded join is {str(flow.expr_of(b, wc[0][1]['args'][0], max_depth=8))[:160] if wc else 'not set with with_capacity'}, not the `active` parameter: fewer than `active` tasks are kept in flight, a head task that depends on a later one never completes", site_of(b, wc[0][0]) if wc else site_of(b))
        else:
            val = None
            for bb, idx, st in b.iter_assigns():
                r = st["r"]
                if r["k"] == "agg" and "SequentialFutures" in (r.get("adt") or ""):
                    names = [f["name"] for f in facts.adts[r["adt"]]["variants"][0]["fields"]]
                    if "capacity" in names:
                        val = (bb, flow.expr_of(b, r["ops"][names.index("capacity")], max_depth=12))
            ok = val is not None and is_active(val[1])
            ctx.ob("WINDOW-size", "mt:capacity=active", ok, "capacity = active.get()" if ok else "the multi-threaded join's `capacity` is not the `active` parameter itself", site_of(b, val[0]) if val else site_of(b))
    ctx.floor("WINDOW-size", "SequentialFutures constructors", n, 1)


def deque_ready_calls(cb):
    return [bb for bb, t in cb.calls() if (F.callee(t)[0] or "").endswith("ActiveItem::<F>::check_ready") or (F.callee(t)[0] or "").endswith("::check_ready")]


def deque_calls(facts, b):
    out = []
    for bb, t in b.calls():
        fn, res, info = F.callee(t)
        if fn and fn.startswith("std::collections::VecDeque::<T, A>::") and (info.get("ga") or [""])[0].startswith("seq_join::local::ActiveItem<"):
            out.append((bb, t, fn.split("::")[-1]))
    return out


def _range_from(b, t):
    """k for a call `deque.range_mut(k..)` with a constant k, else None"""
    if len(t["args"]) < 2:
        return None
    e = flow.expr_of(b, t["args"][1], max_depth=6)
    if e[0] == "agg" and e[1] == ("std::ops::RangeFrom", "RangeFrom") and len(e[2]) == 1 and e[2][0][0] == "const" and isinstance(e[2][0][1], int):
        return e[2][0][1]
    return None


def check_local(ctx, facts, b):
    ctx.count(bodies=1)
    ctx.rule("WHO-queue: every VecDeque<ActiveItem> method used in seq_join::local is one of " + ", ".join(sorted(ALLOWED)))
    n = 0
    for body in facts.non_test_bodies():
        if not (body.root.startswith("seq_join::local::") or body.root.startswith("<seq_join::local::")):
            continue
        for bb, t, m in deque_calls(facts, body):
            n += 1
            if m == "range_mut" and _range_from(body, t) is not None:
                # `active.range_mut(k..)` is `active.iter_mut().skip(k)`: a suffix view, in queue order (k is judged by PAIR-poll)
                ctx.ob("WHO-queue", f"{m}@{body.root}", True, "VecDeque::range_mut(k..): the suffix of the window, in order", site_of(body, bb))
                continue
            ctx.ob("WHO-queue", f"{m}@{body.root}", m in ALLOWED, f"VecDeque::{m}" + ("" if m in ALLOWED else " is outside the queue discipline of the active window (push_back / pop_front / front_mut / iter_mut): results could be emitted out of input order, or - for partial views such as as_mut_slices().0 - part of the window would never be polled"), site_of(body, bb))
    ctx.floor("WHO-queue", "deque method calls", n, 6)
    dc = deque_calls(facts, b)
    dom = b.dominators()
    # ---- GUARD-pop
    ctx.rule("GUARD-pop: pop_front is dominated by the true edge of check_ready(front_mut() item)")
    pops = [bb for bb, t, m in dc if m == "pop_front"]
    crs = flow.find_calls(b, re.compile(r"ActiveItem::<F>::check_ready$"))
    front_cr = None
    for bb, t in crs:
        e = flow.expr_of(b, t["args"][0])
        if "front_mut" in str(e):
            front_cr = bb
    sw_map = None
    if front_cr is None:
        # `let head_ready = active.front_mut().map(|item| item.check_ready(cx)); match head_ready { Some(true) => .. }`:
        # the readiness test is the bool payload of the mapped Option
        old_cd = flow.CLOSURE_DEFS
        flow.CLOSURE_DEFS = True
        try:
            for mbb, mt in flow.find_calls(b, re.compile(r"Option::<T>::map$")):
                ce = flow.expr_of(b, mt["args"][1], max_depth=4)
                cb_ = facts.bodies.get(ce[1][1]) if ce[0] == "agg" and isinstance(ce[1], tuple) and ce[1][0] == "closure" else None
                if cb_ is None or "front_mut" not in str(flow.expr_of(b, mt["args"][0], max_depth=6)) or not deque_ready_calls(cb_):
                    continue
                r_ = flow.strip_casts(flow.expr_of(cb_, {"cp": [0]}, max_depth=6))
                if not (r_[0] == "call" and r_[1].endswith("::check_ready") and flow.strip_casts(r_[2][0])[:2] == ("arg", 2)):
                    continue
                for sb_ in sorted(b.live_blocks()):
                    tt_ = b.term(sb_)
                    if tt_["k"] == "switch":
                        se_ = flow.expr_of(b, tt_["o"], max_depth=8)
                        if se_[0] == "proj" and "as:Some" in str(se_[2:]) and se_[1][0] == "call" and se_[1][1].endswith("Option::<T>::map") and "front_mut" in str(se_[1]):
                            front_cr, sw_map = mbb, sb_
        finally:
            flow.CLOSURE_DEFS = old_cd
    if not pops or front_cr is None:
        ctx.missing("GUARD-pop", "pop_front / check_ready(front) in poll_next")
    else:
        sw = sw_map if sw_map is not None else flow.next_switch(b, b.term(front_cr)["t"])
        ed = flow.switch_edges(b, sw) if sw is not None else None
        for n, p in enumerate(pops):
            ok = ed is not None and flow.dominates(dom, ed[1], p) and not flow.dominates(dom, ed[0], p)
            ctx.ob("GUARD-pop", f"pop_front#{n}", ok, "the head is removed only when it is ready" if ok else "pop_front is reachable without the front item being ready: an unresolved item would be taken (panic) or order broken", site_of(b, p))
        # ---- PAIR-poll
        ctx.rule("PAIR-poll: on the not-ready edge, Pending is reached only through the iter_mut().skip(1) loop that calls check_ready on each remaining item")
        if ed is not None:
            not_ready = ed[0]
            pend = [(bb, i) for bb, i in wake.pending_sites(b) if flow.dominates(dom, not_ready, bb)]
            skips = [(bb, t) for bb, t in flow.find_calls(b, re.compile(r"Iterator::skip$")) if flow.dominates(dom, not_ready, bb)]
            ok_skip = bool(skips) and all(F.const_int(t["args"][1]) == 1 and "iter_mut" in str(flow.expr_of(b, t["args"][0])) for _, t in skips)
            if not skips:
                skips = [(bb, t) for bb, t, m in dc if m == "range_mut" and flow.dominates(dom, not_ready, bb)]
                ok_skip = bool(skips) and all(_range_from(b, t) == 1 for _, t in skips)
            ctx.ob("PAIR-poll", "skip-one", ok_skip, "the rest of the window is iter_mut().skip(1)" if ok_skip else "the poll-the-rest loop does not cover every item after the head (skip != 1 or not over `active`)", site_of(b, skips[0][0]) if skips else site_of(b, not_ready))
            loop_cr = [bb for bb, t in crs if bb != front_cr and flow.dominates(dom, not_ready, bb)]
            ok_loop = bool(loop_cr) and bool(pend) and bool(skips) and all(flow.dominates(dom, skips[0][0], pb) for pb, _ in pend)
            why_loop = "Pending is returned without polling the other active items: a task that a later item depends on never makes progress"
            if not loop_cr and skips:
                # closure form: `.skip(1).<adaptor>(|f| .. f.check_ready(cx) ..)` - exhaustive adaptors poll every item,
                # short-circuiting ones stop at the first item whose closure result decides the answer
                EXHAUSTIVE = re.compile(r"Iterator::(for_each|fold|count|last|max|min|sum|map|filter|inspect|collect)$")
                SHORT = re.compile(r"Iterator::(any|all|find|find_map|position|take_while|try_for_each|try_fold|skip_while|map_while)$")
                old = flow.CLOSURE_DEFS
                flow.CLOSURE_DEFS = True
                try:
                    for cbb, ct in b.calls():
                        fn = F.callee(ct)[0] or ""
                        if not (EXHAUSTIVE.search(fn) or SHORT.search(fn)) or not flow.dominates(dom, skips[0][0], cbb) or len(ct["args"]) < 2:
                            continue
                        if "Iterator::skip" not in str(flow.expr_of(b, ct["args"][0], max_depth=6)):
                            continue
                        ce = flow.expr_of(b, ct["args"][-1], max_depth=4)
                        cb = facts.bodies.get(ce[1][1]) if ce[0] == "agg" and isinstance(ce[1], tuple) and ce[1][0] == "closure" else None
                        polls = cb is not None and bool(deque_ready_calls(cb))
                        if not polls:
                            continue
                        if SHORT.search(fn):
                            why_loop = f"the other active items are polled through `{fn.split('::')[-1]}`, which stops at the first item that decides its result: items behind it are not polled while the head is pending, so a task the head depends on can starve"
                        elif fn.endswith(("Iterator::map", "Iterator::filter", "Iterator::inspect")):
                            why_loop = "the polling closure sits in a lazy adaptor that nothing drives to the end"
                            drive = [1 for dbb, dt in b.calls() if re.search(r"Iterator::(count|for_each|fold|last|collect|sum|max|min)$", F.callee(dt)[0] or "") and fn.split("::")[-1] in str(flow.expr_of(b, dt["args"][0], max_depth=6))]
                            ok_loop = bool(drive) and bool(pend) and all(flow.dominates(dom, cbb, pb) for pb, _ in pend)
                        else:
                            ok_loop = bool(pend) and all(flow.dominates(dom, cbb, pb) for pb, _ in pend)
                finally:
                    flow.CLOSURE_DEFS = old
            ctx.ob("PAIR-poll", "others-polled-before-pending", ok_loop, "all other active items are polled before Pending" if ok_loop else why_loop, site_of(b, pend[0][0]) if pend else site_of(b, not_ready))
            # the loop body check_ready takes the loop item
            for k, lb in enumerate(loop_cr):
                e = flow.expr_of(b, b.term(lb)["args"][0])
                ctx.ob("PAIR-poll", f"loop-item#{k}", "Iterator::next" in str(e), "check_ready is applied to the iterated item", site_of(b, lb))
    # ---- LOOP-refill
    ctx.rule("LOOP-refill: the refill loop condition is active.len() < active.capacity(); the pushed item is the future polled from the source in that iteration")
    pushes = [(bb, t) for bb, t, m in dc if m == "push_back"]
    found = False
    for bb in sorted(b.live_blocks()):
        t = b.term(bb)
        if t["k"] != "switch":
            continue
        e = flow.expr_of(b, t["o"])
        if e[0] == "bin" and "VecDeque::<T, A>::len" in str(e) and "VecDeque::<T, A>::capacity" in str(e):
            found = True
            ok = e[1] == "Lt" and e[2][0] == "call" and e[2][1].endswith("VecDeque::<T, A>::len") and e[3][0] == "call" and e[3][1].endswith("VecDeque::<T, A>::capacity")
            ctx.ob("LOOP-refill", "condition", ok, "while len < capacity" if ok else f"refill condition is {e[1]}({str(e[2])[:70]}, {str(e[3])[:70]}): the window is not kept at exactly `capacity` items", site_of(b, bb))
            ed2 = flow.switch_edges(b, bb)
            if ed2:
                for k, (pb, pt) in enumerate(pushes):
                    ctx.ob("LOOP-refill", f"push-in-loop#{k}", flow.dominates(dom, ed2[1], pb), "push_back happens inside the refill loop", site_of(b, pb))
    if not found:
        ctx.missing("LOOP-refill", "len < capacity loop condition")
    for k, (pb, pt) in enumerate(pushes):
        e = flow.expr_of(b, pt["args"][1])
        ok = "Stream::poll_next" in str(e) and "into_future" in str(e)
        if not ok and e[0] == "call" and e[1] in facts.bodies and "seq_join::local" in e[1] and len(e[2]) == 1:
            # a constructor of the item type (`ActiveItem::pending(f)`): it must wrap its own parameter's future
            r_ = str(flow.expr_of(facts.bodies[e[1]], {"cp": [0]}, max_depth=10))
            ok = "Stream::poll_next" in str(e[2][0]) and "into_future" in r_ and "('arg', 1)" in r_ and "'Pending')" in r_
        ctx.ob("LOOP-refill", f"push-item#{k}", ok, "the item polled from the source is pushed" if ok else "pushed item does not derive from the source poll", site_of(b, pb))
    # ---- END-done
    ctx.rule("END-done: Ready(None) is returned only when no active item is left (None edge of front_mut) and source.is_done() is true")
    dn = flow.find_calls(b, re.compile(r"Fuse::<St>::is_done$"))
    fm = [bb for bb, t, m in dc if m == "front_mut"]
    nones = []
    for bb, idx, s in b.iter_assigns():
        r = s["r"]
        if r["k"] == "agg" and r.get("adt") == "std::task::Poll" and r["vn"] == "Ready" and flow.expr_of(b, r["ops"][0])[:2] == ("agg", ("std::option::Option", "None")):
            nones.append(bb)
    okd = False
    if dn and nones and fm:
        sw = flow.next_switch(b, b.term(dn[0][0])["t"])
        ed2 = flow.switch_edges(b, sw) if sw is not None else None
        okd = ed2 is not None and all(flow.dominates(dom, ed2[1], x) for x in nones) and all(flow.dominates(dom, fm[0], x) for x in nones)
        # and on the `no front item` edge
        fsw = flow.next_switch(b, b.term(fm[0])["t"])
        if fsw is not None:
            tt = b.term(fsw)
            some_t = [tb for v, tb in tt["ts"] if int(v) == 1]
            okd = okd and all(not flow.dominates(dom, some_t[0], x) for x in nones) if some_t else False
    ctx.ob("END-done", "ready-none-only-if-drained-and-done", okd, "the join ends only when the window is empty and the source is exhausted" if okd else "the join can end while tasks are still active or the source is merely pending (results silently dropped)", site_of(b, nones[0]) if nones else site_of(b))
    # ---- WAKE-1 with one exception
    wake1(ctx, facts, b, dom, exception="local")


def wake1(ctx, facts, b, dom, exception):
    ctx.rule("WAKE-1: Pending => waker registered; frozen exception: the `no active item && source not done` Pending, justified by capacity >= 1 so the refill loop polled the source (premises checked)")
    bad, reg = wake.unregistered_pending(b)
    sites = wake.pending_sites(b)
    ctx.floor("WAKE-1", "Pending sites in SequentialFutures::poll_next", len(sites), 1 if exception == "mt" else 2)
    for k, (bb, idx) in enumerate(sites):
        if (bb, idx) not in bad:
            ctx.ob("WAKE-1", f"pending#{k}", True, "Pending after a delegated poll", site_of(b, bb, idx))
            continue
        # premises of the exception
        isdone = flow.find_calls(b, re.compile(r"Fuse::<St>::is_done$"))
        on_not_done = False
        for ib, it in isdone:
            sw = flow.next_switch(b, it["t"])
            ed = flow.switch_edges(b, sw) if sw is not None else None
            if ed and flow.dominates(dom, ed[0], bb):
                on_not_done = True
            elif ed and sw is not None:
                # reach-avoid form (match arms may share the Pending block): without a waker-registering poll, this
                # Pending is reachable only through the `not done` edge of is_done()
                bad_, reg_ = wake.unregistered_pending(b)
                stops = frozenset(x for x in reg_ if b.term(x)["k"] == "call")
                r_ = b.reachable(0, avoid=stops, avoid_edges=frozenset({(sw, ed[0])}))
                if bb not in r_ and ed[0] != ed[1]:
                    on_not_done = True
        src_polls = [pb for pb, pt in flow.find_calls(b, re.compile(r"Stream::poll_next$")) if "source" in flow.field_names_in(flow.expr_of(b, pt["args"][0]))]
        if exception == "local":
            ctor = facts.bodies.get("seq_join::local::SequentialFutures::<'_, S, F>::new")
            cap_nonzero = bool(ctor) and "std::num::NonZero" in ctor.local_ty(1) and any(F.call_matches(t, re.compile(r"VecDeque::<T>::with_capacity$|VecDeque::<T, A>::with_capacity")) and _is_active_param(flow.expr_of(ctor, t["args"][0], max_depth=12)) for _, t in ctor.calls())
        else:
            ctor = facts.bodies.get("seq_join::multi_thread::SequentialFutures::<'_, S, F>::new")
            cap_nonzero = bool(ctor) and "std::num::NonZero" in ctor.local_ty(1)
        ok = on_not_done and bool(src_polls) and cap_nonzero
        ctx.ob("WAKE-1", f"pending#{k}:exception(empty-window)", ok,
               "frozen exception holds: reached only when the window is empty and the source is not done; the source was polled with cx in the refill loop because capacity is NonZero" if ok else "Pending without a registered waker and the premises of the documented exception do not hold (is_done false edge / source poll in refill loop / NonZero capacity)",
               site_of(b, bb, idx))


def check_mt(ctx, facts, b):
    ctx.count(bodies=1)
    dom = b.dominators()
    ctx.rule("LOOP-refill(mt): the source is polled for another future exactly while spawner.remaining() < capacity - the comparisons between remaining() and capacity that dominate the poll of the source, evaluated for 0 <= remaining <= 5 and 1 <= capacity <= 5, hold iff remaining < capacity (whatever form the loop and its exit test have)")
    from rules.C13 import guard_holds, NoEval
    srcp = [(bb, t) for bb, t in flow.find_calls(b, re.compile(r"Stream::poll_next$")) if "source" in flow.field_names_in(flow.expr_of(b, t["args"][0]))]
    if not srcp:
        ctx.missing("LOOP-refill", "poll of the source stream (multi_thread)")
    else:
        sbb = srcp[0][0]
        gs = [f for tgt, f in flow.edge_guards(b) if flow.dominates(dom, tgt, sbb) and f[2] is not None and "remaining" in str(f) and "capacity" in str(f)]
        why = None
        if not gs:
            why = "the source is polled without any test of remaining() against the capacity: unbounded spawning"
        else:
            try:
                for r_ in range(0, 6):
                    for c_ in range(1, 6):
                        env = {}
                        for op, l, r in gs:
                            env[l] = r_ if "remaining" in str(l) else c_
                            env[r] = r_ if "remaining" in str(r) else c_
                        on = all(guard_holds(f, env) for f in gs)
                        if on != (r_ < c_) and why is None:
                            why = f"with {r_} futures in flight and capacity {c_} the source is {'polled' if on else 'not polled'}: the window is not `remaining < capacity`"
            except (NoEval, KeyError):
                why = "cannot evaluate the refill condition"
        ctx.ob("LOOP-refill", "condition", why is None, "refill exactly while remaining() < capacity" if why is None else why, site_of(b, sbb))
    # END-done: the join may end (Ready(None) / forwarding the spawner's None) only when the source is done
    ctx.rule("END-done(mt): the spawner is polled only while it has work (remaining() > 0); with no work left the stream ends only on source.is_done(), otherwise it stays Pending")
    sp = [(bb, t) for bb, t in flow.find_calls(b, re.compile(r"Stream::poll_next$")) if "spawner" in flow.field_names_in(flow.expr_of(b, t["args"][0]))]
    rem = []
    for bb in sorted(b.live_blocks()):
        t = b.term(bb)
        if t["k"] == "switch":
            e = flow.expr_of(b, t["o"])
            if e[0] == "bin" and e[1] in ("Gt", "Ne", "Lt", "Eq", "Ge", "Le") and "remaining" in str(e) and "capacity" not in str(e):
                rem.append((bb, e, flow.switch_edges(b, bb)))
    if not sp:
        ctx.missing("END-done", "spawner.poll_next in multi_thread poll_next")
    else:
        ok = False
        if rem and rem[0][2]:
            sw, e, ed = rem[0]
            has_work = ed[1] if e[1] in ("Gt", "Ne") else ed[0]
            ok = all(flow.dominates(dom, has_work, bb) for bb, _ in sp)
        ctx.ob("END-done", "spawner-polled-only-with-work", ok, "the spawner's end-of-stream is never mistaken for the end of the join" if ok else "the spawner is polled with nothing in flight: its `None` ends the join although the source is only pending (later tasks are silently dropped)", site_of(b, sp[0][0]))
    dn = flow.find_calls(b, re.compile(r"Fuse::<St>::is_done$"))
    nones = []
    for bb, idx, s in b.iter_assigns():
        r = s["r"]
        if r["k"] == "agg" and r.get("adt") == "std::task::Poll" and r["vn"] == "Ready" and flow.expr_of(b, r["ops"][0])[:2] == ("agg", ("std::option::Option", "None")):
            nones.append(bb)
    okd = False
    if dn and nones:
        sw = flow.next_switch(b, b.term(dn[0][0])["t"])
        ed = flow.switch_edges(b, sw) if sw is not None else None
        okd = ed is not None and all(flow.dominates(dom, ed[1], x) for x in nones)
    ctx.ob("END-done", "ready-none-only-if-source-done", okd, "Ready(None) only when the source is exhausted" if okd else "the join can end without the source being done", site_of(b, nones[0]) if nones else site_of(b))
    wake1(ctx, facts, b, dom, exception="mt")


def chain(ctx, facts):
    ctx.rule("CHAIN: validated_seq_join maps each (index, fut) to fut.then(validate_record(RecordId::from(index))) through seq_join(active_work), and chains a stream that owns the validator; seq_try_join_all = seq_join + try_collect")
    root = "protocol::context::dzkp_validator::DZKPValidator::validated_seq_join"
    tree = facts.tree(root)
    if not tree:
        return ctx.missing("CHAIN", root)
    ctx.count(bodies=len(tree))
    top = facts.bodies.get(root)
    calls_top = [F.callee(t)[0] for _, t in top.calls()] if top else []
    ctx.ob("CHAIN", "uses-seq_join", "seq_join::seq_join" in calls_top, "validated_seq_join is built on seq_join", site_of(top) if top else None)
    ctx.ob("CHAIN", "keeps-validator-alive", any(c and c.endswith("StreamExt::chain") for c in calls_top) and any(c and c.endswith("stream::unfold") for c in calls_top), "the validator is moved into a chained stream and dropped at the end")
    vr = []
    for b in tree:
        for bb, t in b.calls():
            fn = F.callee(t)[0] or ""
            if fn.endswith("DZKPContext::validate_record"):
                vr.append((b, bb, t))
    ctx.floor("CHAIN", "validate_record calls in validated_seq_join", len(vr), 1)
    for k, (b, bb, t) in enumerate(vr):
        e = flow.expr_of(b, t["args"][1])
        # positional, not by name: the captured variable is followed outwards through the closures until it turns out to
        # be component 0 of the parameter of the closure given to `.enumerate().map(..)`
        ok = False
        trail = str(e)[:120]
        if e[0] == "call" and re.search(r"(From::from|Into::into)$", e[1]):
            from rules.C06 import upvar_sources
            cur, v = b, flow.strip_casts(e[2][0])
            for _ in range(6):
                if v[0] == "upvar":
                    parent = facts.bodies.get(cur.path.rsplit("::{closure", 1)[0])
                    if parent is None:
                        break
                    v = flow.strip_casts(upvar_sources(facts, parent, cur.path).get(v[1], ("?",)))
                    cur = parent
                    continue
                break
            is_param0 = (v[0] == "arg" and v[1:] in ((2, 0), (2, "0"))) or (v[0] == "proj" and v[1][:2] == ("arg", 2) and v[2:] in ((0,), ("0",)))
            if is_param0 and top is not None:
                old_cd = flow.CLOSURE_DEFS
                flow.CLOSURE_DEFS = True
                try:
                    for mbb, mt in top.calls():
                        if (F.callee(mt)[0] or "").endswith("StreamExt::map") and len(mt["args"]) == 2:
                            recv = str(flow.expr_of(top, mt["args"][0], max_depth=6))
                            cl = flow.expr_of(top, mt["args"][1], max_depth=4)
                            if "StreamExt::enumerate" in recv and cl[0] == "agg" and isinstance(cl[1], tuple) and cl[1][1] == cur.path:
                                ok = True
                finally:
                    flow.CLOSURE_DEFS = old_cd
            trail = f"{str(e)[:60]} <- {str(v)[:60]} in {cur.path.split('::')[-1]}"
        ctx.ob("CHAIN", f"validates-own-index#{k}", ok, f"record id = the position of the item in the enumerated source ({trail})" if ok else f"the record validated after an item is not that item's own position in the enumerated source ({trail})", site_of(b, bb))
        # its result is ?-propagated: the awaited output reaches Try::branch
        has_q = any(F.call_matches(tt, re.compile(r"Try::branch$")) for _, tt in b.calls())
        if not has_q:
            # an explicit `match validate_record(..).await { Ok(()) => .., Err(e) => Err(e) }`: no Ok leaves the Err arm
            from rules.C17 import variant_arms
            from rules import malsec
            st_ = flow.settled(b, bb)
            al_ = flow.local_aliases_fwd(b, st_["out"]) if st_ and st_.get("out") is not None else set()
            for sw_, pl_, arms_ in variant_arms(b, "std::result::Result", facts):
                if pl_[0] in al_ and "Err" in arms_ and arms_.get("Ok") != arms_["Err"]:
                    has_q = not (set(malsec.ok_blocks(b)) & b.reachable(arms_["Err"])) and any(s_["r"]["k"] == "agg" and s_["r"].get("vn") == "Err" for x_ in b.reachable(arms_["Err"]) for s_ in b.stmts(x_) if "r" in s_)
        ctx.ob("CHAIN", f"validation-error-propagates#{k}", has_q, "validate_record result goes through `?`", site_of(b, bb))
    stj = facts.bodies.get("seq_join::seq_try_join_all")
    if stj is None:
        ctx.missing("CHAIN", "seq_join::seq_try_join_all")
    else:
        cs = [F.callee(t)[0] or "" for _, t in stj.calls()]
        ctx.ob("CHAIN", "try_join=seq_join+try_collect", "seq_join::seq_join" in cs and any(c.endswith("TryStreamExt::try_collect") for c in cs), "seq_try_join_all = seq_join(..).try_collect()", site_of(stj))


INCREMENTAL = re.compile(r"(StreamExt::next|TryStreamExt::try_next|TryStreamExt::try_collect|TryStreamExt::try_for_each|TryStreamExt::try_fold)$")
DRAIN = re.compile(r"(Scope::<'a, T, Sp>::collect|StreamExt::collect|StreamExt::for_each|StreamExt::fold|future::join_all|StreamExt::count)$")


def parallel(ctx, facts):
    ctx.rule("JOIN-parallel: SeqJoin::parallel_join is futures::try_join_all (config without multi-threading) or multi_thread::parallel_join whose future awaits the spawner one result at a time, propagates an Err with `?` before awaiting another result (no path from a result's arrival to the error return crosses another suspension point), and pushes each Ok value, in arrival order, into the returned Vec")
    top = facts.bodies.get("seq_join::SeqJoin::parallel_join")
    if top is None:
        return ctx.missing("JOIN-parallel", "SeqJoin::parallel_join")
    ctx.count(bodies=1)
    names = [F.callee(t)[0] or "" for _, t in top.calls()]
    mt = [n for n in names if n.endswith("multi_thread::parallel_join")]
    if not mt:
        ok = any(n.endswith("future::try_join_all") for n in names) and not any(n.endswith("future::join_all") for n in names)
        ctx.ob("JOIN-parallel", "single-thread:try_join_all", ok, "try_join_all resolves with the first error" if ok else "parallel_join is not built on try_join_all (an error no longer ends the join)", site_of(top))
        return
    fut = [b for b in facts.tree("seq_join::multi_thread::parallel_join") if b.coroutine]
    if len(fut) != 1:
        return ctx.missing("JOIN-parallel", "async block of multi_thread::parallel_join")
    b = fut[0]
    ctx.count(bodies=1)
    awaited = []
    for bb, t in b.calls():
        n = F.callee(t)[0] or ""
        st = flow.settled(b, bb)
        if st is not None and not re.search(r"(IntoFuture::into_future|Pin::<Ptr>::new_unchecked|future::get_context|Future::poll)$", n):
            awaited.append((bb, t, n, st))
    drains = [a for a in awaited if DRAIN.search(a[2])]
    unknown = [a for a in awaited if not DRAIN.search(a[2]) and not INCREMENTAL.search(a[2])]
    ctx.ob("JOIN-parallel", "mt:no-drain-await", not drains, "no await drains every task before looking at the results" if not drains else f"awaits {drains[0][2].split('::')[-1]} of the whole scope: the first error is reported only after every other task has finished (a task blocked on the failed one blocks the join forever)", site_of(b, drains[0][0]) if drains else site_of(b))
    ctx.ob("JOIN-parallel", "mt:awaits-recognised", not unknown and bool(awaited), f"{len(awaited)} awaited call(s), all incremental" if not unknown and awaited else f"unrecognised awaited call {unknown[0][2] if unknown else '(none)'} in parallel_join (cannot tell whether the first error is returned promptly)", site_of(b, unknown[0][0]) if unknown else site_of(b))
    nx = [a for a in awaited if a[2].endswith("StreamExt::next") or a[2].endswith("try_next")]
    if nx:
        bb, t, n, st = nx[0]
        # blocks reachable from `ready` without passing a suspension point or the next() call again
        seen, todo = set(), [st["ready"]]
        while todo:
            x = todo.pop()
            if x in seen or x == bb:
                continue
            seen.add(x)
            tt = b.term(x)
            if tt["k"] == "yield":
                continue
            todo.extend(b.succs(x))
        res = [x for x, t2 in flow.find_calls(b, re.compile(r"FromResidual::from_residual$")) if x in seen]
        for x, idx, s_ in b.iter_assigns():
            r_ = s_["r"]
            if x in seen and r_["k"] == "agg" and r_.get("adt") == "std::result::Result" and r_.get("vn") == "Err":
                res.append(x)
        push = [x for x, t2 in flow.find_calls(b, re.compile(r"Vec::<T, A>::push$")) if x in seen]
        pe = str(flow.expr_of(b, b.term(push[0])["args"][1])) if push else ""
        ctx.ob("JOIN-parallel", "mt:error-returned-on-arrival", bool(res), "`?` is applied to each result before the next one is awaited" if res else "no error return between the arrival of a result and the next await: errors are only looked at after the loop", site_of(b, res[0]) if res else site_of(b, bb))
        okp = bool(push) and "next" in pe and ("Try::branch" in pe or "as:Ok" in pe)
        ctx.ob("JOIN-parallel", "mt:push-arrival-order", okp, "the Ok value of each arriving result is appended" if okp else "arriving results are not appended one by one to the output (order/completeness of the result vector is not by arrival)", site_of(b, push[0]) if push else site_of(b, bb))
