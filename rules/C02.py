"""C02  One tampering helper can abort a query but never change its result.

Decided statically (necessary conditions; DESIGN.md §3/C02) — the malicious-security checks are wired
so that they cannot be skipped:
  PAIR-validated   every DZKP / MAC validator created in protocol code is validated on every path that
                   returns Ok: (A) validate()/validate_indexed() consuming it is awaited and `?`-propagated
                   and no Ok return is reachable from the creation without passing its Continue edge;
                   (B) it is moved into validated_seq_join; or (C) its context() flows into a function of
                   the ValidatesRecord summary set (per-record validation inside).  A validator whose
                   receiver resolves to the semi-honest context is exempt by type.
  ORDER-open       every opening of secret data (reveal / partial_reveal / generic_reveal /
                   malicious_reveal outside basics/reveal.rs and the Reveal impls) is classified:
                   (i) dominated by a settled, `?`-propagated validate_record in the same body;
                   (ii) done through validated_partial_reveal (whose own body satisfies (i));
                   (iii)/(iv) a frozen table of openings that are part of a check or happen on a fresh
                   validator, each with its reason and structural side-conditions.
                   A new unclassified opening is a violation.
  ORDER-shuffle, GUARD-*  see rules/malsec.py (shuffle verification precedes release; every verdict
                   comparison gates success).
  WHO-downgrade    access_without_downgrade / downgrade users are the frozen set.
"""
import re
from vlib import facts as F, flow
from vlib.core import site_of
from rules import malsec

LEVEL = "other"
EXPLANATION = "C02: created=>validated pairing over async CFGs with settlement points, classification of every opening of secret data against validation ordering, shuffle verify-before-release ordering, verdict guard polarity for every malicious-security comparison."

VALIDATE = re.compile(r"(dzkp_validator::DZKPValidator::(validate|validate_indexed)|context::Validator::validate)$")
VSJ = re.compile(r"dzkp_validator::(DZKPValidator::)?validated_seq_join$")
CREATE = re.compile(r"context::UpgradableContext::(dzkp_validator|validator)$")
VALIDATE_RECORD = re.compile(r"(context::DZKPContext::validate_record|context::UpgradedContext::validate_record|basics::reveal::validated_partial_reveal)$")
REVEALS = re.compile(r"(basics::reveal::(reveal|partial_reveal|generic_reveal|malicious_reveal|semi_honest_reveal)|basics::reveal::Reveal::(reveal|partial_reveal|generic_reveal))$")


def run(ctx):
    facts = ctx.facts()
    pair_validators(ctx, facts)
    reveal_classes(ctx, facts)
    malsec.shuffle_order(ctx, facts, "ORDER-shuffle")
    malsec.hash_guards(ctx, facts, "GUARD-shuffle-hash")
    malsec.shuffle_verify_path(ctx, facts, "PATH-shuffle-verify")
    malsec.hash_cover(ctx, facts)       # comparing hashes checks exactly what the hash absorbs
    malsec.malicious_reveal_guard(ctx, facts, "GUARD-reveal")
    malsec.mac_validate_guard(ctx, facts, "GUARD-mac")
    malsec.padding_guard(ctx, facts, "GUARD-padding")
    malsec.dzkp_verify_guard(ctx, facts, "GUARD-dzkp")
    malsec.dzkp_validate_path(ctx, facts, "PATH-verdict")
    malsec.reveal_impls(ctx, facts, "WHO-reveal")
    malsec.multiply_impls(ctx, facts, "WHO-multiply")
    malsec.field_transport(ctx, facts, "FIELDS-block")
    malsec.batch_store_grows(ctx, facts, "STORE-grow")
    malsec.segment_packing(ctx, facts, "PACK-slots")
    malsec.batch_origin(ctx, facts, "PACK-slots")
    malsec.drop_guard(ctx, facts, "WHO-drop")
    from rules import C04
    C04.wire_acc(ctx, facts)
    C04.wire_mul(ctx, facts)
    downgrade_users(ctx, facts)
    C04.order_prf(ctx, facts)          # validate_record precedes the reveals of the PRF
    C04.fresh_key(ctx, facts)          # a fresh MAC key per validation batch
    C04.linear_ops(ctx, facts)         # local operations keep rx = r*x
    from rules import shufalg, C05, C15
    shufalg.tags(ctx, facts, "TAG")    # what the shuffle verification hashes per row; keys ++ ONE
    C05.key_cover(ctx, facts)          # one MAC key per 32-bit word of the row
    C15.chain(ctx, facts)              # validated_seq_join validates every record it yields
    ctx.assume("cryptographic soundness of DZKP / MAC / hash checks is not decided; only that they are invoked, ordered and gate success")


def validates_record_set(facts):
    """roots whose closure tree calls validate_record / validated_partial_reveal, closed under callers"""
    members = set()
    calls_of = {}
    for b in facts.non_test_bodies():
        cs = calls_of.setdefault(b.root, set())
        for bb, t in b.calls():
            for n in F.callee_names(t):
                cs.add(n)
    changed = True
    while changed:
        changed = False
        for root, cs in calls_of.items():
            if root in members:
                continue
            if any(VALIDATE_RECORD.search(c) for c in cs) or any(c in members for c in cs):
                members.add(root)
                changed = True
    return members


def strip_ref(t):
    return re.sub(r"^&(mut )?", "", t)


def pair_validators(ctx, facts):
    ctx.rule("PAIR-validated: validator created => validated on every Ok path (A: validate awaited+`?`, no Ok reachable before its Continue edge; B: moved into validated_seq_join; C: context() flows to a ValidatesRecord function); semi-honest receivers exempt by type")
    vset = validates_record_set(facts)
    n = 0
    for b in sorted(facts.non_test_bodies(), key=lambda x: x.path):
        if not b.file.startswith("ipa-core/") or b.file.startswith("ipa-core/src/protocol/context/"):
            continue
        sites = [(bb, t) for bb, t in b.calls() if CREATE.search(F.callee(t)[0] or "")]
        for k, (abb, at) in enumerate(sites):
            fn, res, info = F.callee(at)
            inst = f"{b.root}#{k}"
            n += 1
            ctx.count(calls=1)
            selfty = info.get("self", "")
            if "semi_honest::Context" in selfty:
                ctx.ob("PAIR-validated", inst, True, "exempt by type: receiver is the semi-honest context (SemiHonestDZKPValidator validates nothing)", site_of(b, abb))
                continue
            V = at["d"][0]
            al = flow.local_aliases_fwd(b, V)
            refs = set(al)
            for bb, idx, s in b.iter_assigns():
                if s["r"]["k"] in ("ref", "raw") and s["r"]["p"][0] in al and len(s["p"]) == 1:
                    refs.add(s["p"][0])
            refs = set().union(*[flow.local_aliases_fwd(b, r) for r in refs])
            oks = set(malsec.ok_blocks(b))
            verdict, detail = False, "validator is created but never validated on the success path: a tampered multiplication batch would be accepted"
            # (B) moved into validated_seq_join
            for bb, t in b.calls():
                if VSJ.search(F.callee(t)[0] or "") and t["args"] and F.op_local(t["args"][0]) in al:
                    verdict, detail = True, "moved into validated_seq_join (validates each record and keeps the validator alive)"
            # (A) validate / validate_indexed consuming the validator
            if not verdict:
                for bb, t in b.calls():
                    if VALIDATE.search(F.callee(t)[0] or "") and t["args"] and F.op_local(t["args"][0]) in al:
                        st = flow.settled(b, bb)
                        if st is None:
                            detail = "validate() is called but its future is never awaited"
                            continue
                        if st["q"] is None:
                            detail = "validate() is awaited but its Result is not propagated with `?` (dropped verdict)"
                            continue
                        reach = flow.reach_avoiding(b, [abb], {st["q"][1]})
                        leak = oks & reach
                        if leak:
                            detail = "an Ok return is reachable from the validator's creation without passing a successful validate()"
                        else:
                            verdict, detail = True, "validate() awaited, `?`-propagated, and on every path to Ok"
            # (C) context() flows into a ValidatesRecord function
            if not verdict:
                ctx_tys = set()
                for bb, t in b.calls():
                    f2 = F.callee(t)[0] or ""
                    if re.search(r"(DZKPValidator|Validator)::context$", f2) and t["args"] and F.op_local(t["args"][0]) in refs:
                        ctx_tys.add(strip_ref(b.local_ty(t["d"][0])))
                if ctx_tys:
                    for tb in facts.tree(b.root):
                        for bb, t in tb.calls():
                            names = F.callee_names(t)
                            if any(nm in vset or VALIDATE_RECORD.search(nm) for nm in names):
                                for a in t["args"]:
                                    l = F.op_local(a)
                                    if l is not None and strip_ref(tb.local_ty(l)) in ctx_tys:
                                        verdict, detail = True, f"context() is handed to {F.short(names[0], 2)}, which validates each record (ValidatesRecord summary)"
            ctx.ob("PAIR-validated", inst, verdict, detail, site_of(b, abb))
    ctx.floor("PAIR-validated", "validator creation sites in protocol code", n, 9)


# openings that are part of a check or happen on a fresh validator: root item -> (reason, side condition)
OPEN_TABLE = {
    "protocol::basics::check_zero::malicious_check_zero": "opens r*v as the zero test itself (the opened value is uniformly random unless v = 0)",
    "protocol::context::validator::Malicious::<'_, F, B>::validate": "opens the MAC key r at validation time, after all multiplications of the batch were recorded",
    "protocol::ipa_prf::shuffle::malicious::reveal_keys": "opens the shuffle MAC keys, only after the shuffle rounds completed (ORDER-shuffle)",
    "protocol::hybrid::breakdown_reveal::reveal_breakdowns": "breakdown keys are opened on a fresh validator context (no multiplication precedes on it); the rows were MAC-verified by the preceding malicious shuffle; caller validates afterwards",
}


def reveal_classes(ctx, facts):
    ctx.rule("ORDER-open: every opening of secret data outside basics/reveal.rs is (i) dominated by a settled `?`-propagated validate_record, (ii) performed by validated_partial_reveal, or (iii) listed in the frozen table with its reason and side conditions")
    n = 0
    for b in sorted(facts.non_test_bodies(), key=lambda x: x.path):
        if not b.file.startswith("ipa-core/"):
            continue
        if b.file.endswith("protocol/basics/reveal.rs"):
            continue
        sites = [(bb, t) for bb, t in b.calls() if REVEALS.search(F.callee(t)[0] or "")]
        if not sites:
            continue
        dom = b.dominators()
        vr = [(bb, t, flow.settled(b, bb)) for bb, t in b.calls() if re.search(r"(DZKPContext|UpgradedContext)::validate_record$", F.callee(t)[0] or "")]
        for k, (bb, t) in enumerate(sites):
            n += 1
            inst = f"{b.root}#{k}"
            cls, detail = None, ""
            for vbb, vt, st in vr:
                if st and st["q"] and flow.dominates(dom, st["q"][1], bb):
                    # same record id
                    same = str(flow.expr_of(b, vt["args"][1])) == str(flow.expr_of(b, t["args"][1]))
                    cls, detail = "i", "dominated by validate_record(record_id).await?" + ("" if same else " (different record id expression)")
                    if not same:
                        cls = None
                        detail = "the dominating validate_record is for a different record id than the opening"
            if cls is None and b.root in OPEN_TABLE:
                cls, detail = "iii", OPEN_TABLE[b.root]
            ctx.ob("ORDER-open", inst, cls is not None, f"class ({cls}): {detail}" if cls else (detail or "unclassified opening of secret data: not preceded by validation of the record and not in the table of check-internal openings"), site_of(b, bb))
    ctx.floor("ORDER-open", "opening sites outside basics/reveal.rs", n, 6)
    # (ii): validated_partial_reveal itself validates before opening
    b = malsec.async_body(facts, "protocol::basics::reveal::validated_partial_reveal")
    if b is None:
        ctx.missing("ORDER-open", "validated_partial_reveal")
    else:
        dom = b.dominators()
        vr = [(bb, t, flow.settled(b, bb)) for bb, t in b.calls() if re.search(r"DZKPContext::validate_record$", F.callee(t)[0] or "")]
        pr = flow.find_calls(b, re.compile(r"basics::reveal::partial_reveal$"))
        ok = bool(vr) and bool(pr) and vr[0][2] is not None and vr[0][2]["q"] is not None and all(flow.dominates(dom, vr[0][2]["q"][1], x) for x, _ in pr)
        same = ok and str(flow.expr_of(b, vr[0][1]["args"][1])) == str(flow.expr_of(b, pr[0][1]["args"][1]))
        ctx.ob("ORDER-open", "validated_partial_reveal:validate-then-open", ok and same, "validate_record(record_id).await? dominates partial_reveal(record_id)" if ok and same else "validated_partial_reveal opens before / without validating the same record", site_of(b))
    # callers of validated_partial_reveal are fine by (ii); count them
    # side conditions of the fresh-validator entry
    rb = "protocol::hybrid::breakdown_reveal::reveal_breakdowns"
    tree = facts.tree(rb)
    if not tree:
        ctx.missing("ORDER-open", rb)
    else:
        mult = set()
        for tb in tree:
            for bb, t in tb.calls():
                for nm in F.callee_names(t):
                    if re.search(r"(SecureMul::multiply|BooleanArrayMul::multiply|boolean::(and|or)|integer_add|integer_sat_add|select|if_else|multiply)$", nm) and nm.startswith("protocol::"):
                        mult.add(nm)
        ctx.ob("ORDER-open", "reveal_breakdowns:no-multiplication", not mult, "reveal_breakdowns performs no multiplication on its context" if not mult else f"reveal_breakdowns multiplies ({sorted(mult)[:3]}) before opening on an unvalidated context")
        caller = malsec.async_body(facts, "protocol::hybrid::breakdown_reveal::breakdown_reveal_aggregation")
        if caller is None:
            for tb in facts.tree("protocol::hybrid::breakdown_reveal::breakdown_reveal_aggregation"):
                if flow.find_calls(tb, re.compile(r"breakdown_reveal::reveal_breakdowns$")):
                    caller = tb
        if caller is None:
            ctx.missing("ORDER-open", "caller of reveal_breakdowns")
        else:
            rc = flow.find_calls(caller, re.compile(r"breakdown_reveal::reveal_breakdowns$"))
            okf = False
            if rc:
                e = flow.expr_of(caller, rc[0][1]["args"][0])
                cs = malsec.walk_calls(e)
                okf = any(c[1].endswith("DZKPValidator::context") for c in cs) and any(c[1].endswith("UpgradableContext::dzkp_validator") for c in cs)
            ctx.ob("ORDER-open", "reveal_breakdowns:fresh-validator-context", okf, "the context passed is validator.context() of a validator created for this step" if okf else "reveal_breakdowns is not called on a fresh validator context", site_of(caller, rc[0][0]) if rc else site_of(caller))
            sh = flow.find_calls(caller, re.compile(r"sharded_shuffle$|malicious_sharded_shuffle$|ShardedContext::sharded_shuffle$|Shuffle::sharded_shuffle$"))
            dom = caller.dominators()
            st = [flow.settled(caller, bb) for bb, _ in sh]
            oks = bool(rc) and any(s and s["q"] and flow.dominates(dom, s["q"][1], rc[0][0]) for s in st)
            ctx.ob("ORDER-open", "reveal_breakdowns:after-verified-shuffle", oks, "the rows opened went through the (MAC-verified) shuffle first" if oks else "breakdown keys are opened without the preceding verified shuffle", site_of(caller))


DOWNGRADE_USERS = re.compile(r"^(<.* as secret_sharing::replicated::malicious::additive_share::Downgrade>::downgrade|protocol::context::validator::MaliciousAccumulator::<F>::accumulate_macs|protocol::basics::mul::malicious::mac_multiply|<secret_sharing::replicated::malicious::additive_share::AdditiveShare<.*|secret_sharing::replicated::malicious::additive_share::.*|protocol::basics::reveal::.*|<.* as protocol::basics::reveal::Reveal<.*|<.* as protocol::basics::.*|protocol::context::upgrade::.*|<.* as protocol::context::upgrade::.*|protocol::ipa_prf::prf_eval::.*|<.* as protocol::ipa_prf::prf_eval::.*|protocol::basics::check_zero::.*)")


def downgrade_users(ctx, facts):
    ctx.rule("WHO-downgrade: ThisCodeIsAuthorizedToDowngradeFromMalicious::access_without_downgrade and Downgrade::downgrade are called only from the frozen set of protocol internals (MAC accumulate, malicious multiply, reveal, share arithmetic)")
    n = 0
    for b in facts.non_test_bodies():
        if not b.file.startswith("ipa-core/"):
            continue
        for bb, t in b.calls():
            fn = F.callee(t)[0] or ""
            if fn.endswith("ThisCodeIsAuthorizedToDowngradeFromMalicious::access_without_downgrade") or fn.endswith("malicious::Downgrade::downgrade"):
                n += 1
                ok = DOWNGRADE_USERS.search(b.root) is not None
                ctx.ob("WHO-downgrade", f"{F.short(fn,1)}@{b.root}", ok, "authorised internal user" if ok else "the x-share of a MAC-protected value is taken out of its wrapper outside the authorised protocol internals", site_of(b, bb))
    ctx.floor("WHO-downgrade", "downgrade call sites", n, 3)
