"""C07  Secure arithmetic and Boolean circuits compute the stated plaintext functions.

What is decided statically (DESIGN.md §3/C07) - the local *gadget algebra* and the *wiring* of the ripple circuits,
by finite evaluation of expressions extracted from the type-checked program (no code is run):

  GADGET     the value expressions of the one-bit gadgets, read as polynomials over GF(2) in their inputs with the
             secure multiplication as AND, equal the reference truth tables for ALL input combinations:
             bit_adder (sum, carry-out) = full adder; bit_subtractor (difference, carry-out) = full adder of (x, !y, c);
             or / bool_or = a OR b; select = cond ? true : false.  Algebraically equivalent rewrites stay silent.
             The gadget's reads of the old carry all precede its write of the new carry.
  POLY       semi-honest multiplication: with helper i holding (x_i, x_{i+1}) and masks r_i (left) / r_{i+1} (right),
             the sum over the three helpers of the locally computed share equals (x_0+x_1+x_2)(y_0+y_1+y_2) as a
             polynomial identity (all nine cross terms once, masks cancel); the share is sent to the LEFT peer,
             received from the RIGHT peer and the result is new(local, received).
             share_known_value: over the three role arms, the left shares add up to the value and every right share equals
             the next helper's left share.  reshare (semi-honest): the three role arms (left of target, right of target,
             target), with each received value replaced by what the peer sends on the matching channel, form a
             consistent replicated sharing whose sum is the original secret (masks cancel).
  WIRE-carry the initial carry of each circuit entry point: compare_geq, integer_sub, integer_sat_sub start from 1
             (x - y = x + !y + 1; x >= y <=> carry out of that sum), compare_gt, integer_add, integer_sat_add from 0.
  WIRE-result compare_* return the carry that was threaded through the circuit; integer_sub / integer_add return the
             circuit's bits; integer_sat_sub = select(carry, result, ZERO); integer_sat_add = bool_or(result, carry x len).
  WIRE-loop  the ripple loops zip x with y padded by ZERO (unequal operand widths), narrow the context with the
             enumerate index, thread the caller's carry, and push each gadget output in order.

  WIRE-aggregate the pairwise tree reduction adds with carry growth (integer_add, carry pushed as the new top bit) exactly
             while the operands are narrower than the output width (`len < OV::BITS`) and with integer_sat_add from
             then on; a pair is (a, b) = the two popped chunk elements; a single leftover element is passed through.
Not decided: share conversion, the PRF, integer multiplication, aggregation trees, vectorised layouts, the DZKP-carrying
multiply beyond its reuse of the same multiplication_protocol (C03/C04 cover its proof inputs).
"""
import itertools
import re
from vlib import facts as F, flow
from vlib.core import site_of
from rules import malsec

LEVEL = "other"
EXPLANATION = ("C07: structural part only - GF(2) truth tables of the extracted one-bit gadget expressions over all inputs, exact polynomial "
               "identity of the replicated multiplication over the three helpers, carry-in / result / loop wiring of the ripple circuits.")

ADD = "protocol::ipa_prf::boolean_ops::addition_sequential::"
SUB = "protocol::ipa_prf::boolean_ops::comparison_and_subtraction_sequential::"

PASS = re.compile(r"(Try::branch|Future::poll|Pin::<Ptr>::new_unchecked|IntoFuture::into_future|Clone::clone|From::from|Into::into|Deref::deref|Borrow::borrow|AsRef::as_ref|Expand::expand|ToOwned::to_owned)$")
MUL = re.compile(r"(SecureMul::multiply|mul::boolean_array_multiply|ops::Mul::mul|ops::BitAnd::bitand|semi_honest_multiply|sh_multiply)$")


class Unknown(Exception):
    pass


EV_FACTS = None      # set by run(): lets ev() look into small helper functions of the crate


def ev(e, leaf):
    """evaluate an expression tree over the integers; `leaf(e)` gives the value of an input/constant or None"""
    v = leaf(e)
    if v is not None:
        return v
    k = e[0]
    if k == "cast":
        return ev(e[2], leaf)
    if k == "proj":
        inner = e[1]
        idx = [x for x in e[2:] if isinstance(x, int)]
        if inner[0] == "agg" and inner[1] == "tuple" and idx and idx[0] < len(inner[2]):
            return ev(inner[2][idx[0]], leaf)
        return ev(inner, leaf)
    if k == "call":
        fn, args = e[1], e[2]
        if PASS.search(fn):
            return ev(args[0], leaf)
        if fn.endswith("ShareKnownValue::share_known_value"):
            return ev(args[1], leaf)
        if MUL.search(fn):
            # operand positions by callee signature: x.multiply(y, ctx, rid) / f(ctx, rid, a, b) / a * b
            if fn.endswith("SecureMul::multiply"):
                ops = args[:2]
            elif re.search(r"(boolean_array_multiply|semi_honest_multiply|sh_multiply)$", fn):
                ops = args[2:4]
            else:
                ops = args[:2]
            return ev(ops[0], leaf) * ev(ops[1], leaf)
        if re.search(r"ops::(Add::add|BitXor::bitxor)$", fn):
            return ev(args[0], leaf) + ev(args[1], leaf)
        if fn.endswith("ops::Sub::sub"):
            return ev(args[0], leaf) - ev(args[1], leaf)
        if fn.endswith("ops::Neg::neg"):
            return -ev(args[0], leaf)
        if fn.endswith("ops::Not::not"):
            return 1 - ev(args[0], leaf)
        # a small straight-line helper of the crate (`masked_local_product(a, b, l, r)`): its returned expression with
        # the caller's operands substituted for its parameters
        hb = EV_FACTS.bodies.get(fn) if EV_FACTS is not None else None
        if hb is not None and not hb.coroutine and len(hb.blocks) <= 60 and not any(hb.term(x)["k"] == "switch" for x in hb.live_blocks()):
            r = flow.expr_of(hb, {"cp": [0]}, max_depth=60)

            def subst(x):
                if isinstance(x, tuple):
                    if len(x) == 2 and x[0] == "arg" and isinstance(x[1], int) and 1 <= x[1] <= len(args):
                        return args[x[1] - 1]
                    return tuple(subst(y) for y in x)
                return x
            if "('arg'" in str(r) and "('?'" not in str(r):
                return ev(subst(r), leaf)
    if k == "const":
        s = str(e[1])
        if s.endswith("::ZERO"):
            return 0
        if s.endswith("::ONE"):
            return 1
    raise Unknown(str(e)[:120])


def upvar_leaf(env):
    def leaf(e):
        if e[0] == "upvar" and e[1] in env:
            return env[e[1]]
        return None
    return leaf


def params(facts, root):
    """parameter names of fn `root` by position (1-based), from debug info; the async body captures them under these names"""
    b = facts.bodies.get(root)
    out = {}
    if b is not None:
        for v in b.vars:
            if len(v["p"]) == 1 and 1 <= v["p"][0] <= b.nargs:
                out[v["p"][0]] = v["n"]
    return out


def closure_of(facts, root):
    return malsec.async_body(facts, root)


def ok_payload(b):
    for bb, idx, s in b.iter_assigns():
        r = s["r"]
        if r["k"] == "agg" and r.get("vn") == "Ok" and r.get("adt") == "std::result::Result":
            return bb, flow.expr_of(b, r["ops"][0], max_depth=80)
    return None, None


def deref_writes(b, upvar):
    """[(bb, idx, expr)] writes `*carry = e` through the captured &mut"""
    out = []
    for bb, idx, s in b.iter_assigns():
        p = s["p"]
        if len(p) >= 2 and p[-1] == "*" and s["r"]["k"] == "use":
            base = flow.expr_of(b, {"cp": p[:-1]}, max_depth=20)
            if base == ("upvar", upvar):
                out.append((bb, idx, flow.expr_of(b, s["r"]["o"], max_depth=80)))
    return out


def run(ctx):
    global EV_FACTS
    facts = ctx.facts()
    EV_FACTS = facts
    gadget_bit(ctx, facts, ADD + "bit_adder", "bit_adder", lambda x, y, c: ((x + y + c) % 2, 1 if x + y + c >= 2 else 0), "full adder")
    gadget_bit(ctx, facts, SUB + "bit_subtractor", "bit_subtractor", lambda x, y, c: ((x + (1 - y) + c) % 2, 1 if x + (1 - y) + c >= 2 else 0), "full adder of (x, !y, c)")
    gadget_or(ctx, facts)
    gadget_select(ctx, facts)
    poly_mul(ctx, facts)
    known_value(ctx, facts)
    reshare(ctx, facts)
    reveal_algebra(ctx, facts)
    reveal_excluded(ctx, facts)
    wiring(ctx, facts)
    aggregate(ctx, facts)
    from rules import C01
    C01.sat_merge(ctx, facts)   # cross-shard histogram merge saturates like the in-shard sum
    malsec.multiply_impls(ctx, facts, "WHO-multiply")     # each context kind multiplies with its own protocol
    from rules import C04
    C04.linear_ops(ctx, facts, "LINEAR-share", "secret_sharing::replicated::semi_honest::additive_share::AdditiveShare", ("0", "1"), False, 15)   # local (linear) operations act on both components alike
    malsec.field_transport(ctx, facts, "FIELDS-block")    # the proof-carrying multiplication multiplies exactly what it records
    ctx.assume("the secure multiplication returns a sharing of the product of its operands (POLY decides this for the semi-honest protocol at the level of the share algebra); `+`, `-`, `!` on shares are the share-wise field operations")
    ctx.assume("share conversion, PRF evaluation, integer multiplication and aggregation are not decided")


# ---------------------------------------------------------------------------------------------
def gadget_bit(ctx, facts, root, name, ref, what):
    ctx.rule(f"GADGET: {name}'s output and new-carry expressions, evaluated over GF(2) for all 8 values of (x, y, carry), equal the {what}; all reads of the old carry precede the write of the new one")
    b = closure_of(facts, root)
    if b is None:
        ctx.missing("GADGET", name)
        return
    ctx.count(bodies=1)
    pn = params(facts, root)
    nx, ny, nc = pn.get(3), pn.get(4), pn.get(5)
    if None in (nx, ny, nc):
        ctx.missing("GADGET", f"{name}: parameters (ctx, record_id, x, y, carry)")
        return
    obb, out_e = ok_payload(b)
    ws = deref_writes(b, nc)
    if out_e is None or len(ws) != 1:
        ctx.missing("GADGET", f"{name}: Ok(output) and a single `*carry = ..` write (found {len(ws)})")
        return
    wbb, widx, carry_e = ws[0]
    bad_o, bad_c = [], []
    try:
        for x, y, c in itertools.product((0, 1), repeat=3):
            leaf = upvar_leaf({nx: x, ny: y, nc: c})
            o = ev(out_e, leaf) % 2
            cn = ev(carry_e, leaf) % 2
            ro, rc = ref(x, y, c)
            if o != ro:
                bad_o.append((x, y, c, o, ro))
            if cn != rc:
                bad_c.append((x, y, c, cn, rc))
    except Unknown as u:
        ctx.ob("GADGET", f"{name}:expression", False, f"the gadget's value expression contains an operation the rule cannot interpret: {u}", site_of(b))
        return
    ctx.ob("GADGET", f"{name}:output", not bad_o, f"output bit = {what} sum bit for all 8 inputs" if not bad_o else f"output bit differs from the {what} at (x,y,carry)={bad_o[0][:3]}: computed {bad_o[0][3]}, expected {bad_o[0][4]} ({len(bad_o)} of 8 rows)", site_of(b, obb))
    ctx.ob("GADGET", f"{name}:carry", not bad_c, f"new carry = {what} carry-out for all 8 inputs" if not bad_c else f"new carry differs from the {what} at (x,y,carry)={bad_c[0][:3]}: computed {bad_c[0][3]}, expected {bad_c[0][4]} ({len(bad_c)} of 8 rows)", site_of(b, wbb, widx))
    # reads of *carry (its captured reference passed to a call) must not happen after the write
    after = b.reachable(wbb) - {wbb}
    late = []
    for bb, t in b.calls():
        if bb in after and any(flow.expr_of(b, a, max_depth=12) == ("upvar", nc) for a in t["args"]):
            late.append(bb)
    ctx.ob("GADGET", f"{name}:reads-before-write", not late, "the output uses the incoming carry (all reads precede `*carry = ..`)" if not late else "the carry is read again after it was overwritten: the output bit uses the outgoing instead of the incoming carry", site_of(b, late[0]) if late else site_of(b, wbb, widx))


def gadget_or(ctx, facts):
    ctx.rule("GADGET: or / bool_or per-bit expression equals a OR b for all four inputs (exact over the integers, hence in every field)")
    for root, name, pick in (("protocol::boolean::or::or", "or", None), ("protocol::boolean::or::bool_or", "bool_or:bit", "closure")):
        bodies = [b for b in facts.tree(root) if b.coroutine]
        cand = []
        for b in bodies:
            obb, e = ok_payload(b)
            if e is not None and "multiply" in str(e):
                cand.append((b, obb, e))
        if not cand and pick == "closure":
            # the per-bit step may delegate to the scalar gadget: `or(ctx.narrow(step i), record_id, a_i, b_i)` - then the
            # scalar rule above decides the expression and only the wiring is left: both operands are the closure's items
            dele = None
            for x in facts.tree(root):
                for bb, t in x.calls():
                    if (F.callee(t)[0] or "") == "protocol::boolean::or::or" and len(t["args"]) == 4:
                        dele = (x, bb, t)
            if dele is not None:
                x, bb, t = dele
                a3, a4 = (flow.strip_casts(flow.expr_of(x, o, max_depth=8)) for o in t["args"][2:4])
                okd = a3 != a4 and all(("arg", 2) == y[:2] or "('arg', 2" in str(y) for y in (a3, a4))
                ctx.count(bodies=1)
                ctx.ob("GADGET", name, okd, "each bit is the scalar OR gadget applied to (a_i, b_i)" if okd else "the per-bit OR is not applied to the two operands' bits of the same position", site_of(x, bb))
                continue
        if not cand:
            ctx.missing("GADGET", name)
            continue
        b, obb, e = cand[0]
        ctx.count(bodies=1)
        bad = []
        mul = [nd for nd in walk(e) if nd[0] == "call" and nd[1].endswith("SecureMul::multiply")]
        ins = [nd[1] for nd in (mul[0][2][:2] if mul else ()) if nd[0] == "upvar"]
        if len(ins) != 2:
            ctx.ob("GADGET", f"{name}:expression", False, "cannot identify the two operands of the OR gadget's multiplication", site_of(b))
            continue
        try:
            for a_, b_ in itertools.product((0, 1), repeat=2):
                v = ev(e, upvar_leaf({ins[0]: a_, ins[1]: b_}))
                if pick == "closure":
                    v %= 2              # Boolean shares only: arithmetic is over GF(2)
                if v != (1 if a_ or b_ else 0):
                    bad.append((a_, b_, v))
        except Unknown as u:
            ctx.ob("GADGET", f"{name}:expression", False, f"uninterpretable operation in the OR gadget: {u}", site_of(b))
            continue
        ctx.ob("GADGET", name, not bad, "a + b - ab = a OR b on bits" if not bad else f"the OR gadget yields {bad[0][2]} for (a,b)={bad[0][:2]}", site_of(b, obb))


def gadget_select(ctx, facts):
    ctx.rule("GADGET: select(condition, true_value, false_value) evaluates to true_value when condition = 1 and false_value when condition = 0, for all bit values")
    b = closure_of(facts, "protocol::basics::if_else::select")
    if b is None:
        ctx.missing("GADGET", "select")
        return
    ctx.count(bodies=1)
    obb, e = ok_payload(b)
    if e is None:
        ctx.missing("GADGET", "select: Ok payload")
        return
    bad = []
    pn = params(facts, "protocol::basics::if_else::select")
    if None in (pn.get(3), pn.get(4), pn.get(5)):
        ctx.missing("GADGET", "select: parameters (ctx, record_id, condition, true_value, false_value)")
        return
    try:
        for c, t, f_ in itertools.product((0, 1), repeat=3):
            v = ev(e, upvar_leaf({pn[3]: c, pn[4]: t, pn[5]: f_})) % 2
            if v != (t if c else f_):
                bad.append((c, t, f_, v))
    except Unknown as u:
        ctx.ob("GADGET", "select:expression", False, f"uninterpretable operation in select: {u}", site_of(b))
        return
    ctx.ob("GADGET", "select", not bad, "false + cond*(true - false)" if not bad else f"select yields {bad[0][3]} for (cond,true,false)={bad[0][:3]} (branches swapped or wrong operand)", site_of(b, obb))


# ---------------------------------------------------------------------------------------------
class Poly(dict):
    """sparse integer polynomial: {sorted tuple of variable names: coefficient}"""

    @staticmethod
    def var(n):
        return Poly({(n,): 1})

    @staticmethod
    def const(c):
        return Poly({(): c}) if c else Poly()

    def __add__(self, o):
        r = Poly(self)
        for m, c in o.items():
            r[m] = r.get(m, 0) + c
            if r[m] == 0:
                del r[m]
        return r

    def __neg__(self):
        return Poly({m: -c for m, c in self.items()})

    def __sub__(self, o):
        return self + (-o)

    def __mul__(self, o):
        r = Poly()
        for m1, c1 in self.items():
            for m2, c2 in o.items():
                m = tuple(sorted(m1 + m2))
                r[m] = r.get(m, 0) + c1 * c2
                if r[m] == 0:
                    del r[m]
        return r

    def __rsub__(self, o):          # for `1 - p`
        return Poly.const(o) - self

    def __radd__(self, o):
        return Poly.const(o) + self

    def __rmul__(self, o):
        return Poly.const(o) * self


def poly_mul(ctx, facts):
    ctx.rule("POLY: sum over helpers i of the local share expression of multiplication_protocol, instantiated with (a_i, a_{i+1}), (b_i, b_{i+1}) and masks (r_i, r_{i+1}), equals (a_0+a_1+a_2)(b_0+b_1+b_2) as an integer polynomial; send to Direction::Left, receive from Direction::Right, result = new_arr(local, received)")
    b = closure_of(facts, "protocol::basics::mul::semi_honest::multiplication_protocol")
    if b is None:
        ctx.missing("POLY", "multiplication_protocol")
        return
    ctx.count(bodies=1)
    sends = [(bb, t) for bb, t in b.calls() if re.search(r"SendingEnd<I, M>>>::send$|::send$", F.callee(t)[0] or "") and len(t["args"]) == 3]
    recvs = [(bb, t) for bb, t in b.calls() if re.search(r"::receive$", F.callee(t)[0] or "")]
    news = [(bb, t) for bb, t in b.calls() if re.search(r"AdditiveShare::<V, N>::new_arr$|AdditiveShare::<V, N>::new$", F.callee(t)[0] or "")]
    if len(sends) != 1 or len(recvs) != 1 or len(news) != 1:
        ctx.missing("POLY", f"one send / one receive / one new_arr in multiplication_protocol (found {len(sends)}/{len(recvs)}/{len(news)})")
        return
    sbb, st = sends[0]
    z_e = flow.expr_of(b, st["args"][2], max_depth=80)
    pn = params(facts, "protocol::basics::mul::semi_honest::multiplication_protocol")
    if None in (pn.get(3), pn.get(4), pn.get(5), pn.get(6)):
        ctx.missing("POLY", "multiplication_protocol: parameters (ctx, record_id, a, b, prss_left, prss_right)")
        return
    canon = {pn[3]: "a", pn[4]: "b"}

    def inst(i):
        def leaf(e):
            e = flow.strip_casts(e)
            if e[0] == "call" and re.search(r"::(left_arr|left)$", e[1]) and e[2] and e[2][0][0] == "upvar" and e[2][0][1] in canon:
                return Poly.var("%s%d" % (canon[e[2][0][1]], i % 3))
            if e[0] == "call" and re.search(r"::(right_arr|right)$", e[1]) and e[2] and e[2][0][0] == "upvar" and e[2][0][1] in canon:
                return Poly.var("%s%d" % (canon[e[2][0][1]], (i + 1) % 3))
            if e == ("upvar", pn[5]):
                return Poly.var("r%d" % (i % 3))
            if e == ("upvar", pn[6]):
                return Poly.var("r%d" % ((i + 1) % 3))
            return None
        return leaf
    try:
        total = Poly()
        for i in range(3):
            total = total + ev(z_e, inst(i))
        want = (Poly.var("a0") + Poly.var("a1") + Poly.var("a2")) * (Poly.var("b0") + Poly.var("b1") + Poly.var("b2"))
        diff = total - want
        ok = not diff
        detail = "all nine cross terms once, masks cancel" if ok else "sum of the three local shares minus (a0+a1+a2)(b0+b1+b2) = " + " ".join("%+d*%s" % (c, "*".join(m) or "1") for m, c in sorted(diff.items())[:6])
    except Unknown as u:
        ok, detail = False, f"uninterpretable operation in the share expression: {u}"
    ctx.ob("POLY", "sh_multiply:three-party-identity", ok, detail if ok else "the locally computed shares do not add up to the product: " + detail, site_of(b, sbb))
    s_dir = str(flow.expr_of(b, st["args"][0], max_depth=30))
    r_dir = str(flow.expr_of(b, recvs[0][1]["args"][0], max_depth=30))
    okd = "'Left')" in s_dir and "Role::peer" in s_dir and "'Right')" in r_dir and "Role::peer" in r_dir
    ctx.ob("POLY", "sh_multiply:send-left-recv-right", okd, "z_i goes to the left neighbour, z_{i+1} comes from the right one" if okd else "the share is not sent to the left peer and received from the right peer: the three (left, right) pairs no longer form a replicated sharing", site_of(b, sbb))
    nt = news[0][1]
    a0 = flow.expr_of(b, nt["args"][0], max_depth=80)
    a1 = str(flow.expr_of(b, nt["args"][1], max_depth=80))
    okn = a0 == z_e and "::receive" in a1
    ctx.ob("POLY", "sh_multiply:share-order", okn, "result = (locally computed, received)" if okn else "the result share is not (local z, received z): left/right halves swapped or wrong value", site_of(b, news[0][0]))
    # sh_multiply passes (prss_left, prss_right) of one generate call in that order
    sb = closure_of(facts, "protocol::basics::mul::semi_honest::sh_multiply")
    if sb is None:
        ctx.missing("POLY", "sh_multiply")
    else:
        ctx.count(bodies=1)
        cs = [t for bb, t in sb.calls() if (F.callee(t)[0] or "").endswith("semi_honest::multiplication_protocol")]
        okp = False
        if len(cs) == 1:
            l, r = flow.expr_of(sb, cs[0]["args"][4], max_depth=30), flow.expr_of(sb, cs[0]["args"][5], max_depth=30)
            okp = l[0] == "proj" and r[0] == "proj" and l[1] == r[1] and l[1][0] == "call" and l[1][1].endswith("SharedRandomness::generate") and l[2:] == (0,) and r[2:] == (1,)
        ctx.ob("POLY", "sh_multiply:prss-halves-in-order", okp, "(left, right) of one PRSS draw are passed as (prss_left, prss_right)" if okp else "the two PRSS halves are not passed as (left, right): the masks no longer cancel between neighbours", site_of(sb))


# ---------------------------------------------------------------------------------------------
def const_bit(e):
    try:
        return ev(e, lambda x: None) % 2
    except Unknown:
        return None


CARRY_IN = {
    SUB + "compare_geq": (1, "x >= y is the carry out of x + !y + 1"),
    SUB + "compare_gt": (0, "x > y is the carry out of x + !y + 0"),
    SUB + "integer_sub": (1, "x - y = x + !y + 1"),
    SUB + "integer_sat_sub": (1, "x - y = x + !y + 1; the carry out doubles as the no-underflow flag"),
    ADD + "integer_add": (0, "plain addition starts without a carry"),
    ADD + "integer_sat_add": (0, "plain addition starts without a carry"),
}


def ripple_functions(facts):
    """{root: (gadget, returns_bits)} for every non-test function (other than the gadgets) whose async body calls the
    one-bit adder / subtractor: the ripple circuits, whatever they are called"""
    out = {}
    for root in sorted(facts.by_root):
        if not root.startswith("protocol::ipa_prf::boolean_ops::") or facts.is_test_path(root):
            continue
        if root.endswith("::bit_adder") or root.endswith("::bit_subtractor"):
            continue
        b = closure_of(facts, root)
        if b is None:
            continue
        gs = [F.callee(t)[0] for bb, t in b.calls() if re.search(r"::(bit_adder|bit_subtractor)$", F.callee(t)[0] or "")]
        if gs:
            _, pe = ok_payload(b)
            unit = pe is not None and pe[0] == "agg" and pe[1] == "tuple" and not pe[2]
            out[root] = (gs[0].split("::")[-1], not unit, len(gs))
    return out


def wiring(ctx, facts):
    RIPPLES = ripple_functions(facts)
    ripple_rx = re.compile("(" + "|".join(re.escape(r) for r in RIPPLES) + ")$") if RIPPLES else re.compile(r"$^")
    with_bits = [r.split("::")[-1] for r, v in RIPPLES.items() if v[1]]
    ctx.rule("WIRE-carry: the carry handed to the ripple circuit by each entry point has the value of the table (derived from two's-complement subtraction / comparison); WIRE-result: what each entry point returns; WIRE-loop: zip(x, y.chain(repeat(ZERO))).enumerate(), narrow(S::from(i)), caller's carry threaded, outputs pushed in order")
    for root, (want, why) in CARRY_IN.items():
        name = root.split("::")[-1]
        b = closure_of(facts, root)
        if b is None:
            ctx.missing("WIRE-carry", name)
            continue
        ctx.count(bodies=1)
        cs = [(bb, t) for bb, t in b.calls() if ripple_rx.search(F.callee(t)[0] or "")]
        if len(cs) != 1:
            ctx.missing("WIRE-carry", f"{name}: single call of the ripple circuit")
            continue
        cbb, ct = cs[0]
        v = const_bit(flow.expr_of(b, ct["args"][4], max_depth=30))
        ctx.ob("WIRE-carry", f"{name}:carry-in", v == want, f"carry-in {want}: {why}" if v == want else f"carry-in is {v if v is not None else 'not a constant'}, expected {want} ({why}); equal operands / exact borrow are decided by this bit", site_of(b, cbb))
        kind = "bit_subtractor" if name in ("compare_geq", "compare_gt", "integer_sub", "integer_sat_sub") else "bit_adder"
        rip = RIPPLES[F.callee(ct)[0]]
        okk = rip[0] == kind and len(ct["args"]) == 5
        ctx.ob("WIRE-carry", f"{name}:circuit", okk, f"runs a ripple of {kind}" if okk else f"{name} runs the wrong ripple circuit ({rip[0]})", site_of(b, cbb))
        if name not in ("compare_geq", "compare_gt"):
            ctx.ob("WIRE-carry", f"{name}:circuit-yields-bits", rip[1], "the circuit returns its output bits" if rip[1] else f"{name} needs the circuit's output bits but calls a carry-only ripple", site_of(b, cbb))
        bits_rx = "|".join(re.escape(x) for x in with_bits) or "$^"
        # operand order: (x, y) of the entry point go to (x, y) of the circuit
        xs, ys = str(flow.expr_of(b, ct["args"][2], max_depth=20)), str(flow.expr_of(b, ct["args"][3], max_depth=20))
        pn = params(facts, root)
        ux, uy = str(("upvar", pn.get(3))), str(("upvar", pn.get(4)))
        oko = ux in xs and uy in ys and uy not in xs and ux not in ys
        ctx.ob("WIRE-carry", f"{name}:operand-order", oko, "(x, y) passed in order" if oko else "the operands are passed to the circuit in the wrong order (computes y - x / y > x)", site_of(b, cbb))
        carry_locals = malsec._base_locals(b, ct["args"][4])
        obb, _ = ok_payload(b)
        # ---- results
        if name in ("compare_geq", "compare_gt"):
            ok = False
            for bb, idx, s in b.iter_assigns():
                r = s["r"]
                if r["k"] == "agg" and r.get("vn") == "Ok" and r.get("adt") == "std::result::Result":
                    ok = bool(malsec._base_locals(b, r["ops"][0]) & carry_locals) and bb in b.reachable(cbb)
            if not ok:
                # `circuit(.., &mut carry).await.map(|_| carry)`: the closure handed to Result::map gives back the captured carry
                for mb, mt in flow.find_calls(b, re.compile(r"Result::<T, E>::map$")):
                    if mb not in b.reachable(cbb) or len(mt["args"]) != 2:
                        continue
                    cl_ = F.op_local(mt["args"][1])
                    for _, idx_, d_ in b.defs().get(cl_, []) if cl_ is not None else []:
                        if idx_ != "t" and d_.get("k") == "agg" and d_.get("ak") == "closure":
                            cbod = facts.bodies.get(d_.get("def"))
                            caps = set().union(*[malsec._base_locals(b, o) for o in d_["ops"]]) if d_["ops"] else set()
                            r_ = flow.strip_casts(flow.expr_of(cbod, {"cp": [0]}, max_depth=6)) if cbod is not None else ("?",)
                            no_other_ok = not any(s_["r"]["k"] == "agg" and s_["r"].get("vn") == "Ok" and s_["r"].get("adt") == "std::result::Result" for _, _, s_ in b.iter_assigns())
                            ok = r_[0] == "upvar" and len(d_["ops"]) == 1 and bool(caps & carry_locals) and no_other_ok
            ctx.ob("WIRE-result", f"{name}:returns-final-carry", ok, "returns the carry after the circuit ran" if ok else "the comparison does not return the carry that was threaded through the subtraction", site_of(b, obb) if obb is not None else site_of(b))
        elif name == "integer_sat_sub":
            sel = [(bb, t) for bb, t in b.calls() if (F.callee(t)[0] or "").endswith("if_else::select")]
            ok = False
            if len(sel) == 1:
                t = sel[0][1]
                cond_ok = bool(malsec._base_locals(b, t["args"][2]) & carry_locals)
                tv = str(flow.expr_of(b, t["args"][3], max_depth=60))
                fv = const_bit(flow.expr_of(b, t["args"][4], max_depth=20))
                ok = cond_ok and re.search(bits_rx, tv) is not None and fv == 0 and sel[0][0] in b.reachable(cbb)
            ctx.ob("WIRE-result", "integer_sat_sub:select(carry, result, ZERO)", ok, "no underflow (carry 1) => difference, else 0" if ok else "saturating subtraction does not select (carry ? difference : 0)", site_of(b, sel[0][0]) if sel else site_of(b))
        elif name == "integer_sat_add":
            orr = [(bb, t) for bb, t in b.calls() if (F.callee(t)[0] or "").endswith("or::bool_or")]
            ok = False
            if len(orr) == 1:
                t = orr[0][1]
                av = str(flow.expr_of(b, t["args"][2], max_depth=60))
                bv = flow.expr_of(b, t["args"][3], max_depth=30)
                rep_ok = bv[0] == "call" and bv[1].endswith("iter::repeat_n") and "BitDecomposed::<S>::len" in str(bv[2][1])
                rep_carry = False
                for bb2, t2 in b.calls():
                    if (F.callee(t2)[0] or "").endswith("iter::repeat_n") and malsec._base_locals(b, t2["args"][0]) & carry_locals:
                        rep_carry = True
                ok = re.search(bits_rx, av) is not None and rep_ok and rep_carry and orr[0][0] in b.reachable(cbb)
            ctx.ob("WIRE-result", "integer_sat_add:or(result, carry)", ok, "every sum bit is OR-ed with the carry out (all ones on overflow)" if ok else "saturating addition does not OR every result bit with the final carry", site_of(b, orr[0][0]) if orr else site_of(b))
        elif name == "integer_add":
            ok = False
            for bb, idx, s in b.iter_assigns():
                r = s["r"]
                if r["k"] == "agg" and r.get("vn") == "Ok" and r.get("adt") == "std::result::Result":
                    e = flow.expr_of(b, r["ops"][0], max_depth=60)
                    if e[0] == "agg" and e[1] == "tuple" and len(e[2]) == 2:
                        ok = re.search(bits_rx, str(e[2][0])) is not None and bb in b.reachable(cbb)
                        # second component: the carry local
                        for bb2, idx2, s2 in b.iter_assigns():
                            if s2["r"]["k"] == "agg" and s2["r"].get("kind", s2["r"].get("adt")) in ("tuple", None) and s2["p"] == [F.op_local(r["ops"][0])]:
                                ok = ok and bool(malsec._base_locals(b, s2["r"]["ops"][1]) & carry_locals)
            ctx.ob("WIRE-result", "integer_add:returns-(sum, carry)", ok, "returns the sum bits and the final carry" if ok else "integer_add does not return (circuit output, final carry)", site_of(b, obb) if obb is not None else site_of(b))
        elif name == "integer_sub":
            e = str(flow.expr_of(b, {"cp": [0]}, max_depth=60))
            obb2, pe = ok_payload(b)
            ok = re.search(bits_rx, e) is not None or (pe is not None and re.search(bits_rx, str(pe)) is not None)
            ctx.ob("WIRE-result", "integer_sub:returns-difference", ok, "returns the circuit's bits" if ok else "integer_sub does not return the subtraction circuit's output", site_of(b))
    # ---- loops
    ctx.floor("WIRE-loop", "ripple circuits (functions looping over a one-bit gadget)", len(RIPPLES), 2)
    for root, (gadget, returns_bits, ncalls) in sorted(RIPPLES.items()):
        name = root.split("::")[-1]
        b = closure_of(facts, root)
        if b is None:
            ctx.missing("WIRE-loop", name)
            continue
        ctx.count(bodies=1)
        gs = [(bb, t) for bb, t in b.calls() if (F.callee(t)[0] or "").endswith("::" + gadget)]
        if len(gs) != 1:
            ctx.missing("WIRE-loop", f"{name}: single {gadget} call")
            continue
        gbb, gt = gs[0]
        a = [flow.expr_of(b, x, max_depth=60) for x in gt["args"]]
        pn = params(facts, root)
        LOOPNAMES.clear()
        LOOPNAMES.update({"x": pn.get(3), "y": pn.get(4)})
        ix = a[0][2][1] if a[0][0] == "call" and a[0][1].endswith("Context::narrow") and len(a[0][2]) > 1 else ("?",)
        ix = ix[2][0] if ix[0] == "call" and ix[1].endswith("From::from") else ("?",)
        items = [loop_item(ix), loop_item(a[2]), loop_item(a[3])]
        shape = all(it is not None and it[0] for it in items)
        ctx.ob("WIRE-loop", f"{name}:zip(x, y ++ ZERO..)", shape, "x drives the loop, y is padded with ZERO shares" if shape else "the ripple loop does not iterate zip(x, y.chain(repeat(ZERO))).enumerate(): a shorter y truncates the result or is padded with a non-zero share", site_of(b, gbb))
        okb = items[1] is not None and items[2] is not None and items[1][1] == (1, 0) and items[2][1] == (1, 1)
        ctx.ob("WIRE-loop", f"{name}:bit-operands", okb, "gadget gets (x_i, y_i)" if okb else "the gadget does not receive (x bit, y bit) of the zipped pair in this order", site_of(b, gbb))
        oki = items[0] is not None and items[0][1] == (0,)
        ctx.ob("WIRE-loop", f"{name}:narrow(bit index)", oki, "each bit runs in its own step S::from(i)" if oki else "the per-bit context is not narrowed with the enumerate index (two bits would share a step / PRSS index)", site_of(b, gbb))
        okc = a[4] == ("upvar", pn.get(5))
        ctx.ob("WIRE-loop", f"{name}:carry-threaded", okc, "the caller's carry is threaded through every bit" if okc else "the gadget does not receive the circuit's own carry reference", site_of(b, gbb))
        if not returns_bits:
            continue        # a carry-only ripple has no output bits to order
        ps = [(bb, t) for bb, t in b.calls() if re.search(r"BitDecomposed::<S>::push$", F.callee(t)[0] or "")]
        okp = len(ps) == 1 and gadget in str(flow.expr_of(b, ps[0][1]["args"][1], max_depth=60)) and "BitDecomposed::<S>::with_capacity" in str(flow.expr_of(b, ps[0][1]["args"][0], max_depth=20))
        _, pe = ok_payload(b)
        okp = okp and pe is not None and "with_capacity" in str(pe)
        ctx.ob("WIRE-loop", f"{name}:push-in-order", okp, "result bits are pushed least-significant first and returned" if okp else "the gadget outputs are not pushed, in loop order, into the returned BitDecomposed", site_of(b, ps[0][0]) if ps else site_of(b))


LOOPNAMES = {}


def loop_item(e):
    """e = proj(next(into_iter(enumerate(zip(iter(x), chain(iter(y), repeat(ZERO)))))), as:Some, 0, tail..) -> (shape_ok, tail)"""
    if e[0] != "proj" or e[1][0] != "call" or not e[1][1].endswith("Iterator::next"):
        return None
    tail = tuple(x for x in e[2:] if isinstance(x, int))
    it = strip_ref(e[1][2][0])
    # `for .. in it` calls into_iter first, `while let Some(..) = it.next()` on a named iterator does not
    if it[0] == "call" and it[1].endswith("IntoIterator::into_iter"):
        it = strip_ref(it[2][0])
    if it[0] == "call" and it[1].endswith("Iterator::enumerate"):
        it = strip_ref(it[2][0])
    else:
        return (False, tail)
    if not (it[0] == "call" and (it[1].endswith("Iterator::zip") or it[1] == "std::iter::zip")):
        return (False, tail)
    xa, yb = it[2]
    def slice_iter(z, name):
        return z[0] == "call" and z[1].endswith("::iter") and z[2][0] == ("call", "std::ops::Deref::deref", (("upvar", name),))
    okx = slice_iter(xa, LOOPNAMES.get("x"))
    oky = yb[0] == "call" and yb[1].endswith("Iterator::chain") and slice_iter(yb[2][0], LOOPNAMES.get("y")) and yb[2][1][0] == "call" and yb[2][1][1] == "std::iter::repeat" and const_bit(strip_ref(yb[2][1][2][0])) == 0
    return (bool(okx and oky), tail)


def strip_ref(e):
    while e[0] in ("ref",):
        e = e[-1]
    return e


def walk(e):
    if isinstance(e, tuple):
        yield e
        for x in e[1:]:
            if isinstance(x, tuple):
                if x and isinstance(x[0], str):
                    yield from walk(x)
                else:
                    for y in x:
                        yield from walk(y)


# ---------------------------------------------------------------------------------------------
def known_value(ctx, facts):
    ctx.rule("POLY: share_known_value - per Role arm the constructed (left, right) satisfy sum(left_i) = value and right_i = left_{i+1}")
    b = facts.bodies.get("<secret_sharing::replicated::semi_honest::additive_share::AdditiveShare<V> as protocol::basics::share_known_value::ShareKnownValue<C, V>>::share_known_value")
    if b is None:
        ctx.missing("POLY", "share_known_value")
        return
    ctx.count(bodies=1)
    sw = None
    for bb in sorted(b.live_blocks()):
        t = b.term(bb)
        if t["k"] == "switch" and "Context::role" in str(flow.expr_of(b, t["o"])):
            sw = (bb, t)
    if sw is None:
        ctx.missing("POLY", "share_known_value: match on ctx.role()")
        return
    arms = {int(v): tgt for v, tgt in sw[1]["ts"]}
    if len(arms) == 2:
        arms[({0, 1, 2} - set(arms)).pop()] = sw[1]["else"]
    shares = {}
    dom = b.dominators()
    for bb, t in b.calls():
        if re.search(r"ReplicatedSecretSharing::new$|AdditiveShare::<V(, N)?>::new$", F.callee(t)[0] or "") and t["d"] == [0]:
            for role, tgt in arms.items():
                if flow.dominates(dom, tgt, bb):
                    def val(e):
                        e = flow.strip_casts(e)
                        if e == ("arg", 2):
                            return Poly.var("v")
                        if e[0] == "const" and str(e[1]).endswith("::ZERO"):
                            return Poly()
                        return None
                    shares[role] = (val(flow.expr_of(b, t["args"][0])), val(flow.expr_of(b, t["args"][1])), bb)
    if len(shares) != 3 or any(x[0] is None or x[1] is None for x in shares.values()):
        ctx.ob("POLY", "share_known_value:arms", False, f"could not read (left, right) for the three roles (found {sorted(shares)})", site_of(b))
        return
    total = shares[0][0] + shares[1][0] + shares[2][0]
    oks = total == Poly.var("v")
    ctx.ob("POLY", "share_known_value:sum", oks, "left shares add up to the value" if oks else "the three left shares do not add up to the value being shared", site_of(b))
    okc = all(shares[i][1] == shares[(i + 1) % 3][0] for i in range(3))
    ctx.ob("POLY", "share_known_value:replicated", okc, "right_i = left_{i+1} for all helpers" if okc else "the shares are not a consistent replicated sharing (a helper's right share differs from its neighbour's left share)", site_of(b))


def is_recv(e):
    """e is `channel.receive(..).await?` (only value-preserving wrappers around the receive call)"""
    while True:
        if e[0] == "proj":
            e = e[1]
        elif e[0] == "call" and PASS.search(e[1]) and e[2]:
            e = e[2][0]
        elif e[0] == "cast":
            e = e[2]
        else:
            break
    return e[0] == "call" and e[1].endswith("::receive")


def reshare(ctx, facts):
    ctx.rule("POLY: semi-honest reshare - arm L (role = to_helper.peer(Left)), arm R (role = to_helper.peer(Right)) and arm T (target) with received values substituted by the peer's sent value on the matching channel give left/right shares with sum = x_0+x_1+x_2 and right_i = left_{i+1}")
    b = closure_of(facts, "<secret_sharing::replicated::semi_honest::additive_share::AdditiveShare<F> as protocol::basics::reshare::Reshare<C>>::reshare")
    if b is None:
        ctx.missing("POLY", "reshare")
        return
    ctx.count(bodies=1)
    dom = b.dominators()
    pn = params(facts, "<secret_sharing::replicated::semi_honest::additive_share::AdditiveShare<F> as protocol::basics::reshare::Reshare<C>>::reshare")
    n_self, n_ctx, n_to = pn.get(1), pn.get(2), pn.get(4)
    if None in (n_self, n_ctx, n_to):
        ctx.missing("POLY", "reshare: parameters (self, ctx, record_id, to_helper)")
        return
    gl = gr = None
    for g in malsec.guards(b, r"PartialEq::eq$"):
        e = str(g[1])
        if "Context::role" in e and "Role::peer" in e:
            if "'Left')" in e:
                gl = g
            elif "'Right')" in e:
                gr = g
    if gl is None or gr is None:
        ctx.missing("POLY", "reshare: role == to_helper.peer(Left/Right) tests")
        return
    arm_of = {}
    oks = []
    for bb, idx, s in b.iter_assigns():
        r = s["r"]
        if r["k"] == "agg" and r.get("vn") == "Ok" and r.get("adt") == "std::result::Result":
            oks.append((bb, flow.expr_of(b, r["ops"][0], max_depth=90)))
    for bb, e in oks:
        if flow.dominates(dom, gl[2][1], bb):
            arm_of["L"] = (bb, e)
        elif flow.dominates(dom, gr[2][1], bb):
            arm_of["R"] = (bb, e)
        elif flow.dominates(dom, gr[2][0], bb):
            arm_of["T"] = (bb, e)
    sends = {}
    for bb, t in b.calls():
        if re.search(r"::send$", F.callee(t)[0] or "") and len(t["args"]) == 3:
            arm = "L" if flow.dominates(dom, gl[2][1], bb) else ("R" if flow.dominates(dom, gr[2][1], bb) else "T")
            ch = str(flow.expr_of(b, t["args"][0], max_depth=30))
            sends[arm] = ("Left" if "'Left')" in ch else "Right", flow.expr_of(b, t["args"][2], max_depth=80), str(("upvar", n_to)) in ch)
    if set(arm_of) != {"L", "R", "T"} or set(sends) != {"L", "R"}:
        ctx.ob("POLY", "reshare:arms", False, f"expected three result arms and a send in each of the two sending arms (arms {sorted(arm_of)}, sends {sorted(sends)})", site_of(b))
        return
    # helper indices relative to target t = 1: L = 0, T = 1, R = 2 ; helper i holds (x_i, x_{i+1}), prss (rho_i, rho_{i+1})
    IDX = {"L": 0, "T": 1, "R": 2}

    def leaf_for(arm, depth=0):
        i = IDX[arm]
        def leaf(e):
            e = flow.strip_casts(e)
            if e[0] == "call" and e[1].endswith("::left") and e[2] and e[2][0] == ("upvar", n_self):
                return Poly.var("x%d" % i)
            if e[0] == "call" and e[1].endswith("::right") and e[2] and e[2][0] == ("upvar", n_self):
                return Poly.var("x%d" % ((i + 1) % 3))
            if e[0] == "proj" and e[1][0] == "call" and e[1][1].endswith("SharedRandomness::generate_fields"):
                k = [z for z in e[2:] if isinstance(z, int)]
                if k:
                    return Poly.var("p%d" % ((i + k[0]) % 3))
            if is_recv(e):
                # the value received from peer direction D of to_helper: the other sending arm's message
                se = str(e)
                m = re.search(r"recv_channel', \(\('upvar', '" + re.escape(n_ctx) + r"'\), \('call', 'helpers::Role::peer', \(\('upvar', '" + re.escape(n_to) + r"'\), \('agg', \('helpers::Direction', '(Left|Right)'\)", se)
                if not m or depth > 2:
                    raise Unknown("receive from an unrecognised channel")
                src = "L" if m.group(1) == "Left" else "R"      # to_helper.peer(Left) is helper L
                if src == arm or src not in sends:
                    raise Unknown("receive from self / non-sending arm")
                # routing: the source must send to this arm
                dest_dir, msg, rel = sends[src]
                dest = "L" if dest_dir == "Left" else "R"
                if dest != arm or not rel:
                    raise Unknown(f"arm {src} sends to {dest}, but arm {arm} waits for it")
                return ev(msg, leaf_for(src, depth + 1))
            return None
        return leaf
    try:
        sh = {}
        for arm, (bb, e) in arm_of.items():
            e = flow.strip_casts(e)
            if not (e[0] == "call" and re.search(r"::new$", e[1]) and len(e[2]) == 2):
                raise Unknown(f"arm {arm} does not end in Replicated::new(left, right)")
            sh[arm] = (ev(e[2][0], leaf_for(arm)), ev(e[2][1], leaf_for(arm)))
    except Unknown as u:
        ctx.ob("POLY", "reshare:interpretation", False, f"reshare: {u}", site_of(b))
        return
    total = sh["L"][0] + sh["T"][0] + sh["R"][0]
    want = Poly.var("x0") + Poly.var("x1") + Poly.var("x2")
    ok = total == want
    ctx.ob("POLY", "reshare:sum-preserved", ok, "new left shares add up to the old secret (masks cancel)" if ok else "reshared secret differs from the original: sum of new shares minus secret = " + " ".join("%+d*%s" % (c, "*".join(m) or "1") for m, c in sorted((total - want).items())[:6]), site_of(b, arm_of["L"][0]))
    order = ["L", "T", "R"]
    okc = all(sh[order[i]][1] == sh[order[(i + 1) % 3]][0] for i in range(3))
    ctx.ob("POLY", "reshare:replicated", okc, "right_i = left_{i+1} for all helpers" if okc else "the reshared values are not a consistent replicated sharing", site_of(b, arm_of["T"][0]))
    # the target's new shares must be fresh randomness only (it learns nothing, contributes nothing)
    okt = all(all(v.startswith("p") for m in p for v in m) for p in sh["T"])
    ctx.ob("POLY", "reshare:target-uses-only-prss", okt, "the target's new shares are PRSS values" if okt else "the target helper's new shares depend on its old shares", site_of(b, arm_of["T"][0]))


# ---------------------------------------------------------------------------------------------
def aggregate(ctx, facts):
    ctx.rule("WIRE-aggregate: in aggregate_values' per-pair future the branch on `a.len() < OV::BITS` selects integer_add + push(carry) on the true edge and integer_sat_add on the false edge; both take the two popped elements; next level has ceil(n/2) rows")
    body = None
    for b in facts.tree("protocol::ipa_prf::aggregation::aggregate_values"):
        if any((F.callee(t)[0] or "").endswith("addition_sequential::integer_sat_add") for bb, t in b.calls()):
            body = b
    if body is None:
        ctx.missing("WIRE-aggregate", "per-pair future of aggregate_values")
        return
    b = body
    ctx.count(bodies=1)
    dom = b.dominators()
    add = [(bb, t) for bb, t in b.calls() if (F.callee(t)[0] or "").endswith("addition_sequential::integer_add")]
    sat = [(bb, t) for bb, t in b.calls() if (F.callee(t)[0] or "").endswith("addition_sequential::integer_sat_add")]
    push = [(bb, t) for bb, t in b.calls() if (F.callee(t)[0] or "").endswith("BitDecomposed::<S>::push")]
    guard = None
    guard_operand = None
    for tgt, f in flow.edge_guards(b):
        op, l, r = f
        if op in ("Lt", "Ge", "Le", "Gt") and l[0] == "call" and l[1].endswith("BitDecomposed::<S>::len") and r is not None and "::BITS" in str(r):
            guard = guard or {}
            guard[op] = tgt
            guard_operand = l[2][0]
    if len(add) != 1 or len(sat) != 1 or guard is None:
        ctx.missing("WIRE-aggregate", f"integer_add / integer_sat_add / width test (found {len(add)}/{len(sat)}/{'yes' if guard else 'no'})")
        return
    ok = "Lt" in guard and "Ge" in guard and flow.dominates(dom, guard["Lt"], add[0][0]) and flow.dominates(dom, guard["Ge"], sat[0][0])
    ctx.ob("WIRE-aggregate", "grow-while-narrower-than-output", ok, "len < OV::BITS => add with carry growth; otherwise saturating add" if ok else "the switch between carry-growing and saturating addition is not `len < OV::BITS` (with `<=` the sum grows one bit past the output width and the final resize drops the overflow instead of saturating; with a smaller bound the sum saturates too early)", site_of(b, add[0][0]))
    # the width that is tested must be the width of the sum: integer_add / integer_sat_add return as many bits as their
    # FIRST operand has (the second one is zero-extended), and after an odd row was passed through the second operand
    # of a pair can be narrower than the first
    def strip(e):
        while e[0] == "call" and re.search(r"(Deref::deref|Clone::clone|Borrow::borrow|AsRef::as_ref)$", e[1]):
            e = e[2][0]
        return e
    # the two pops have the same expression, so compare the locals that hold them
    lens = [(bb, t) for bb, t in b.calls() if (F.callee(t)[0] or "").endswith("BitDecomposed::<S>::len") and any(flow.dominates(dom, bb, g) for g in guard.values())]
    gl = malsec._base_locals(b, lens[0][1]["args"][0]) if len(lens) == 1 else set()
    okx = bool(gl) and all(gl == malsec._base_locals(b, ct["args"][2]) for _, ct in (add[0], sat[0])) and all(gl != malsec._base_locals(b, ct["args"][3]) for _, ct in (add[0], sat[0]))
    ctx.ob("WIRE-aggregate", "width-test-on-first-operand", okx, "the tested length is that of the first operand (= the width of the sum)" if okx else "the length compared with OV::BITS is not that of the additions' first operand: once an odd row was passed through, a full-width sum paired with a narrower row grows past the output width instead of saturating", site_of(b, add[0][0]))
    okp = False
    if push:
        pe = str(flow.expr_of(b, push[0][1]["args"][1], max_depth=40))
        re_ = str(flow.expr_of(b, push[0][1]["args"][0], max_depth=40))
        okp = "integer_add" in pe and "integer_add" in re_ and pe.rstrip(")").endswith("1") and flow.dominates(dom, add[0][0], push[0][0])
    ctx.ob("WIRE-aggregate", "carry-becomes-top-bit", okp, "sum.push(carry)" if okp else "the carry of the growing addition is not appended as the new most significant bit (sums wrap instead of growing)", site_of(b, push[0][0]) if push else site_of(b))
    for nm, (cbb, ct) in (("integer_add", add[0]), ("integer_sat_add", sat[0])):
        a2, a3 = str(flow.expr_of(b, ct["args"][2], max_depth=30)), str(flow.expr_of(b, ct["args"][3], max_depth=30))
        oka = "Vec::<T, A>::pop" in a2 and "Vec::<T, A>::pop" in a3 and F.op_local(ct["args"][2]) != F.op_local(ct["args"][3])
        # the two operands must be two different pops
        la, lb = malsec._base_locals(b, ct["args"][2]), malsec._base_locals(b, ct["args"][3])
        oka = oka and la != lb
        ctx.ob("WIRE-aggregate", f"{nm}:operands-are-the-pair", oka, "adds the two elements of the chunk" if oka else f"{nm} does not add the two distinct popped elements of the pair (an element added to itself or dropped)", site_of(b, cbb))
    outer = None
    for ob_ in facts.tree("protocol::ipa_prf::aggregation::aggregate_values"):
        if any((F.callee(t)[0] or "").endswith("::div_ceil") for bb, t in ob_.calls()):
            outer = ob_
    okn = False
    if outer is not None:
        for bb, t in outer.calls():
            if (F.callee(t)[0] or "").endswith("::div_ceil"):
                okn = flow.strip_casts(flow.expr_of(outer, t["args"][1])) == ("const", 2)
    ctx.ob("WIRE-aggregate", "next-level-ceil-half", okn, "next level has ceil(n / 2) rows" if okn else "the number of rows of the next level is not ceil(n/2): an odd leftover row is dropped", site_of(outer) if outer is not None else site_of(b))


# ---------------------------------------------------------------------------------------------
def reveal_algebra(ctx, facts):
    """Opening a replicated sharing: helper i holds (s_i, s_{i+1}) and needs s_{i+2}.  Its left neighbour holds it as its
    LEFT component, its right neighbour as its RIGHT component.  So: what goes to the right peer is `left`, what goes to
    the left peer is `right`, and the opened value is received + left + right."""
    from rules.C06 import upvar_sources
    ctx.rule("POLY-reveal: in semi_honest_reveal and malicious_reveal every send to the peer in direction d carries the component the peer lacks (d = Right: left_arr, d = Left: right_arr), every receive comes from a peer that sends in the opposite direction, and the opened value is (a received share) + left + right with each term exactly once; the malicious variant compares the two received copies before using one")
    old = flow.CLOSURE_DEFS
    flow.CLOSURE_DEFS = True
    try:
        for root in ("protocol::basics::reveal::semi_honest_reveal", "protocol::basics::reveal::malicious_reveal"):
            tree = facts.tree(root)
            main = next((b for b in tree if b.coroutine), None)
            if main is None:
                ctx.missing("POLY-reveal", root)
                continue
            ctx.count(bodies=len(tree))
            name = root.split("::")[-1]
            def resolve(e, body, depth=0):
                if e[0] == "upvar" and body is not main and depth < 4:
                    for parent in tree:
                        srcs = upvar_sources(facts, parent, body.path)
                        if e[1] in srcs:
                            return resolve(srcs[e[1]], parent, depth + 1)
                return e
            def direction(e):
                m = re.findall(r"'helpers::Direction', '(Left|Right)'", str(e))
                return m[0] if len(set(m)) == 1 else None
            def component(e):
                s_ = str(e)
                l, r = "left_arr" in s_ or "::left'" in s_, "right_arr" in s_ or "::right'" in s_
                return "left" if l and not r else ("right" if r and not l else None)
            sends = []
            for b in tree:
                for bb, t in b.calls():
                    fn = F.callee(t)[0] or ""
                    if fn.endswith("::send") and len(t["args"]) == 3:
                        ch = resolve(flow.expr_of(b, t["args"][0], max_depth=10), b)
                        val = resolve(flow.expr_of(b, t["args"][2], max_depth=10), b)
                        sends.append((b, bb, direction(ch), component(val)))
            recvs = [(bb, direction(flow.expr_of(main, t["args"][0], max_depth=10))) for bb, t in main.calls() if (F.callee(t)[0] or "").endswith("::receive")]
            want_s = {("Right", "left")} if name.startswith("semi") else {("Right", "left"), ("Left", "right")}
            got_s = {(d, c) for _, _, d, c in sends}
            oks = got_s == want_s and len(sends) == len(want_s)
            ctx.ob("POLY-reveal", f"{name}:sends-the-missing-component", oks, f"sends {sorted(got_s)}" if oks else f"sends {sorted(map(str, got_s))}, expected {sorted(want_s)}: a helper is sent a share it already holds, so what it opens is not the secret", site_of(sends[0][0], sends[0][1]) if sends else site_of(main))
            want_r = {"Left"} if name.startswith("semi") else {"Left", "Right"}
            got_r = {d for _, d in recvs}
            okr = got_r == want_r and len(recvs) == len(want_r) and all(({"Left": "Right", "Right": "Left"}[d], None) != (None, None) and any(sd == {"Left": "Right", "Right": "Left"}[d] for _, _, sd, _ in sends) for d in got_r)
            ctx.ob("POLY-reveal", f"{name}:receives-from-the-senders", okr, f"receives from {sorted(got_r)}" if okr else f"receives from {sorted(map(str, got_r))}: not matched by a send in the opposite direction", site_of(main, recvs[0][0]) if recvs else site_of(main))
            # opened value
            oko, why = False, "no Ok(Some(..)) value found"
            # the Some(..) that carries the opened value may be built in main or in a closure of it (`cond.then(|| Some(..))`);
            # other Some(..) values (Some(role) in the excluded test) are not sums of shares and are set aside
            good, unread = [], []
            for body_ in [main] + [c for c in tree if c is not main and not c.coroutine and c.kind == "Closure"]:
                for bb, idx, s in body_.iter_assigns():
                    r = s["r"]
                    if r["k"] == "agg" and r.get("adt") == "std::option::Option" and r.get("vn") == "Some":
                        e = flow.expr_of(body_, r["ops"][0], max_depth=30)

                        def leaf(x, body_=body_):
                            x = flow.strip_casts(x)
                            if x[0] == "upvar":
                                x = flow.strip_casts(resolve(x, body_))
                            if x[0] == "call" and re.search(r"::(left_arr|left)$", x[1]):
                                return Poly.var("left")
                            if x[0] == "call" and re.search(r"::(right_arr|right)$", x[1]):
                                return Poly.var("right")
                            if x[0] == "proj" and ("Future::poll" in str(x) or "::receive" in str(x)):
                                return Poly.var("received")
                            return None
                        try:
                            good.append(ev(e, leaf))
                        except Unknown as u:
                            unread.append(u)
            if good:
                oko = all(p == Poly.var("received") + Poly.var("left") + Poly.var("right") for p in good)
                why = "received + left + right" if oko else f"the opened value is {[dict(p) for p in good]}"
            elif unread:
                why = f"cannot read the opened value ({unread[-1]})"
            ctx.ob("POLY-reveal", f"{name}:opened=received+left+right", oko, why, site_of(main))
    finally:
        flow.CLOSURE_DEFS = old


def reveal_excluded(ctx, facts):
    """Partial opening: the excluded helper must learn nothing and must not be waited for."""
    from rules.C06 import upvar_sources
    ctx.rule("POLY-reveal (excluded): a share is sent towards direction d only under Some(role.peer(d)) != excluded with the same d as the channel; the excluded helper itself returns Ok(None) without receiving; everybody else receives")
    old = flow.CLOSURE_DEFS
    flow.CLOSURE_DEFS = True
    try:
        for root in ("protocol::basics::reveal::semi_honest_reveal", "protocol::basics::reveal::malicious_reveal"):
            tree = facts.tree(root)
            main = next((b for b in tree if b.coroutine), None)
            if main is None:
                ctx.missing("POLY-reveal", root + " (excluded)")
                continue
            name = root.split("::")[-1]
            dom = main.dominators()
            exc = str(("upvar", params(facts, root).get(3)))      # the third parameter, under whatever name the body captured it
            def dirs(e):
                return set(re.findall(r"'helpers::Direction', '(Left|Right)'", str(e)))
            gs = malsec.guards(main, r"PartialEq::(ne|eq)$")
            # 1. sends
            ok1, why1 = True, "each send is conditional on its own target not being the excluded helper"
            nsend = 0
            for bb, t in main.calls():
                fn = F.callee(t)[0] or ""
                if fn.endswith("::send") and len(t["args"]) == 3:
                    nsend += 1
                    d_ch = dirs(flow.expr_of(main, t["args"][0], max_depth=10))
                    cond = [g for g in gs if g[3][1].endswith("::ne") and exc in str(g[1]) and "Role::peer" in str(g[1]) and flow.dominates(dom, g[2][1], bb)]
                    if not cond or dirs(cond[0][1]) != d_ch:
                        ok1, why1 = False, f"a share is sent towards {sorted(d_ch)} without the test Some(peer({sorted(d_ch)})) != excluded: the excluded helper receives a share (it can open the value) or a needed share is withheld"
                if fn.endswith("MaybeFuture::<Fut>::future_or_ok") or fn.endswith("future_or_ok"):
                    nsend += 1
                    cond = flow.expr_of(main, t["args"][0], max_depth=10)
                    clo = flow.expr_of(main, t["args"][1], max_depth=10)
                    okc = cond[0] == "call" and cond[1].endswith("PartialEq::ne") and exc in str(cond) and "Role::peer" in str(cond)
                    if not okc or dirs(cond) != dirs(clo) or len(dirs(cond)) != 1:
                        ok1, why1 = False, f"future_or_ok sends towards {sorted(dirs(clo))} under a condition about {sorted(dirs(cond))}: the excluded helper is sent a share, or another helper is not"
            ctx.ob("POLY-reveal", f"{name}:no-send-to-excluded", ok1 and nsend >= 1, why1, site_of(main))
            # 2. excluded helper returns None without receiving
            eqs = [g for g in gs if g[3][1].endswith("::eq") and exc in str(g[1]) and "Context::role" in str(g[1]) and "Role::peer" not in str(g[1])]
            recvs = [bb for bb, t in main.calls() if (F.callee(t)[0] or "").endswith("::receive")]
            nones = [bb for bb, idx, s in main.iter_assigns() if s["r"]["k"] == "agg" and s["r"].get("adt") == "std::option::Option" and s["r"].get("vn") == "None" and not s["r"]["ops"]]
            ok2 = False
            if eqs:
                g = eqs[0]
                ok2 = any(flow.dominates(dom, g[2][1], nb) for nb in nones) and all(flow.dominates(dom, g[2][0], rb) for rb in recvs) and bool(recvs)
            ctx.ob("POLY-reveal", f"{name}:excluded-returns-none", ok2, "Some(role) == excluded => Ok(None); otherwise receive" if ok2 else "the excluded helper waits for a share nobody sends it, or a non-excluded helper returns None", site_of(main, eqs[0][0]) if eqs else site_of(main))
    finally:
        flow.CLOSURE_DEFS = old
