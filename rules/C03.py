"""C03  Multiplication proofs accept honest batches and reject any altered one.

Decided statically (constants + wiring; DESIGN.md §3/C03):
  CONST-capacity  honest batches of every admissible size are accepted: with the constants compiled into this
                  configuration, FRF*(CRF-1)*CRF^(MAX_PROOF_RECURSION-2) >= 4*TARGET_PROOF_SIZE (the bound asserted
                  in ProofBatch::generate; for the production cfg(not(test)) value the margin is 0.7 % and no test
                  ever compiles it), MIN_PROOF_RECURSION <= MAX_PROOF_RECURSION, FIRST_RECURSION_FACTOR equals the
                  row width of UVTable, and every production batch-size computation derives from TARGET_PROOF_SIZE
                  through a round-DOWN to a power of two.
  CONST-sizing    PROOF_LENGTH == 2*RECURSION_FACTOR - 1 and LAGRANGE_LENGTH == RECURSION_FACTOR - 1 for both
                  generator aliases; PRSS_RECORDS_PER_BATCH == ARRAY_LEN + 2 == FPL + (MAX-1)*CPL + 2; the wire
                  arrays ([Hash; MAX], ProofDiff = [F; MAX+1]) are sized from MAX_PROOF_RECURSION.
  RANGE-challenge hash_to_field returns val % (prime - exclude_to) + exclude_to, after asserting 2*exclude_to < prime:
                  the challenge lies in [exclude_to, prime), outside the interpolation domain.
  CONST-field     2*INVERSE_OF_TWO == 1, MINUS_ONE_HALF + INVERSE_OF_TWO == 0, MINUS_TWO + 2 == 0 (mod p);
                  sum_of_uv = m * MINUS_ONE_HALF.
  GUARD-dzkp      BatchToVerify::verify verdict wiring (rules/malsec.py).
  WIRE-tables     Batch::validate pairs the from-right-prover indices with TABLE_U and the from-left-prover
                  indices with TABLE_V; the prover uses table_indices_prover.
The algebraic identity of the tables, soundness against bit flips and segment packing are not decided.
"""
import re
from vlib import facts as F, flow
from vlib.core import site_of
from rules import malsec, C08

LEVEL = "other"
EXPLANATION = "C03: capacity and sizing relations between compiler-evaluated proof constants, shape of the Fiat-Shamir challenge map, verdict guard, prover/verifier table pairing."
CONFIGS_QUICK = ["Q"]
CONFIGS_THOROUGH = ["Q", "P", "M", "N"]

DV = "protocol::context::dzkp_validator::"
MS = "protocol::ipa_prf::malicious_security::"


def gen_params(facts, alias):
    a = facts.aliases.get(MS + alias)
    if not a:
        return None
    m = re.search(r"ProofGenerator<[^,]+, (\d+), (\d+), (\d+)>", a["ty"])
    return tuple(int(x) for x in m.groups()) if m else None


def run(ctx):
    facts = ctx.facts()
    capacity(ctx, facts)
    sizing(ctx, facts)
    challenge(ctx, facts)
    C08.check_dzkp_consts(ctx, facts)
    sum_uv(ctx, facts)
    malsec.dzkp_verify_guard(ctx, facts, "GUARD-dzkp")
    malsec.dzkp_validate_path(ctx, facts, "PATH-verdict")
    malsec.batch_store_grows(ctx, facts, "STORE-grow")
    malsec.segment_packing(ctx, facts, "PACK-slots")
    malsec.batch_origin(ctx, facts, "PACK-slots")
    malsec.multiply_impls(ctx, facts, "WHO-multiply")
    malsec.field_transport(ctx, facts, "FIELDS-block")
    tables(ctx, facts)
    fiat_shamir(ctx, facts)
    malsec.hash_cover(ctx, facts)       # the challenges bind exactly what the hashes absorb
    ctx.assume("Lagrange interpolation identities and the u/v table algebra are not decided")


def capacity(ctx, facts):
    ctx.rule("CONST-capacity: FRF*(CRF-1)*CRF^(MAX-2) >= 4*TARGET_PROOF_SIZE; MIN <= MAX; FRF == UVTable row width; uses of TARGET_PROOF_SIZE flow into non_zero_prev_power_of_two (round down)")
    T = facts.const_val(DV + "TARGET_PROOF_SIZE")
    MAXR = facts.const_val(DV + "MAX_PROOF_RECURSION")
    MINR = facts.const_val(DV + "MIN_PROOF_RECURSION")
    first, comp = gen_params(facts, "FirstProofGenerator"), gen_params(facts, "CompressedProofGenerator")
    if None in (T, MAXR, MINR, first, comp):
        return ctx.missing("CONST-capacity", "TARGET_PROOF_SIZE / MAX_PROOF_RECURSION / generator aliases")
    FRF, CRF = first[0], comp[0]
    cap = FRF * (CRF - 1) * CRF ** (MAXR - 2)
    ok = cap >= 4 * T
    ctx.ob("CONST-capacity", "recursion-depth-fits-target", ok, f"{FRF}*({CRF}-1)*{CRF}^{MAXR-2} = {cap} >= 4*{T} = {4*T} (margin {100.0*(cap-4*T)/(4*T):.2f} %)" if ok else f"a full batch of TARGET_PROOF_SIZE={T} multiplications needs more than MAX_PROOF_RECURSION={MAXR} levels: capacity {cap} < {4*T}; honest batches of the target size are rejected (assert in ProofBatch::generate)")
    ctx.ob("CONST-capacity", "min<=max", 2 <= MINR <= MAXR, f"MIN_PROOF_RECURSION={MINR} <= MAX_PROOF_RECURSION={MAXR}")
    # the asserted bound in ProofBatch::generate uses the same formula
    b = None
    for p, x in facts.bodies.items():
        if p.endswith("proof_generation::ProofBatch::generate"):
            b = x
    if b is None:
        ctx.missing("CONST-capacity", "ProofBatch::generate")
    else:
        found = False
        dbg = flow.debug_only_blocks(b)
        for bb in sorted(b.live_blocks()):
            t = b.term(bb)
            if t["k"] == "switch" and bb not in dbg:      # a debug_assert! is not there in the shipped build
                e = flow.expr_of(b, t["o"])
                if e[0] == "bin" and e[1] == "Le" and "len" in str(e[2]) and ("pow" in str(e[3]) or e[3][0] == "const"):
                    found = True
                    s = str(e[3])
                    okf = "pow" in s or (e[3][0] == "const" and e[3][1] == (CRF - 1) * CRF ** (MAXR - 2))
                    ctx.ob("CONST-capacity", "generate-asserts-bound", okf, "uv_values.len() <= (CRF-1)*CRF^(MAX-2) is asserted before recursing", site_of(b, bb))
        if not found:
            ctx.ob("CONST-capacity", "generate-asserts-bound", False, "ProofBatch::generate no longer checks the batch against the recursion capacity", site_of(b))
    uvt = facts.adts.get("protocol::context::dzkp_field::UVTable")
    w = None
    if uvt:
        m = re.search(r"\[\[F; (\d+)\]; (\d+)\]", uvt["variants"][0]["fields"][0]["ty"])
        w = int(m.group(1)) if m else None
    ctx.ob("CONST-capacity", "first-recursion-factor==uv-row-width", w == FRF, f"UVTable rows have {w} entries, FirstProofGenerator recursion factor is {FRF}" + ("" if w == FRF else ": ProverTableIndices copies rows of the wrong width"))
    # uses of TARGET_PROOF_SIZE in non-test bodies
    n = 0
    for body in facts.non_test_bodies():
        if not body.file.startswith("ipa-core/") or body.file.endswith("dzkp_validator.rs"):
            continue
        txt_has = False
        for bb, bl in enumerate(body.blocks):
            if "TARGET_PROOF_SIZE" in str(bl) or (T is not None and re.search(r"'v': '%d'" % T, str(bl))):
                txt_has = True
        if not txt_has:
            continue
        # every call to non_zero_prev_power_of_two / min / max whose argument mentions the constant
        uses = []
        for bb, t in body.calls():
            for a in t["args"]:
                e = flow.expr_of(body, a)
                if ("const", T) in _leaves(e) or "TARGET_PROOF_SIZE" in str(e):
                    uses.append((bb, t, F.callee(t)[0] or ""))
        for bb, idx, s in body.iter_assigns():
            if s["r"]["k"] == "bin":
                for o in (s["r"]["a"], s["r"]["b"]):
                    if F.const_int(o) == T:
                        uses.append((bb, None, "arith"))
        if not uses:
            continue
        n += 1
        rounded = any(re.search(r"non_zero_prev_power_of_two$", c) for _, _, c in uses) or any((F.callee(t)[0] or "").endswith("non_zero_prev_power_of_two") and str(T) in str(flow.expr_of(body, t["args"][0])) for _, t in body.calls())
        ok = rounded or all(c == "arith" and False for _, _, c in uses) or _only_compares(body, T)
        ctx.ob("CONST-capacity", f"round-down@{body.root}", ok, "batch size derived from TARGET_PROOF_SIZE is rounded DOWN to a power of two" if rounded else ("constant is only compared / logged" if ok else "a batch size is derived from TARGET_PROOF_SIZE without rounding down: a batch can exceed the proof capacity"), site_of(body))
    ctx.floor("CONST-capacity", "bodies deriving batch sizes from TARGET_PROOF_SIZE", n, 3)


def _leaves(e):
    out = set()
    if isinstance(e, tuple):
        if e and e[0] == "const":
            out.add(e)
        for x in e[1:]:
            if isinstance(x, tuple):
                if x and isinstance(x[0], str):
                    out |= _leaves(x)
                else:
                    for y in x:
                        out |= _leaves(y)
    return out


def _only_compares(body, T):
    for bb, idx, s in body.iter_assigns():
        if s["r"]["k"] == "bin" and (F.const_int(s["r"]["a"]) == T or F.const_int(s["r"]["b"]) == T):
            if s["r"]["op"] not in ("Lt", "Le", "Gt", "Ge", "Eq", "Ne"):
                return False
    return True


def sizing(ctx, facts):
    ctx.rule("CONST-sizing: P == 2L-1 and M == L-1 for both ProofGenerator aliases; PRSS_RECORDS_PER_BATCH == ARRAY_LEN + 2 == FPL + (MAX-1)*CPL + 2")
    MAXR = facts.const_val(DV + "MAX_PROOF_RECURSION")
    for alias in ("FirstProofGenerator", "CompressedProofGenerator"):
        g = gen_params(facts, alias)
        if g is None:
            ctx.missing("CONST-sizing", alias)
            continue
        L, P, M = g
        ctx.ob("CONST-sizing", f"{alias}:proof-length", P == 2 * L - 1, f"PROOF_LENGTH {P} == 2*{L}-1" if P == 2 * L - 1 else f"PROOF_LENGTH {P} != 2*{L}-1: prover and verifier disagree on the polynomial degree")
        ctx.ob("CONST-sizing", f"{alias}:lagrange-length", M == L - 1, f"LAGRANGE_LENGTH {M} == {L}-1" if M == L - 1 else f"LAGRANGE_LENGTH {M} != {L}-1")
    first, comp = gen_params(facts, "FirstProofGenerator"), gen_params(facts, "CompressedProofGenerator")
    prss = None
    arr = None
    for path, c in facts.consts.items():
        if path.endswith("::PRSS_RECORDS_PER_BATCH") and "v" in c:
            prss = int(c["v"])
        if path.endswith("proof_generation::ARRAY_LEN") and "v" in c:
            arr = int(c["v"])
    if None in (prss, arr, MAXR, first, comp):
        ctx.missing("CONST-sizing", "PRSS_RECORDS_PER_BATCH / ARRAY_LEN")
    else:
        want = first[1] + (MAXR - 1) * comp[1]
        ctx.ob("CONST-sizing", "array-len", arr == want, f"ARRAY_LEN {arr} == FPL + (MAX-1)*CPL = {want}")
        ctx.ob("CONST-sizing", "prss-records-per-batch", prss == arr + 2, f"PRSS_RECORDS_PER_BATCH {prss} == ARRAY_LEN + 2 (P and Q masks)" if prss == arr + 2 else f"PRSS_RECORDS_PER_BATCH {prss} != ARRAY_LEN + 2 = {arr+2}: proof shares of consecutive batches reuse PRSS indices or the masks have no index")
    # range end uses the same constant as the start
    vb = None
    for p, x in facts.bodies.items():
        if p.endswith("dzkp_validator::Batch::validate::{closure#0}") or (p.endswith("Batch::validate") and x.coroutine):
            vb = x
    for x in facts.tree(DV + "Batch::validate"):
        if x.coroutine:
            vb = x
    if vb is None:
        ctx.missing("CONST-sizing", "Batch::validate")
    else:
        muls = []
        for bb, idx, s in vb.iter_assigns():
            if s["r"]["k"] == "bin" and s["r"]["op"].startswith("Mul") and prss is not None and prss in (F.const_int(s["r"]["a"]), F.const_int(s["r"]["b"])):
                muls.append(flow.expr_of(vb, s["r"]["a"] if F.const_int(s["r"]["b"]) == prss else s["r"]["b"]))
        okr = len(muls) == 2 and any(m[0] == "bin" and m[1] == "Add" and ("const", 1) in (m[2], m[3]) for m in muls) and any(m[0] in ("arg", "upvar", "place") for m in muls)
        ctx.ob("CONST-sizing", "range=[b*N,(b+1)*N)", okr, "PRSS record range of batch b is [b*N, (b+1)*N) with one constant N" if okr else f"PRSS record range is not [b*N,(b+1)*N) with the same N: {muls}", site_of(vb))


def challenge(ctx, facts):
    ctx.rule("RANGE-challenge: the argument of truncate_from in hash_to_field, evaluated as a function of (hash value, PRIME, exclude_to) for small primes and every exclude_to with 2*exclude_to < prime, lies in [exclude_to, prime) and takes every value of that interval once per period; the assertion 2*exclude_to < prime dominates")
    b = facts.bodies.get("helpers::hashing::hash_to_field")
    if b is None:
        return ctx.missing("RANGE-challenge", "helpers::hashing::hash_to_field")
    ctx.count(bodies=1)
    tf = flow.find_calls(b, re.compile(r"truncate_from$"))
    from rules.C13 import ieval, NoEval
    ok, why = False, "hash_to_field does not return truncate_from(..)"
    for bb, t in tf:
        if t["d"] != [0]:
            continue
        e = flow.expr_of(b, t["args"][0], max_depth=14)
        vals = [x for x in malsec.walk_calls(e) if x[1].endswith("from_le_bytes")]
        primes = [x for x in malsec._leaves(e, "const") if isinstance(x[1], str) and x[1].endswith("PRIME")]
        if not vals or not primes:
            why = "the challenge is not computed from the hash value and the field's PRIME"
            continue
        VAL, PR, EX = vals[0], primes[0], ("arg", 3)
        bad = None
        try:
            for p in (5, 7, 11, 13, 31):
                for ex in range(0, p):
                    if not 2 * ex < p:
                        continue
                    got = [ieval(e, {VAL: v, PR: p, EX: ex}) for v in range(3 * p)]
                    if any(not (ex <= g < p) for g in got) and bad is None:
                        g = next(g for g in got if not (ex <= g < p))
                        bad = f"with prime {p} and exclude_to {ex} the challenge can be {g}, outside [{ex}, {p}): it falls inside the interpolation domain or is reduced a second time by truncate_from"
                    if sorted(got[:p - ex]) != list(range(ex, p)) and bad is None:
                        bad = f"with prime {p} and exclude_to {ex} the challenge does not take every value of [{ex}, {p}) once per period of the hash"
        except NoEval as exn:
            bad = f"cannot evaluate the challenge expression ({exn})"
        ok, why = bad is None, (bad or "challenge in [exclude_to, prime), every value once per period (evaluated for primes 5..31, all admissible exclude_to)")
    ctx.ob("RANGE-challenge", "shape", ok, why, site_of(b))
    # the 2*exclude_to < prime assertion dominates
    dom = b.dominators()
    g = False
    dbg = flow.debug_only_blocks(b)
    for bb in sorted(b.live_blocks()):
        t = b.term(bb)
        if t["k"] == "switch" and bb not in dbg:          # a debug_assert! is not there in the shipped build
            e2 = flow.expr_of(b, t["o"])
            if e2[0] == "bin" and e2[1] == "Lt" and "Mul" in str(e2[2]) and ("arg", 3) in _args(e2[2]):
                ed = flow.switch_edges(b, bb)
                g = ed is not None and all(flow.dominates(dom, ed[1], x) for x, _ in tf)
    ctx.ob("RANGE-challenge", "exclude-range-asserted", g, "2*exclude_to < prime is asserted first" if g else "the exclude range is not checked against the field size", site_of(b))


def _args(e):
    out = set()
    if isinstance(e, tuple):
        if e and e[0] == "arg":
            out.add(e[:2])
        for x in e[1:]:
            if isinstance(x, tuple):
                if x and isinstance(x[0], str):
                    out |= _args(x)
                else:
                    for y in x:
                        out |= _args(y)
    return out


def sum_uv(ctx, facts):
    ctx.rule("CONST-field: sum_of_uv = truncate_from(m) * MINUS_ONE_HALF in Batch::validate")
    cors = [x for x in facts.tree(DV + "Batch::validate") if x.coroutine]
    # (the computation may sit in a private method of Batch that validate calls: one level is followed)
    helpers = [facts.bodies[fn] for x in cors for _, t in x.calls() for fn in [F.callee(t)[0] or ""] if fn in facts.bodies and fn.startswith(DV + "Batch::") and not fn.endswith("::validate")]
    for x in cors + helpers:
        for bb, t in x.calls():
            if (F.callee(t)[0] or "").endswith("Mul::mul"):
                s = str(flow.expr_of(x, t["args"][1])) + str(flow.expr_of(x, t["args"][0]))
                if "MINUS_ONE_HALF" in s:
                    ctx.ob("CONST-field", "sum_of_uv", "truncate_from" in s, "sum_of_uv = m * (-1/2)", site_of(x, bb))
                    return
    ctx.ob("CONST-field", "sum_of_uv", False, "sum_of_uv is not computed with MINUS_ONE_HALF")


def tables(ctx, facts):
    ctx.rule("WIRE-tables: VerifierTableIndices{input: from_right_prover, table: TABLE_U} and {input: from_left_prover, table: TABLE_V}; prover side uses get_field_values_prover")
    vb = None
    for x in facts.tree(DV + "Batch::validate"):
        if x.coroutine:
            vb = x
    if vb is None:
        return ctx.missing("WIRE-tables", "Batch::validate")
    n = 0
    for bb, idx, s in vb.iter_assigns():
        r = s["r"]
        if r["k"] == "agg" and r.get("adt", "").endswith("VerifierTableIndices"):
            n += 1
            inp = str(flow.expr_of(vb, r["ops"][0]))
            tab = str(flow.expr_of(vb, r["ops"][1]))
            side = "right" if "from_right_prover" in inp else ("left" if "from_left_prover" in inp else "?")
            table = "U" if "TABLE_U" in tab else ("V" if "TABLE_V" in tab else "?")
            ok = (side, table) in (("right", "U"), ("left", "V"))
            ctx.ob("WIRE-tables", f"verifier#{n}", ok, f"indices from the {side} prover are looked up in TABLE_{table}" if ok else f"indices from the {side} prover are looked up in TABLE_{table}: verifier recomputes the wrong polynomial", site_of(vb, bb, idx))
    ctx.floor("WIRE-tables", "VerifierTableIndices sites", n, 2)
    pr = [1 for bb, idx, s in vb.iter_assigns() if s["r"]["k"] == "agg" and s["r"].get("adt", "").endswith("ProverTableIndices") and "get_field_values_prover" in str(flow.expr_of(vb, s["r"]["ops"][0]))]
    ctx.ob("WIRE-tables", "prover", bool(pr), "prover tables are built from get_field_values_prover", site_of(vb))


# ---------------------------------------------------------------------------------------------
def fiat_shamir(ctx, facts):
    """Challenges must lie outside the interpolation domain of the proof they are used with (otherwise p(r) is one of
    the prover's own points and the check is vacuous), and both verifiers and the prover must hash the same material
    in the same order (otherwise honest proofs are rejected)."""
    ctx.rule("EXCLUDE-domain: the prover draws its challenge with hash_to_field(hash(proof share for the left verifier), hash(proof share for the right verifier), L) where L is the generator's own recursion factor; the verifiers draw the challenges of both provers as hash_to_field(left hash, right hash, exclude) over zip(zip(hashes_a, hashes_b), once(FRF).chain(repeat(CRF))) with FRF / CRF the recursion factors of the first / compressed generator, the left-prover list pairing (received, own) and the right-prover list (own, received)")
    first, comp = gen_params(facts, "FirstProofGenerator"), gen_params(facts, "CompressedProofGenerator")
    root = "protocol::ipa_prf::validation_protocol::validation::BatchToVerify::generate_challenges"
    b = malsec.async_body(facts, root)
    if b is None or first is None or comp is None:
        return ctx.missing("EXCLUDE-domain", "BatchToVerify::generate_challenges / generator aliases")
    ctx.count(bodies=3)
    FRF, CRF = first[0], comp[0]
    chains = flow.find_calls(b, re.compile(r"Iterator::chain$"))
    def cval(e):
        e = flow.fold(e)
        while e[0] == "call" and re.search(r"(Result::<T, E>::unwrap|TryFrom::try_from|From::from|Into::into)$", e[1]):
            e = e[2][0]
        if e[0] == "const" and isinstance(e[1], int):
            return e[1]
        if e[0] == "const" and isinstance(e[1], str):
            return facts.const_val(e[1])
        return None
    # the two challenge lists may be produced by one local closure that is called twice (`combine(&left, &right)`)
    helper = None
    if not chains:
        hs = [x for x in facts.tree(root) if x.kind == "Closure" and flow.find_calls(x, re.compile(r"Iterator::chain$"))]
        calls_h = [(bb, t) for bb, t in b.calls() if re.search(r"ops::Fn(Mut|Once)?::call(_mut|_once)?$", F.callee(t)[0] or "")]
        if len(hs) == 1 and len(calls_h) == 2:
            helper = hs[0]
            chains = flow.find_calls(helper, re.compile(r"Iterator::chain$")) * 2          # one chain, used for both provers
    hb = helper if helper is not None else b
    good = len(chains) == 2
    details = []
    for bb, t in chains:
        a0, a1 = (flow.expr_of(hb, x, max_depth=10) for x in t["args"])
        ok = a0[0] == "call" and a0[1].endswith("iter::once") and a1[0] == "call" and a1[1].endswith("iter::repeat")
        if ok and helper is not None:
            from rules.C06 import upvar_sources
            ups_ = upvar_sources(facts, b, helper.path)
            def _up(e):
                e = flow.strip_casts(e)
                return ups_.get(e[1], e) if e[0] == "upvar" else e
            x, y = cval(_up(a0[2][0])), cval(_up(a1[2][0]))
        else:
            x, y = (cval(a0[2][0]), cval(a1[2][0])) if ok else (None, None)
        details.append((x, y))
        good = good and ok and x == FRF and y == CRF
    ctx.ob("EXCLUDE-domain", "verifier:exclude-sequence", good, f"once({FRF}).chain(repeat({CRF})) for both provers" if good else f"the excluded ranges used by the verifiers are {details}, expected (first {FRF}, then {CRF}) for both provers: a challenge may fall inside the interpolation domain of the proof it is used with", site_of(b, chains[0][0]) if chains else site_of(b))
    # pairing of hashes
    zips = [(bb, t) for bb, t in flow.find_calls(b, re.compile(r"Iterator::zip$")) if "Iterator::chain" not in str(flow.expr_of(b, t["args"][1], max_depth=4))]
    def src(e):
        s = str(e)
        d = "Left" if "'Left'" in s else ("Right" if "'Right'" in s else "?")
        return ("own-" + d) if "generate_hashes" in s else ("received" if "unwrap" in s or "try_join" in s else "?")
    pairs = []
    for bb, t in zips:
        a0, a1 = (flow.expr_of(b, x, max_depth=12) for x in t["args"])
        pairs.append((src(a0), src(a1)))
    if helper is not None:
        # inside the helper: zip(first parameter, second parameter); at each call: (left list, right list)
        hz = [(bb, t) for bb, t in flow.find_calls(helper, re.compile(r"Iterator::zip$")) if "Iterator::chain" not in str(flow.expr_of(helper, t["args"][1], max_depth=4))]
        in_order = len(hz) == 1 and "('arg', 2)" in str(flow.expr_of(helper, hz[0][1]["args"][0], max_depth=8)) and "('arg', 3)" in str(flow.expr_of(helper, hz[0][1]["args"][1], max_depth=8))
        pairs = []
        for bb, t in calls_h:
            tup = flow.strip_casts(flow.expr_of(b, t["args"][1], max_depth=14))
            if tup[0] == "agg" and tup[1] == "tuple" and len(tup[2]) == 2 and in_order:
                pairs.append((src(tup[2][0]), src(tup[2][1])))
            else:
                pairs.append(("?", "?"))
    okp = sorted(pairs) == sorted([("received", "own-Left"), ("own-Right", "received")])
    ctx.ob("EXCLUDE-domain", "verifier:hash-order", okp, "left prover: (received, own); right prover: (own, received)" if okp else f"the two hash lists are paired as {pairs}: the verifiers derive other challenges than the prover (honest proofs fail) or the same hash is used twice", site_of(b, zips[0][0]) if zips else site_of(b))
    cl = [x for x in facts.tree(root) if not x.coroutine and flow.find_calls(x, re.compile(r"hashing::hash_to_field$"))]
    okc = len(cl) == (1 if helper is not None else 2) and all([flow.expr_of(x, a) for a in flow.find_calls(x, re.compile(r"hashing::hash_to_field$"))[0][1]["args"]] == [("arg", 2, 0, 0), ("arg", 2, 0, 1), ("arg", 2, 1)] for x in cl)
    ctx.ob("EXCLUDE-domain", "verifier:challenge=h(left, right, exclude)", okc, "hash_to_field(pair.0, pair.1, exclude) in both lists" if okc else "a challenge is not hash_to_field(first hash, second hash, the zipped exclude value)", site_of(cl[0]) if cl else site_of(b))
    # prover
    pb = facts.bodies.get("protocol::ipa_prf::malicious_security::prover::ProofGenerator::<F, L, P, M>::gen_challenge_and_recurse")
    if pb is None:
        return ctx.missing("EXCLUDE-domain", "ProofGenerator::gen_challenge_and_recurse")
    h = flow.find_calls(pb, re.compile(r"hashing::hash_to_field$"))
    okh = False
    if len(h) == 1:
        a = [flow.expr_of(pb, x, max_depth=10) for x in h[0][1]["args"]]
        l_ok = a[0][0] == "call" and a[0][1].endswith("compute_hash") and ("arg", 1) in malsec._leaves(a[0], "arg")
        r_ok = a[1][0] == "call" and a[1][1].endswith("compute_hash") and ("arg", 2) in malsec._leaves(a[1], "arg")
        ex = str(a[2])
        e_ok = re.search(r"Ty\(usize, L/#1\)|'L'|, L/", ex) is not None or "L" in re.findall(r"Ty\(usize, (\w+)/", ex)
        okh = l_ok and r_ok and e_ok
    ctx.ob("EXCLUDE-domain", "prover:challenge=h(left share, right share, L)", okh, "hash_to_field(hash(proof_left), hash(proof_right), L)" if okh else "the prover's challenge is not derived from (hash of the left share, hash of the right share) with its own recursion factor L excluded", site_of(pb, h[0][0]) if h else site_of(pb))
