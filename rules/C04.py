"""C04  MAC-checked arithmetic and openings detect any additive deviation.

Decided statically (necessary conditions; DESIGN.md §3/C04):
  GUARD-reveal   (exactly the statement's last sentence) malicious_reveal opens a value only on the
                 equal edge of a comparison of the two different received copies (rules/malsec.py).
  ORDER-prf      eval_dy_prf: validate_record(record_id).await? dominates both reveals.
  WIRE-mul       mac_multiply: two semi_honest_multiply calls, on (a.x, b.x) with the base context and on
                 (a.rx, induced(b.x)) with the DuplicateMultiply-narrowed context; the result is
                 MaliciousReplicated::new(ab, rab) and accumulate_macs(record_id, &result) is called on every
                 Ok path with the RandomnessForValidation-narrowed context; Upgradable::upgrade accumulates too.
  WIRE-acc       accumulate_macs draws its random-linear-combination coefficient as a *vector* value
                 directly from PRSS (one independent coefficient per lane, never `expand()` of a scalar) and
                 uses the same coefficient for the u (r*x share) and w (x share) contributions.
  GUARD-mac      Malicious::validate: Ok only if check_zero(u - w*r) (rules/malsec.py).
  AFFINE-ids     u/w/r_share record ids are total*offset + {0,1,2}; every call site passes a `total`
                 strictly greater than the largest constant term it uses, so the families are jointly
                 injective (no PRSS index / channel record reuse across batches).
"""
import re
from vlib import facts as F, flow
from vlib.core import site_of
from rules import malsec

LEVEL = "other"
EXPLANATION = "C04: guard polarity of the two-copy reveal comparison, validate-before-reveal ordering, dataflow wiring of the duplicate multiplication and MAC accumulation, affine injectivity of validator record-id families."


def run(ctx):
    facts = ctx.facts()
    malsec.malicious_reveal_guard(ctx, facts, "GUARD-reveal")
    order_prf(ctx, facts)
    wire_mul(ctx, facts)
    wire_acc(ctx, facts)
    malsec.mac_validate_guard(ctx, facts, "GUARD-mac")
    malsec.reveal_impls(ctx, facts, "WHO-reveal")
    malsec.multiply_impls(ctx, facts, "WHO-multiply")
    malsec.dzkp_validate_path(ctx, facts, "PATH-verdict")
    affine_ids(ctx, facts)
    fresh_key(ctx, facts)
    linear_ops(ctx, facts)
    from rules import C07
    C07.reveal_algebra(ctx, facts)    # what is sent, received and summed when a value is opened
    C07.reveal_excluded(ctx, facts)
    from rules import C02
    C02.downgrade_users(ctx, facts)    # who may read a MAC-protected share without its check
    ctx.assume("detection probability (1/|F|) and algebraic soundness of the MAC scheme are not decided")


def order_prf(ctx, facts):
    ctx.rule("ORDER-prf: in eval_dy_prf, validate_record(record_id) is awaited and `?`-propagated before reveal(RevealR) and reveal(Revealz); upgrades and the multiplication precede the validation")
    b = malsec.async_body(facts, "protocol::ipa_prf::prf_eval::eval_dy_prf")
    if b is None:
        return ctx.missing("ORDER-prf", "eval_dy_prf")
    ctx.count(bodies=1)
    dom = b.dominators()
    vr = [(bb, t, flow.settled(b, bb)) for bb, t in b.calls() if re.search(r"UpgradedContext::validate_record$", F.callee(t)[0] or "")]
    rv = flow.find_calls(b, re.compile(r"basics::reveal::reveal$"))
    if not vr or len(rv) < 2:
        return ctx.missing("ORDER-prf", "validate_record / two reveals in eval_dy_prf")
    st = vr[0][2]
    for k, (bb, t) in enumerate(rv):
        ok = st is not None and st["q"] is not None and flow.dominates(dom, st["q"][1], bb)
        ctx.ob("ORDER-prf", f"validate-before-reveal#{k}", ok, "reveal happens only after the record's MAC validation succeeded" if ok else "a value is opened before / without validating the record: a tampered multiplication result would be revealed", site_of(b, bb))
    mul = [(bb, flow.settled(b, bb)) for bb, t in b.calls() if re.search(r"SecureMul::multiply$|PrfSharing|basics::mul::SecureMul", F.callee(t)[0] or "") and (F.callee(t)[0] or "").endswith("multiply")]
    up = [(bb, flow.settled(b, bb)) for bb, t in b.calls() if (F.callee(t)[0] or "").endswith("Upgradable::upgrade")]
    ctx.floor("ORDER-prf", "upgrade calls", len(up), 2)
    ctx.floor("ORDER-prf", "multiply calls", len(mul), 1)
    for k, (bb, s) in enumerate(mul + up):
        ok = s is not None and s["q"] is not None and flow.dominates(dom, s["q"][1], vr[0][0])
        ctx.ob("ORDER-prf", f"compute-before-validate#{k}", ok, "the validated record covers this step" if ok else "an upgrade/multiplication of the record happens after its validation", site_of(b, bb))


def wire_mul(ctx, facts):
    ctx.rule("WIRE-mul: mac_multiply = try_join(semi_honest_multiply(base ctx, a.x, b.x), semi_honest_multiply(DuplicateMultiply ctx, a.rx, induced(b.x))) -> MaliciousReplicated::new(ab, rab) -> accumulate_macs(record_id, &result)")
    b = malsec.async_body(facts, "protocol::basics::mul::malicious::mac_multiply")
    if b is None:
        return ctx.missing("WIRE-mul", "mac_multiply")
    ctx.count(bodies=1)
    sh = flow.find_calls(b, re.compile(r"mul::semi_honest::sh_multiply$|semi_honest_multiply$|semi_honest::multiply$"))
    if len(sh) != 2:
        ctx.ob("WIRE-mul", "two-multiplications", False, f"expected 2 semi-honest multiplications, found {len(sh)}", site_of(b))
        return
    ctx.ob("WIRE-mul", "two-multiplications", True, "2 semi-honest multiplications")
    descr = []
    for bb, t in sh:
        cx = str(flow.expr_of(b, t["args"][0]))
        a = str(flow.expr_of(b, t["args"][2]))
        bbx = str(flow.expr_of(b, t["args"][3]))
        descr.append(dict(bb=bb, dup="DuplicateMultiply" in cx, a_rx="::rx" in a, a_x="::x'" in a or "::x\"" in a or "AdditiveShare::<F, N>::x" in a, b_ind="induced" in bbx, ctx=cx, a=a, b=bbx))
    plain = [d for d in descr if not d["dup"]]
    dup = [d for d in descr if d["dup"]]
    ok_ctx = len(plain) == 1 and len(dup) == 1
    ctx.ob("WIRE-mul", "distinct-contexts", ok_ctx, "one multiplication on the base step, one on the DuplicateMultiply step" if ok_ctx else "both multiplications use the same step (PRSS masks and channels collide)", site_of(b, sh[0][0]))
    if ok_ctx:
        p, d = plain[0], dup[0]
        ctx.ob("WIRE-mul", "x-times-x", ("access_without_downgrade" in p["a"]) and not p["a_rx"] and not p["b_ind"], "x-share product: a.x * b.x", site_of(b, p["bb"]))
        ctx.ob("WIRE-mul", "rx-times-induced-x", d["a_rx"] and d["b_ind"], "MAC product: a.rx * induced(b.x)" if d["a_rx"] and d["b_ind"] else f"the duplicate multiplication is on ({d['a'][:80]}, {d['b'][:80]}), not (a.rx, induced(b.x)): the MAC of the product is not r*x*y", site_of(b, d["bb"]))
    acc = flow.find_calls(b, re.compile(r"Upgraded::<'a, F, B>::accumulate_macs$|accumulate_macs$"))
    news = flow.find_calls(b, re.compile(r"malicious::additive_share::AdditiveShare::<F, N>::new$|MaliciousReplicated.*::new$"))
    dom = b.dominators()
    oks = malsec.ok_blocks(b)
    ok_acc = bool(acc) and bool(oks) and all(any(flow.dominates(dom, a, o) for a, _ in acc) for o in oks)
    ctx.ob("WIRE-mul", "accumulate-on-every-ok", ok_acc, "the product is added to the MAC accumulators before Ok is returned" if ok_acc else "mac_multiply can return Ok without accumulating the product into u/w: a tampered product is never checked", site_of(b, acc[0][0]) if acc else site_of(b))
    if acc:
        e = str(flow.expr_of(b, acc[0][1]["args"][0]))
        ctx.ob("WIRE-mul", "accumulate-context", "RandomnessForValidation" in e, "coefficients come from the RandomnessForValidation step", site_of(b, acc[0][0]))
        e2 = flow.expr_of(b, acc[0][1]["args"][2])
        cs = [c[1] for c in malsec.walk_calls(e2)]
        ok_new = any(c.endswith("::new") for c in cs) and sum(1 for c in malsec.walk_calls(e2) if re.search(r"sh_multiply$|semi_honest_multiply$|semi_honest::multiply$", c[1])) >= 1
        ctx.ob("WIRE-mul", "accumulates-the-product", ok_new, "accumulate_macs receives MaliciousReplicated::new(ab, rab)" if ok_new else f"accumulate_macs receives {str(e2)[:120]}", site_of(b, acc[0][0]))
    # Upgradable::upgrade also accumulates
    n = 0
    for body in facts.non_test_bodies():
        if not re.search(r"as protocol::context::upgrade::Upgradable<.*>>::upgrade", body.root) and "Upgradable" not in body.root:
            continue
        if not body.coroutine:
            continue
        mults = flow.find_calls(body, re.compile(r"sh_multiply$|semi_honest_multiply$|semi_honest::multiply$"))
        if not mults:
            continue
        n += 1
        accs = flow.find_calls(body, re.compile(r"accumulate_macs$"))
        d2 = body.dominators()
        oks2 = malsec.ok_blocks(body)
        ok = bool(accs) and all(any(flow.dominates(d2, a, o) for a, _ in accs) for o in oks2)
        ctx.ob("WIRE-mul", f"upgrade-accumulates@{body.root}", ok, "upgrade adds (x, r*x) to the accumulators" if ok else "an upgraded share is returned without being accumulated", site_of(body))
    ctx.floor("WIRE-mul", "Upgradable::upgrade implementations with a multiplication", n, 1)


def wire_acc(ctx, facts):
    ctx.rule("WIRE-acc: MaliciousAccumulator::accumulate_macs multiplies input.rx() and induced(input.x()) by one and the same coefficient, drawn directly from SharedRandomness::generate as a vector (no Expand::expand of a scalar: one independent coefficient per lane)")
    b = facts.bodies.get("protocol::context::validator::MaliciousAccumulator::<F>::accumulate_macs")
    if b is None:
        return ctx.missing("WIRE-acc", "MaliciousAccumulator::accumulate_macs")
    ctx.count(bodies=1)
    dots = flow.find_calls(b, re.compile(r"compute_dot_product_contribution$"))
    ctx.ob("WIRE-acc", "two-contributions", len(dots) == 2, f"{len(dots)} dot-product contributions (u and w)", site_of(b))
    if len(dots) != 2:
        return
    coeffs = [flow.expr_of(b, t["args"][0]) for _, t in dots]
    same = str(coeffs[0]) == str(coeffs[1])
    ctx.ob("WIRE-acc", "same-coefficient", same, "u and w use the same random coefficient" if same else "u and w contributions use different coefficients: T = u - r*w is not zero for honest runs / not binding", site_of(b, dots[0][0]))
    c = coeffs[0]
    cs = [x[1] for x in malsec.walk_calls(c)]
    direct = bool(cs) and cs[0].endswith("SharedRandomness::generate") and not any(x.endswith("Expand::expand") for x in cs)
    ctx.ob("WIRE-acc", "per-lane-coefficient", direct, "coefficient is a vector drawn directly from PRSS (independent per lane)" if direct else "the coefficient is a scalar broadcast over the lanes (expand): deltas that sum to zero across lanes of one record cancel in the MAC check", site_of(b, dots[0][0]))
    # the generated type is the N-lane sharing
    gens = flow.find_calls(b, re.compile(r"SharedRandomness::generate$"))
    okty = False
    for bb, t in gens:
        ga = F.callee(t)[2].get("ga") or []
        if any(", N>" in g and "AdditiveShare" in g for g in ga) or any("ExtendedField" in g and "N" in g for g in ga):
            okty = True
    ctx.ob("WIRE-acc", "coefficient-type-is-vector", okty, "PRSS value is generated as Replicated<ExtendedField, N>" if okty else f"PRSS value type is {[ (F.callee(t)[2].get('ga') or [])[:2] for _, t in gens]}", site_of(b, gens[0][0]) if gens else site_of(b))
    others = [str(flow.expr_of(b, t["args"][1])) for _, t in dots]
    okx = any("::rx" in o for o in others) and any("induced" in o for o in others)
    ctx.ob("WIRE-acc", "operands", okx, "contributions are coefficient*rx and coefficient*induced(x)", site_of(b, dots[0][0]))
    # u and w are updated from these contributions
    wr = {}
    for fld in ("u", "w"):
        ws = [x for x in flow.field_writes(facts, fld, r"MaliciousAccumulator<|AccumulatorState<") if x[0].path == b.path]
        wr[fld] = ws
    okuw = all(len(wr[f]) >= 1 for f in ("u", "w")) or len(flow.find_calls(b, re.compile(r"AddAssign::add_assign$"))) >= 2
    ctx.ob("WIRE-acc", "updates-u-and-w", okuw, "both accumulators are updated", site_of(b))


def affine_ids(ctx, facts):
    ctx.rule("AFFINE-ids: the record ids {u,w,r_share}_record(offset, total), evaluated from their extracted expressions for offsets 0..32 with the `total` constant of each call-site group, are pairwise distinct across functions and offsets (no PRSS value / channel record is used twice across consecutive batches)")
    from rules.C13 import ieval, NoEval
    base = "protocol::context::validator::Malicious::<'a, F, B>::"
    exprs = {}
    for name in ("u_record", "w_record", "r_share_record"):
        b = facts.bodies.get(base + name)
        if b is None:
            ctx.missing("AFFINE-ids", base + name)
            continue
        e = None
        for bb, t in b.calls():
            if (F.callee(t)[0] or "").endswith("From::from") and t["d"] == [0]:
                e = flow.expr_of(b, t["args"][0], max_depth=12)
        okv = False
        if e is not None:
            try:
                ieval(e, {("arg", 1): 3, ("arg", 2): 5})
                okv = True
            except NoEval:
                okv = False
        ctx.ob("AFFINE-ids", f"shape:{name}", okv, f"{name}(offset, total) is an integer expression of its two parameters" if okv else f"{name} cannot be evaluated as a function of (offset, total): {str(e)[:120]}", site_of(b))
        if okv:
            exprs[name] = e
    ctx.ob("AFFINE-ids", "distinct-constants", len(exprs) == 3, "three record-id families")
    # call sites: (function, total)
    n = 0
    for body in facts.non_test_bodies():
        if not body.root.startswith("protocol::context::validator::Malicious"):
            continue
        totals = {}
        for bb, t in body.calls():
            fn = F.callee(t)[0] or ""
            for name in exprs:
                if fn.endswith("::" + name):
                    tot = F.const_int(t["args"][1])
                    totals.setdefault(tot, []).append((name, bb))
        for tot, uses in totals.items():
            n += 1
            names = sorted(set(nm for nm, _ in uses))
            bad = None
            if tot is None:
                bad = "`total` is not a constant at this call site"
            else:
                seen = {}
                for nm in names:
                    for off in range(0, 33):
                        v = ieval(exprs[nm], {("arg", 1): off, ("arg", 2): tot})
                        if v in seen and bad is None:
                            bad = f"{nm}(offset {off}) and {seen[v][0]}(offset {seen[v][1]}) are the same record id {v} with total={tot}: record ids of different families / consecutive batches collide (PRSS value / channel record reused)"
                        seen.setdefault(v, (nm, off))
            ctx.ob("AFFINE-ids", f"total@{body.root}", bad is None, f"total={tot}: ids of {names} are pairwise distinct for offsets 0..32" if bad is None else bad, site_of(body, uses[0][1]))
    ctx.floor("AFFINE-ids", "call-site groups", n, 2)


# ---------------------------------------------------------------------------------------------
def fresh_key(ctx, facts):
    """Validating a batch opens r*v and with it, to a cheating helper, effectively r itself: every batch needs its own r."""
    ctx.rule("FRESH-r: wherever a `Malicious` validator (one per validation batch) is constructed, its MAC key r_share is drawn there from PRSS at an index that is a function of the batch offset stored in the same instance (never a value handed in or cloned across batches); u and w masks likewise; the batch constructor handed to the Batcher passes its batch index as that offset")
    n = 0
    for b in sorted(facts.non_test_bodies(), key=lambda x: x.path):
        for bb, idx, s in b.iter_assigns():
            r = s["r"]
            if not (r["k"] == "agg" and (r.get("adt") or "").endswith("context::validator::Malicious")):
                continue
            n += 1
            names = [f["name"] for f in facts.adts[r["adt"]]["variants"][0]["fields"]]
            ops = {nm: flow.expr_of(b, o, max_depth=12) for nm, o in zip(names, r["ops"])}
            off = ops.get("offset")
            rs = ops.get("r_share")
            ok, why = False, "the validator has no r_share / offset field"
            if off is not None and rs is not None:
                src = malsec.value_source(rs, r"SharedRandomness::generate$")
                if src is None and rs[0] == "arg" and len(rs) == 2 and off[0] == "arg" and len(off) == 2:
                    # handed in: then every caller must draw it per batch, next to the offset it passes
                    sites = [(cb, cbb, ct) for cb in facts.non_test_bodies() for cbb, ct in cb.calls() if (F.callee(ct)[0] or "") == b.path]
                    good = bool(sites)
                    for cb, cbb, ct in sites:
                        ra = flow.expr_of(cb, ct["args"][rs[1] - 1], max_depth=12)
                        oa = flow.expr_of(cb, ct["args"][off[1] - 1], max_depth=6)
                        rsrc = malsec.value_source(ra, r"SharedRandomness::generate$")
                        if rsrc is None or str(oa) not in str(rsrc[2][1]) or oa[0] not in ("arg",):
                            good = False
                    ok = good
                    why = "r_share is drawn by each caller from PRSS at an index depending on the batch offset it passes" if ok else "r_share is handed to the validator's constructor and at least one caller does not draw it from PRSS per batch offset (the same r would protect several batches, and it is revealed by the first validation)"
                elif src is None:
                    why = f"r_share is {str(rs)[:80]}: not drawn from PRSS where the batch's validator is built (the same r would protect several batches, and it is revealed by the first validation)"
                else:
                    index = src[2][1]
                    dep = str(off) in str(index)
                    ok = dep
                    why = "r_share = prss.generate(index(offset)) with this instance's own offset" if ok else "the PRSS index of r_share does not depend on the batch offset: every batch gets the same r"
            ctx.ob("FRESH-r", f"r-per-batch@{b.path.split('::')[-1]}", ok, why, site_of(b, bb, idx))
            acc = str(ops.get("accumulator"))
            oku = off is not None and acc.count("SharedRandomness::zero") >= 2 and acc.count(str(off)) >= 2
            ctx.ob("FRESH-r", f"u-w-per-batch@{b.path.split('::')[-1]}", oku, "u and w start from PRSS zero-shares indexed by the offset" if oku else "u / w are not initialised from per-batch PRSS zero shares", site_of(b, bb, idx))
    ctx.floor("FRESH-r", "Malicious validator construction sites", n, 1)
    # the Batcher's constructor closure: |batch_index| Malicious::new(ctx, batch_index)
    hit = False
    for b in facts.non_test_bodies():
        if b.kind != "Closure":
            continue
        for bb, t in b.calls():
            fn = F.callee(t)[0] or ""
            if fn.endswith("validator::Malicious::<'a, F, B>::new"):
                hit = True
                a = flow.expr_of(b, t["args"][1], max_depth=6)
                okb = a == ("arg", 2)
                ctx.ob("FRESH-r", "batch-constructor-passes-its-index", okb, "Malicious::new(ctx, batch_index, ..)" if okb else "the per-batch constructor does not pass its own batch index as the validator's offset", site_of(b, bb))
    if not hit:
        ctx.missing("FRESH-r", "closure calling Malicious::new(ctx, batch_index)")


# ---------------------------------------------------------------------------------------------
def linear_ops(ctx, facts, rule="LINEAR-mac", P="secret_sharing::replicated::malicious::additive_share::AdditiveShare", comps=("x", "rx"), lift=True, floor=12):
    """A MAC-protected share is the pair (x, r*x).  Linear operations keep that relation only if the same operation is
    applied to both components (and a public factor is lifted to the extended field for the rx component)."""
    c0, c1 = comps
    ctx.rule(f"{rule}: every std::ops impl on {P.split('::')[-3]}::AdditiveShare (Add, Sub, Neg, Not, Mul by a public value, and the *Assign forms) either forwards its whole operands to the same operator, or applies that very operator twice: to the .{c0} components and to the .{c1} components" + (" (for Mul: x * c and rx * to_extended(c))" if lift else " (for Mul: both times the same public factor)") + ", each result stored in its own component")
    n = 0
    for path, b in sorted(facts.bodies.items()):
        m = re.search(r" as std::ops::(Add|Sub|Neg|Not|Mul|AddAssign|SubAssign)(<.*>)?>::(\w+)$", path)
        if not m or P not in path.split(" as ")[0] or facts.is_test_path(path):
            continue
        n += 1
        ctx.count(bodies=1)
        tr, meth = m.group(1), m.group(3)
        calls = [(F.callee(t)[0] or "", [flow.expr_of(b, a, max_depth=6) for a in t["args"]]) for bb, t in b.calls()]
        ops = [(fn, a) for fn, a in calls if re.search(r"std::ops::(Add|Sub|Neg|Not|Mul|AddAssign|SubAssign)::\w+$", fn)]
        same = [1 for fn, a in ops if fn.endswith(f"std::ops::{tr}::{meth}")]
        inst = path.split(" as ")[0].lstrip("<")[:1].replace("s", "owned").replace("&", "ref") + ":" + tr + (m.group(2) or "")[:30]
        inst = f"{tr}{'(&self)' if path.startswith('<&') else ''}{(m.group(2) or '')[:40]}"
        def peel(e):
            while e[0] == "call" and e[1].endswith("Clone::clone"):
                e = e[2][0]
            return e
        def comp(e):
            e = peel(e)
            return str(e[2]) if e[0] == "arg" and len(e) == 3 else None
        ok, why = False, ""
        if len(ops) == 1 and len(same) == 1 and all(a[0] == "arg" and len(a) == 2 for a in ops[0][1]):
            ok, why = True, "forwards its operands to the same operator"
        elif len(ops) == 2 and len(same) == 2:
            sides = []
            for fn, a in ops:
                c = [comp(x) for x in a if comp(x) is not None]
                other = [x for x in a if comp(x) is None]
                sides.append((c, other))
            cx = [c for c, o in sides]
            okc = sorted(map(tuple, cx)) in (sorted([(c0, c0), (c1, c1)]), sorted([(c0,), (c1,)]))
            okm = True
            if tr == "Mul":
                for c, o in sides:
                    if lift and c == [c1]:
                        okm = okm and len(o) == 1 and "to_extended" in str(o[0])
                    else:
                        okm = okm and len(o) == 1 and peel(o[0]) == ("arg", 2)
            okagg = True
            for bb, idx, s in b.iter_assigns():
                r = s["r"]
                if r["k"] == "agg" and (r.get("adt") or "") == P:
                    names = [f["name"] for f in facts.adts[r["adt"]]["variants"][0]["fields"]]
                    for nm, o in zip(names, r["ops"]):
                        e = flow.expr_of(b, o, max_depth=6)
                        inner = [comp(x) for x in (e[2] if e[0] == "call" else ()) if isinstance(x, tuple) and comp(x) is not None]
                        if str(nm) in comps and inner and set(inner) != {str(nm)}:
                            okagg = False
            ok = okc and okm and okagg
            why = f"the operator is applied to ({c0}, {c0}) and to ({c1}, {c1}); results stored component-wise" if ok else (f"the two component operations do not pair .{c0} with .{c0} and .{c1} with .{c1}" if not okc else ("the public factor is not applied to both components (lifted with to_extended for rx)" if not okm else "a component result is stored in the other field"))
        else:
            why = f"{len(ops)} operator call(s), {len(same)} of them {tr}::{meth}: a component is combined with a different operation (e.g. `+=` on one component of a subtraction): the two components no longer move together (for a MAC share rx = r*x breaks; for a replicated share the neighbours disagree)"
        ctx.ob(rule, inst, ok, why, site_of(b))
    ctx.floor(rule, f"operator impls on {P.split('::')[-3]}::AdditiveShare", n, floor)
