"""C01  Hybrid attribution result equals the in-the-clear reference.

The equality of the MPC histogram with the plaintext reference over all inputs is numerical and NOT decided.
Decided statically are the structural clauses of the statement that live in the code shape (DESIGN.md §3/C01):

  TABLE-match   "a match key that occurs in exactly two reports adds ..., every other match key contributes nothing":
                MatchEntry::add_report is the transition table Single->Pair(old, new), Pair->MoreThanTwo,
                MoreThanTwo->MoreThanTwo, and into_pair yields Some([r1, r2]) exactly for Pair.
  GROUP         group_report_pairs_ordered keys an ordered map (BTreeMap: the same pair order on all three helpers) by
                the report's own match_key, inserts Single(report) for a new key and add_report(report) otherwise, and
                returns into_values().filter_map(into_pair) with no other filtering.
  WIRE-agg      for a pair the breakdown key is integer_add(r0.breakdown_key, r1.breakdown_key) under step AddBK and
                the value integer_add(r0.value, r1.value) under step AddV (sums wrap: the carry is dropped), both with the
                pair's index as record id, and they are stored in the fields of the same name.
  ORDER-pipeline hybrid_protocol runs pad -> shuffle -> PRF+reshard -> aggregate pairs -> breakdown reveal+aggregate ->
                cross-shard finalize -> (leader) DP noise, each stage consuming the previous stage's output.
  SAT-merge     "each bucket total saturates at the output width ... for any number of shards": the cross-shard merge of
                histograms (Histogram::merge, used by finalize) is the saturating addition of the two value vectors,
                stored back into self.values - a wrapping add makes the result the per-shard totals modulo 2^width.
  COLLECTIVE    every return of hybrid_protocol passes through each cross-shard collective (sharded shuffle, reshard,
                finalize): a shard that returns early on a shard-local condition leaves the other shards waiting.
"""
import os, re
from vlib import facts as F, flow
from vlib.core import site_of
from rules import malsec
from rules.C17 import variant_arms

LEVEL = "other"
EXPLANATION = ("C01: structural clauses only - pair-grouping transition table, grouping map discipline, pair-sum wiring, pipeline stage order "
               "and collective participation. The numerical equality with the plaintext reference is not decided.")

AGG = "protocol::hybrid::agg::"
ME = AGG + "MatchEntry::<BK, V>::"


def run(ctx):
    facts = ctx.facts()
    table_match(ctx, facts)
    group(ctx, facts)
    wire_agg(ctx, facts)
    pipeline(ctx, facts)
    collective_inner(ctx, facts)
    collective_stages(ctx, facts)
    sat_merge(ctx, facts)
    partial_nonzero(ctx, facts)
    chunk_cover(ctx, facts)
    prf_wiring(ctx, facts)
    from rules import C07, C11
    C07.aggregate(ctx, facts)        # bucket aggregation: grow by the carry while narrower than the output, then saturate
    C11.input_bound(ctx, facts)      # every report of the shard's input is read (size handed through, single take)
    ctx.assume("integer_add / sharded shuffle / OPRF / breakdown-reveal aggregation compute what their names say (C07, C05, C19 and the not-decided numerical part)")
    ctx.assume("end-to-end equality of the histogram with the plaintext reference is not decided")


# ---------------------------------------------------------------------------------------------
def table_match(ctx, facts):
    ctx.rule("TABLE-match: add_report maps Single->Pair(clone(old), new), Pair->MoreThanTwo, MoreThanTwo->MoreThanTwo; into_pair returns Some([p.0, p.1]) on Pair and None otherwise")
    b = facts.bodies.get(ME + "add_report")
    if b is None:
        ctx.missing("TABLE-match", "MatchEntry::add_report")
    else:
        ctx.count(bodies=1)
        arms = [a for a in variant_arms(b, AGG + "MatchEntry", facts)]
        arms = [a for a in arms if a[1][0] == 1]
        if not arms:
            ctx.missing("TABLE-match", "match on *self in add_report")
        else:
            sbb, pl, arm = arms[0]
            want = {"Single": "Pair", "Pair": "MoreThanTwo", "MoreThanTwo": "MoreThanTwo"}
            # writes `*self = <agg>`
            writes = []
            for bb, idx, s in b.iter_assigns():
                if s["p"] == [1, "*"] and s["r"]["k"] == "use":
                    e = flow.expr_of(b, s["r"]["o"], max_depth=30)
                    es = flow.strip_casts(e)
                    if es[0] == "place" and len(es) == 2:
                        # `let next = match self { .. }; *self = next;`: the state written is the one each arm defined
                        for dbb, didx, d in b.defs().get(es[1], []):
                            if didx != "t" and d["k"] == "agg":
                                vn = d.get("vn")
                                ops_ = tuple(flow.expr_of(b, o, max_depth=30) for o in d.get("ops", []))
                                writes.append((dbb, didx, ("agg", (d.get("adt"), vn), ops_)))
                            elif didx != "t" and d["k"] == "use":
                                writes.append((dbb, didx, flow.expr_of(b, d["o"], max_depth=30)))
                    else:
                        writes.append((bb, idx, e))
            for frm, to in want.items():
                tgt = arm.get(frm)
                got = set()
                pay = None
                if tgt is not None:
                    reach = b.reachable(tgt)
                    for bb, idx, e in writes:
                        if bb in reach and e[0] == "agg" and isinstance(e[1], tuple):
                            # the write must be on this arm only if dominated, or shared by arms (join block)
                            got.add(e[1][1])
                            if e[1][1] == "Pair":
                                pay = e[2]
                    # paths of this arm: restrict to writes reachable without passing another arm's private blocks
                    others = [t for n, t in arm.items() if n != frm and t != tgt]
                    private = b.reachable(tgt, avoid=frozenset(others))
                    got = {e[1][1] for bb, idx, e in writes if bb in private and e[0] == "agg" and isinstance(e[1], tuple)}
                if not got:
                    got = {frm}          # no write on this arm: the entry keeps its state
                ok = got == {to}
                ctx.ob("TABLE-match", f"add_report:{frm}->{to}", ok, f"{frm} + report => {to}" if ok else f"{frm} + report => {sorted(got) or 'unchanged'} (expected {to}): match keys seen {'twice' if frm == 'Single' else 'more than twice'} are grouped wrongly", site_of(b, tgt) if tgt is not None else site_of(b))
            # payload of Pair: (clone of the old Single payload, the new report)
            okp = False
            for bb, idx, e in writes:
                if e[0] == "agg" and isinstance(e[1], tuple) and e[1][1] == "Pair" and len(e[2]) == 2:
                    a0, a1 = str(e[2][0]), e[2][1]
                    okp = "Clone::clone" in a0 and "Single" in a0 and flow.strip_casts(a1) == ("arg", 2)
            ctx.ob("TABLE-match", "add_report:pair-is-(old,new)", okp, "Pair(old report, new report)" if okp else "the Pair built from a Single does not consist of the stored report and the new one", site_of(b))
    b = facts.bodies.get(ME + "into_pair")
    if b is None:
        ctx.missing("TABLE-match", "MatchEntry::into_pair")
        return
    ctx.count(bodies=1)
    arms = variant_arms(b, AGG + "MatchEntry", facts)
    somes = [(bb, flow.expr_of(b, s["r"]["ops"][0], max_depth=20)) for bb, idx, s in b.iter_assigns() if s["r"]["k"] == "agg" and s["r"].get("adt") == "std::option::Option" and s["r"].get("vn") == "Some"]
    if not arms or not somes:
        ctx.missing("TABLE-match", "into_pair: match / Some")
        return
    dom = b.dominators()
    arm = arms[0][2]
    ok = all(arm.get("Pair") is not None and flow.dominates(dom, arm["Pair"], bb) for bb, e in somes)
    for n, t in arm.items():
        if n != "Pair" and t != arm.get("Pair") and any(bb in b.reachable(t) for bb, e in somes):
            ok = False
    ctx.ob("TABLE-match", "into_pair:some-iff-pair", ok, "only a Pair yields a pair" if ok else "into_pair yields Some for an entry that is not exactly a Pair (single or over-represented match keys contribute)", site_of(b, somes[0][0]))
    e = somes[0][1]
    oko = e[0] == "agg" and len(e[2]) == 2 and "'Pair', '0')" in str(e[2][0]).replace('"', "'") or (e[0] == "agg" and len(e[2]) == 2 and str(e[2][0]).endswith("'0')") and str(e[2][1]).endswith("'1')"))
    ctx.ob("TABLE-match", "into_pair:both-reports", bool(oko), "[first, second] of the Pair" if oko else "the returned array is not [pair.0, pair.1]", site_of(b, somes[0][0]))


# ---------------------------------------------------------------------------------------------
def group(ctx, facts):
    ctx.rule("GROUP: BTreeMap keyed by report.match_key; .entry(key).and_modify(|e| e.add_report(report.into())).or_insert(Single(report.into())); result = into_values().filter_map(into_pair).collect()")
    b = facts.bodies.get(AGG + "group_report_pairs_ordered")
    if b is None:
        ctx.missing("GROUP", "group_report_pairs_ordered")
        return
    ctx.count(bodies=1)
    calls = {(F.callee(t)[0] or ""): (bb, t) for bb, t in b.calls()}
    def find(rx):
        return [(bb, t) for bb, t in b.calls() if re.search(rx, F.callee(t)[0] or "")]
    mp = find(r"collections::(BTreeMap|HashMap|IndexMap)::<K, V(, S)?>::new$|::with_capacity$")
    okm = any("BTreeMap" in (F.callee(t)[0] or "") for bb, t in mp)
    ctx.ob("GROUP", "ordered-map", okm, "pairs come out in match-key order on every helper" if okm else "the grouping map is not a BTreeMap: iteration order differs between helpers, so record i is a different pair on each helper", site_of(b))
    en = find(r"BTreeMap::<K, V, A>::entry$")
    item = "<no loop item>"
    oke = False
    if len(en) == 1:
        ke = flow.strip_casts(flow.expr_of(b, en[0][1]["args"][1], max_depth=30))
        # key = <loop item>.match_key, where the loop item comes from iterating the function's input
        if ke[0] == "proj" and ke[-1] == "match_key" and "Iterator::next" in str(ke[1]) and "('arg', 1)" in str(ke[1]):
            item = str(ke[1])
            oke = True
    ctx.ob("GROUP", "keyed-by-match_key", oke, "entry(report.match_key)" if oke else "the map is not keyed by the report's own match_key", site_of(b, en[0][0]) if en else site_of(b))
    am = find(r"Entry::<'a, K, V, A>::and_modify$")
    oi = find(r"Entry::<'a, K, V, A>::or_insert(_with)?$")
    oka = False
    if len(am) == 1:
        clo = [c for c in facts.tree(b.root) if c.path != b.path]
        for c in clo:
            for bb, t in c.calls():
                if (F.callee(t)[0] or "") == ME + "add_report":
                    a = str(flow.expr_of(c, t["args"][1], max_depth=20))
                    oka = re.search(r"\('upvar', '\w+'\)", a) is not None and flow.expr_of(c, t["args"][0]) == ("arg", 2)
        oka = oka and item in str(flow.expr_of(b, am[0][1]["args"][1], max_depth=30))
    if not am:
        # explicit `match map.entry(key) { Occupied(e) => e.get_mut().add_report(report.into()), Vacant(v) => v.insert(Single(report.into())) }`
        for bb, t in b.calls():
            if (F.callee(t)[0] or "") == ME + "add_report":
                recv = str(flow.expr_of(b, t["args"][0], max_depth=12))
                a = str(flow.expr_of(b, t["args"][1], max_depth=30))
                oka = ("OccupiedEntry" in recv and re.search(r"get_mut|into_mut", recv) is not None and "BTreeMap::<K, V, A>::entry" in recv) and item in a
    ctx.ob("GROUP", "existing-key:add_report(report)", oka, "a repeated key goes through add_report with this report" if oka else "a repeated match key is not handled by add_report(this report)", site_of(b, am[0][0]) if am else site_of(b))
    oko = False
    if len(oi) == 1:
        e = flow.expr_of(b, oi[0][1]["args"][1], max_depth=30)
        oko = e[0] == "agg" and isinstance(e[1], tuple) and e[1][1] == "Single" and item in str(e[2][0]) and "and_modify" in str(flow.expr_of(b, oi[0][1]["args"][0], max_depth=30))
    if not oi:
        vi = find(r"VacantEntry::<'a, K, V, A>::insert(_entry)?$")
        if len(vi) == 1:
            e = flow.expr_of(b, vi[0][1]["args"][1], max_depth=30)
            oko = e[0] == "agg" and isinstance(e[1], tuple) and e[1][1] == "Single" and item in str(e[2][0]) and "BTreeMap::<K, V, A>::entry" in str(flow.expr_of(b, vi[0][1]["args"][0], max_depth=12))
            oi = vi
    ctx.ob("GROUP", "new-key:Single(report)", oko, "a new key starts as Single(report)" if oko else "a new match key is not inserted as Single(this report)", site_of(b, oi[0][0]) if oi else site_of(b))
    ret = str(flow.expr_of(b, {"cp": [0]}, max_depth=30))
    fm = find(r"Iterator::filter_map$")
    okr = len(fm) == 1 and str(flow.expr_of(b, fm[0][1]["args"][1])) == "('fn', '%s')" % (ME + "into_pair") and "into_values" in str(flow.expr_of(b, fm[0][1]["args"][0], max_depth=20)) and ret.startswith("('call', 'std::iter::Iterator::collect', (('call', 'std::iter::Iterator::filter_map'")
    extra = [F.callee(t)[0] for bb, t in b.calls() if re.search(r"Iterator::(filter|take|skip|step_by|rev|take_while|skip_while|dedup|chain)$", F.callee(t)[0] or "")]
    ctx.ob("GROUP", "result:all-pairs", okr and not extra, "every Pair entry, and nothing else, is returned" if okr and not extra else "the result is not into_values().filter_map(into_pair).collect() (pairs dropped, reordered or extra filtering)", site_of(b, fm[0][0]) if fm else site_of(b))


# ---------------------------------------------------------------------------------------------
def wire_agg(ctx, facts):
    ctx.rule("WIRE-agg: in aggregate_reports' per-pair future: integer_add(narrow(AddBK), idx, r[0].breakdown_key.to_bits(), r[1].breakdown_key.to_bits()) feeds field breakdown_key and integer_add(narrow(AddV), idx, r[0].value.to_bits(), r[1].value.to_bits()) feeds field value")
    bodies = [c for c in facts.tree(AGG + "aggregate_reports") if c.coroutine and any((F.callee(t)[0] or "").endswith("addition_sequential::integer_add") for bb, t in c.calls())]
    if not bodies:
        ctx.missing("WIRE-agg", "per-pair future of aggregate_reports")
        return
    b = bodies[0]
    ctx.count(bodies=1)
    adds = [(bb, t) for bb, t in b.calls() if (F.callee(t)[0] or "").endswith("addition_sequential::integer_add")]
    ctx.ob("WIRE-agg", "two-additions", len(adds) == 2, f"{len(adds)} integer_add calls per pair", site_of(b))
    by_field = {}
    for bb, t in adds:
        a = [flow.expr_of(b, x, max_depth=40) for x in t["args"]]
        step = re.search(r"AggregateReportsStep', '(\w+)'", str(a[0]))
        f0 = re.findall(r"'(breakdown_key|value)'", str(a[2]))
        f1 = re.findall(r"'(breakdown_key|value)'", str(a[3]))
        i0 = index_const(b, t["args"][2])
        i1 = index_const(b, t["args"][3])
        # the pair may be destructured in the closure head (`|(idx, [first, second])|`): each captured field then is its
        # own captured variable, whose place in the enclosing closure says which report and which field it is
        if not f0 or not f1 or "?" in (i0, i1):
            c0, c1 = captured_component(facts, b, a[2]), captured_component(facts, b, a[3])
            if c0 and c1:
                (f0, i0), (f1, i1) = ([c0[0]], c0[1]), ([c1[0]], c1[1])
        # record id: the enumeration index (component 0 of the closure's parameter), not a name
        rid_src = flow.strip_casts(a[1])
        while rid_src[0] == "call" and re.search(r"(Into::into|From::from)$", rid_src[1]):
            rid_src = flow.strip_casts(rid_src[2][0])
        rid_ok = False
        if rid_src[0] == "upvar":
            from rules.C06 import upvar_sources
            par_ = facts.bodies.get(b.path.rsplit("::{closure", 1)[0])
            src_ = flow.strip_casts(upvar_sources(facts, par_, b.path).get(rid_src[1], ("?",))) if par_ is not None else ("?",)
            rid_ok = src_[:2] == ("arg", 2) and src_[2:] in ((0,), ("0",))
        by_field[(step.group(1) if step else "?")] = (f0, f1, i0, i1, "idx" if rid_ok else str(a[1]), bb)
    for step, fld in (("AddBK", "breakdown_key"), ("AddV", "value")):
        v = by_field.get(step)
        ok = v is not None and v[0] == [fld] and v[1] == [fld] and {v[2], v[3]} == {"0", "1"} and v[4] == "idx"
        ctx.ob("WIRE-agg", f"{step}:adds-{fld}-of-both-reports", ok, f"{fld}(r0) + {fld}(r1), record id = pair index" if ok else f"step {step} does not add the {fld} fields of the two reports of the pair (got {v[:5] if v else None})", site_of(b, v[5]) if v else site_of(b))
    # result struct fields
    okf = False
    for bb, idx, s in b.iter_assigns():
        r = s["r"]
        if r["k"] == "agg" and (r.get("adt") or "").endswith("IndistinguishableHybridReport") or (r["k"] == "agg" and "HybridReport" in (r.get("adt") or "")):
            adt = facts.adts.get(r["adt"])
            names = [f["name"] for f in adt["variants"][0]["fields"]] if adt else []
            vals = {n: str(flow.expr_of(b, o, max_depth=60)) for n, o in zip(names, r["ops"])}
            if "breakdown_key" in vals and "value" in vals:
                okf = "'AddBK'" in vals["breakdown_key"] and "'AddV'" not in vals["breakdown_key"] and "'AddV'" in vals["value"] and "'AddBK'" not in vals["value"] and "collect_bits" in vals["breakdown_key"] and "collect_bits" in vals["value"]
    ctx.ob("WIRE-agg", "result-fields", okf, "breakdown_key <- AddBK sum, value <- AddV sum" if okf else "the aggregated report's fields are not fed by the sums of the same name (breakdown key and value swapped or one reused)", site_of(b))


def captured_component(facts, b, e):
    """(field name, constant index) of a captured variable that is `<pair parameter>[k].<field>` in the enclosing closure"""
    e = flow.strip_casts(e)
    while e[0] == "call" and e[2]:
        e = flow.strip_casts(e[2][0])
    if e[0] != "upvar":
        return None
    parent = facts.bodies.get(b.path.rsplit("::{closure", 1)[0])
    if parent is None:
        return None
    for bb, idx, s_ in parent.iter_assigns():
        r = s_["r"]
        if r["k"] == "agg" and r.get("def") == b.path:
            for i, o in enumerate(r["ops"]):
                if flow.upvar_name(b, i) == e[1]:
                    pl = F.op_place(o)
                    if pl is None:
                        return None
                    # expand the base local through the copies / borrows that bound it (`let first = pair[0]`)
                    projs = list(pl[1:])
                    base_l = pl[0]
                    for _ in range(6):
                        ds = parent.defs().get(base_l, [])
                        if len(ds) != 1 or ds[0][1] == "t":
                            break
                        d = ds[0][2]
                        src = d.get("p") if d["k"] in ("ref", "raw", "cfd") else (F.op_place(d["o"]) if d["k"] == "use" else None)
                        if not src:
                            break
                        projs = list(src[1:]) + projs
                        base_l = src[0]
                    ci = [x for x in projs if isinstance(x, list) and x[0] == "ci"]
                    fl = [x for x in projs if isinstance(x, list) and x[0] == "f" and len(x) > 2 and x[2]]
                    if ci and fl and base_l == 2:
                        return fl[-1][2], str(ci[0][1])
    return None


def index_const(b, op, depth=0):
    """constant index of the `[i]` projection on the place an operand was borrowed / derived from ("?" if none)"""
    if depth > 8:
        return "?"
    pl = F.op_place(op)
    if pl is None:
        return "?"
    for x in pl[1:]:
        if isinstance(x, list) and x[0] == "i":
            e = flow.fold(flow.strip_casts(flow.expr_of(b, {"cp": [x[1]]})))
            return str(e[1]) if e[0] == "const" else "?"
        if isinstance(x, list) and x[0] == "ci":
            return str(x[1])
    if len(pl) >= 1:
        for bb, idx, d in b.defs().get(pl[0], []):
            if idx == "t":
                if d["k"] == "call" and d["args"]:
                    r = index_const(b, d["args"][0], depth + 1)
                    if r != "?":
                        return r
            elif d["k"] in ("ref", "raw", "cfd"):
                r = index_const(b, {"cp": d["p"]}, depth + 1)
                if r != "?":
                    return r
            elif d["k"] == "use":
                r = index_const(b, d["o"], depth + 1)
                if r != "?":
                    return r
    return "?"


# ---------------------------------------------------------------------------------------------
STAGES = [
    ("pad", r"oprf_padding::apply_dp_padding$"),
    ("shuffle", r"ShardedShuffle::sharded_shuffle$|shuffle::sharded::\w+::sharded_shuffle$|sharded_shuffle$"),
    ("prf+reshard", r"hybrid::oprf::compute_prf_and_reshard$"),
    ("aggregate-pairs", r"hybrid::agg::aggregate_reports$"),
    ("breakdown-reveal", r"breakdown_reveal::breakdown_reveal_aggregation$"),
    ("finalize", r"FinalizerContext::finalize$|shard_fin::\w+::finalize$"),
]
COLLECTIVES = ("shuffle", "prf+reshard", "finalize")


def pipeline(ctx, facts):
    ctx.rule("ORDER-pipeline: the six stage calls of hybrid_protocol are settled (awaited, `?`-propagated) in the documented order and each consumes the previous stage's output; COLLECTIVE: no return of Ok is reachable without passing the cross-shard collectives")
    b = malsec.async_body(facts, "protocol::hybrid::hybrid_protocol")
    if b is None:
        ctx.missing("ORDER-pipeline", "hybrid_protocol")
        return
    ctx.count(bodies=1)
    dom = b.dominators()
    at = {}
    for name, rx in STAGES:
        cs = flow.find_calls(b, re.compile(rx))
        if len(cs) != 1:
            ctx.missing("ORDER-pipeline", f"stage `{name}` (found {len(cs)} calls)")
            return
        st = flow.settled(b, cs[0][0])
        at[name] = (cs[0][0], cs[0][1], st)
        ok = st is not None and st["q"] is not None
        ctx.ob("ORDER-pipeline", f"{name}:awaited-and-propagated", ok, "stage is awaited and its error propagated" if ok else f"stage `{name}` is not awaited with `?`", site_of(b, cs[0][0]))
    order = [n for n, _ in STAGES]
    for a, c in zip(order, order[1:]):
        sa, sc = at[a], at[c]
        ok = sa[2] is not None and sa[2]["q"] is not None and flow.dominates(dom, sa[2]["q"][1], sc[0])
        ctx.ob("ORDER-pipeline", f"{a}-before-{c}", ok, f"{c} starts only after {a} succeeded" if ok else f"stage `{c}` can start before stage `{a}` has completed successfully", site_of(b, sc[0]))
        # data flow: some argument of c derives from a's call
        src = (F.callee(sa[1])[0] or "").split("::")[-1]
        okd = any(src in str(flow.expr_of(b, x, max_depth=60)) for x in sc[1]["args"])
        ctx.ob("ORDER-pipeline", f"{c}:consumes-{a}", okd, f"{c} works on the output of {a}" if okd else f"stage `{c}` does not take the output of stage `{a}` as input (a stage is bypassed)", site_of(b, sc[0]))
    # COLLECTIVE: Ok returns must be dominated by each collective's success edge
    oks = malsec.ok_blocks(b)
    for name in COLLECTIVES:
        st = at[name][2]
        if st is None or st["q"] is None:
            continue
        early = [bb for bb in oks if not flow.dominates(dom, st["q"][1], bb)]
        if not early:
            ctx.ob("COLLECTIVE", f"every-ok-return-after-{name}", True, f"all shards take part in `{name}`", site_of(b, at[name][0]))
        for bb in early:
            ctx.ob("COLLECTIVE", f"ok-return-skips-{name}@{guard_sig(b, dom, bb)}", False,
                   f"hybrid_protocol can return Ok without taking part in the cross-shard stage `{name}`: a shard that returns early (here under `{guard_sig(b, dom, bb)}`) leaves the other shards of the helper waiting for its messages",
                   site_of(b, bb))


def collective_inner(ctx, facts):
    """The same rule one level down: breakdown_reveal_aggregation runs a sharded shuffle of its own."""
    ctx.rule("COLLECTIVE (breakdown reveal): no Ok return of breakdown_reveal_aggregation is reachable without taking part in its sharded shuffle")
    b = malsec.async_body(facts, "protocol::hybrid::breakdown_reveal::breakdown_reveal_aggregation")
    if b is None:
        return ctx.missing("COLLECTIVE", "breakdown_reveal_aggregation")
    ctx.count(bodies=1)
    dom = b.dominators()
    cs = flow.find_calls(b, re.compile(r"ShardedShuffle::sharded_shuffle$|sharded_shuffle$"))
    if len(cs) != 1:
        return ctx.missing("COLLECTIVE", "sharded_shuffle call in breakdown_reveal_aggregation")
    st = flow.settled(b, cs[0][0])
    if st is None or st["q"] is None:
        return ctx.ob("COLLECTIVE", "breakdown-reveal:shuffle-awaited", False, "the sharded shuffle of the attribution outputs is not awaited with `?`", site_of(b, cs[0][0]))
    early = [bb for bb in malsec.ok_blocks(b) if not flow.dominates(dom, st["q"][1], bb)]
    if not early:
        ctx.ob("COLLECTIVE", "breakdown-reveal:every-ok-return-after-shuffle", True, "all shards take part in the shuffle of the attribution outputs", site_of(b, cs[0][0]))
    for bb in early:
        ctx.ob("COLLECTIVE", f"breakdown-reveal:ok-return-skips-shuffle@{guard_sig(b, dom, bb)}", False,
               f"breakdown_reveal_aggregation can return Ok without taking part in the sharded shuffle of the attribution outputs: a shard on which no match key occurred exactly twice (here under `{guard_sig(b, dom, bb)}`) returns at once and the shards that do have attributed pairs wait for its messages",
               site_of(b, bb))


COLLECTIVE_STAGES = [
    # (function, [(tag, callee regex, "any" = one of the matching calls on every success path | "each" = every matching call site)])
    ("protocol::hybrid::oprf::compute_prf_and_reshard", [("reshard", r"reshard_try_stream$", "any")]),
    ("protocol::ipa_prf::shuffle::malicious::malicious_sharded_shuffle", [("shuffle-for-shard", r"::h[123]_shuffle_for_shard$", "any")]),
    ("protocol::ipa_prf::shuffle::sharded::shuffle", [("shuffle-for-shard", r"::h[123]_shuffle_for_shard$", "any")]),
    ("protocol::ipa_prf::shuffle::sharded::h1_shuffle_for_shard", [("step", r"::(mask_and_shuffle|send_all|recv_all|send_word|recv_word)$", "each")]),
    ("protocol::ipa_prf::shuffle::sharded::h2_shuffle_for_shard", [("step", r"::(mask_and_shuffle|send_all|recv_all|send_word|recv_word)$", "each")]),
    ("protocol::ipa_prf::shuffle::sharded::h3_shuffle_for_shard", [("step", r"::(mask_and_shuffle|send_all|recv_all|send_word|recv_word)$", "each")]),
]


def collective_stages(ctx, facts, only=None):
    """The rule once more for the stages underneath: the other shards count on every shard's messages in the resharding
    after the PRF and in every step of the sharded shuffle, whatever that shard holds itself (possibly nothing)."""
    ctx.rule("COLLECTIVE (stages): in compute_prf_and_reshard, malicious_sharded_shuffle / shuffle and h1/h2/h3_shuffle_for_shard no return other than an error return (`?` residual or Err(..)) is reachable from the entry without passing the cross-shard call (reshard_try_stream; the role's shuffle_for_shard; each mask_and_shuffle / send_all / recv_all / send_word / recv_word step)")
    for root, groups in COLLECTIVE_STAGES:
        if only and not re.search(only, root):
            continue
        b = malsec.async_main_body(facts, root)
        short = root.split("::")[-1]
        if b is None:
            ctx.missing("COLLECTIVE", short)
            continue
        ctx.count(bodies=1)
        dom = b.dominators()
        rets = [bb for bb in b.live_blocks() if b.term(bb)["k"] == "ret"]
        errs = {bb for bb, t in b.calls() if re.search(r"FromResidual<.*>>::from_residual$|FromResidual::from_residual$", F.callee(t)[0] or "")} | set(malsec.err_aggs(b, "Err"))
        for tag, rx, mode in groups:
            cs = [bb for bb, t in flow.find_calls(b, re.compile(rx))]
            if not cs:
                ctx.missing("COLLECTIVE", f"{short}: call matching {rx}")
                continue
            ctx.count(calls=len(cs))
            sets = [frozenset(cs)] if mode == "any" else [frozenset([c]) for c in cs]
            for k, av in enumerate(sets):
                reach = b.reachable(0, avoid=frozenset(av | errs))
                esc = [r for r in rets if r in reach]
                name = f"{short}:{tag}" + (f"#{k}" if mode == "each" else "")
                if not esc:
                    ctx.ob("COLLECTIVE", f"{name}:on-every-success-path", True, "every shard takes part", site_of(b, sorted(av)[0]))
                    continue
                # name the escape by the closest guard of the first block from which the call can no longer be reached
                can = {x for x in b.live_blocks() if any(c in b.reachable(x) for c in av)}
                lost = sorted(x for x in reach if x not in can and any(p_ in can for p_ in b.preds(x)))
                sig = guard_sig(b, dom, lost[0]) if lost else "unconditional"
                ctx.ob("COLLECTIVE", f"{name}:success-return-skips@{sig}", False,
                       f"{short} can return successfully without taking part in its cross-shard step ({tag}): a shard on this path (under `{sig}`) leaves while the other shards wait for its messages", site_of(b, lost[0]) if lost else site_of(b))


def guard_sig(b, dom, bb):
    """short, position-free description of the closest switch-edge fact dominating bb"""
    best = None
    for tgt, f in flow.edge_guards(b):
        if flow.dominates(dom, tgt, bb) and (best is None or flow.dominates(dom, best[0], tgt)):
            best = (tgt, f)
    if best is None:
        return "unconditional"
    op, l, r = best[1]
    def sh(e):
        if e is None:
            return ""
        s_ = str(e)
        names = re.findall(r"'(?:upvar|arg)', (?:\d+, )?'(\w+)'", s_)
        calls = re.findall(r"'call', '([^']+)'", s_)
        c = calls[0].split("::")[-1] if calls else ""
        return (c + "(" + ",".join(names[:2]) + ")") if c else (",".join(names[:2]) or s_[:30])
    return f"{op}:{sh(l)}{(' ' + sh(r)) if r is not None else ''}".strip()


def sat_merge(ctx, facts):
    ctx.rule("SAT-merge: <Histogram<HV, B> as ShardAssembledResult>::merge performs exactly one addition, integer_sat_add(self.values, other.values), awaits it with `?` and assigns the result to self.values")
    root = "<protocol::basics::shard_fin::Histogram<HV, B> as protocol::basics::shard_fin::ShardAssembledResult<C>>::merge"
    b = malsec.async_body(facts, root)
    if b is None:
        ctx.missing("SAT-merge", "Histogram::merge")
        return
    ctx.count(bodies=1)
    adds = [(bb, t) for bb, t in b.calls() if re.search(r"addition_sequential::integer_(sat_)?add$|ops::Add::add$|AddAssign::add_assign$", F.callee(t)[0] or "")]
    sat = [(bb, t) for bb, t in adds if (F.callee(t)[0] or "").endswith("integer_sat_add")]
    ok = len(adds) == 1 and len(sat) == 1
    ctx.ob("SAT-merge", "saturating-addition", ok, "shard histograms are merged with integer_sat_add" if ok else "the cross-shard merge does not use (only) the saturating addition: bucket totals that exceed the output width wrap around instead of saturating once more than one shard contributes", site_of(b, adds[0][0]) if adds else site_of(b))
    if not sat:
        return
    bb, t = sat[0]
    # positional: the operands are resolved to the merge fn's own parameters - the `values` field of self (parameter 1)
    # and the `values` field of the other histogram (parameter 4) - whatever the captures are called
    from rules.C06 import upvar_sources
    par = facts.bodies.get(root)
    ups = upvar_sources(facts, par, b.path) if par is not None and par is not b else {}

    def operand(op):
        e = flow.expr_of(b, op, max_depth=20)
        while e[0] in ("ref", "call") and (e[0] == "ref" or (re.search(r"(Clone::clone|Deref::deref|Borrow::borrow)$", e[1]) and e[2])):
            e = e[1] if e[0] == "ref" else e[2][0]
        if e[0] == "upvar":
            base = ups.get(e[1], ("?",))
            return tuple(base) + tuple(e[2:])
        return e
    o2, o3 = operand(t["args"][2]), operand(t["args"][3])
    oko = o2[0] == "arg" and o3[0] == "arg" and o2[-1] == "values" and o3[-1] == "values" and {o2[1], o3[1]} == {1, 4}
    ctx.ob("SAT-merge", "operands", oko, "self.values + other.values" if oko else "the merge does not add the two histograms' value vectors", site_of(b, bb))
    okw = False
    for wbb, idx, st in b.iter_assigns():
        pl = st["p"]
        if len(pl) > 1 and isinstance(pl[-1], list) and pl[-1][0] == "f" and pl[-1][2:] == ["values"] and st["r"]["k"] == "use":
            e = str(flow.expr_of(b, st["r"]["o"], max_depth=40))
            okw = "integer_sat_add" in e and "Try::branch" in e
    ctx.ob("SAT-merge", "result-stored", okw, "self.values = sum" if okw else "the saturated sum is not stored back into self.values (the merge has no effect or stores something else)", site_of(b))


# ---------------------------------------------------------------------------------------------
def partial_nonzero(ctx, facts):
    """Vectorised stages (PRF evaluation, aggregation) process rows in fixed-size chunks; the last chunk says how many
    of its rows are real.  A `Partial(0)` chunk would mean "a chunk with no real rows" and its rows (all of them, if it
    was in fact full) silently vanish from the pipeline: every construction must be behind a guard k != 0."""
    ctx.rule("RANGE-partial: every non-test construction of ChunkType::Partial(k) is dominated by a branch edge that establishes k != 0 for that very expression (k seen through mem::replace(k, _))")
    n = 0
    for b in sorted(facts.non_test_bodies(), key=lambda x: x.path):
        dom = None
        for bb, idx, s in b.iter_assigns():
            r = s["r"]
            if not (r["k"] == "agg" and (r.get("adt") or "").endswith("chunks::ChunkType") and r.get("vn") == "Partial"):
                continue
            n += 1
            dom = dom or b.dominators()
            k = flow.strip_casts(flow.expr_of(b, r["ops"][0], max_depth=12))
            if k[0] == "call" and k[1].endswith("mem::replace"):
                k = flow.strip_casts(k[2][0])
            if k[0] == "const" and isinstance(k[1], int):
                ok = k[1] != 0
            else:
                def nz(f):
                    op, l, rr = f
                    if l == k and rr is not None and rr[0] == "const" and isinstance(rr[1], int):
                        return (op == "Ne" and rr[1] == 0) or (op == "Gt" and rr[1] >= 0) or (op == "Ge" and rr[1] >= 1)
                    if rr == k and l is not None and l[0] == "const" and isinstance(l[1], int):
                        return (op == "Ne" and l[1] == 0) or (op == "Lt" and l[1] >= 0) or (op == "Le" and l[1] >= 1)
                    return False
                ok = flow.holds(b, dom, bb, nz)
            inst = f"{b.path.split('::')[-2] if b.path.endswith('}') else b.path.split('::')[-1]}@{b.path.split('::')[-1]}"
            ctx.ob("RANGE-partial", f"nonzero:{inst}", ok, "Partial(k) only behind k != 0" if ok else f"ChunkType::Partial(k) can be built with k == 0 (k = {str(k)[:120]}): a chunk that is in fact full, or empty, is labelled as holding no valid rows and its rows are dropped without an error", site_of(b, bb, idx))
    ctx.floor("RANGE-partial", "ChunkType::Partial constructions outside tests", n, 3)


# ---------------------------------------------------------------------------------------------
def prf_wiring(ctx, facts):
    """Reports meet on a shard only if every shard evaluates the same PRF on the report's own match key, keeps the
    report's value / breakdown key next to that PRF value, and routes by the PRF value alone."""
    ctx.rule("WIRE-prf: compute_prf_and_reshard converts records[i].match_key; the PRF key comes from the cross-shard PRSS (identical on every shard of a helper) at one fixed record; eval_dy_prf gets (record id = chunk index, that key, the chunk's points); the PRF stream is zipped with the very input rows, in order; PrfHybridReport {match_key: prf, value: input.value, breakdown_key: input.breakdown_key}; the shard picker is report.match_key % shard_count and reads nothing else; channel sizes are ceil(rows / chunk)")
    base = "protocol::hybrid::oprf::compute_prf_and_reshard"
    tree = facts.tree(base)
    main = next((b for b in tree if b.coroutine and flow.find_calls(b, re.compile(r"context::reshard_try_stream$"))), None)
    if main is None:
        return ctx.missing("WIRE-prf", base)
    ctx.count(bodies=len(tree))
    old = flow.CLOSURE_DEFS
    flow.CLOSURE_DEFS = True
    try:
        def closure_arg(b, call, k):
            e = flow.expr_of(b, call[1]["args"][k], max_depth=4)
            return facts.bodies.get(e[1][1]) if e[0] == "agg" and isinstance(e[1], tuple) and e[1][0] == "closure" else None
        # the rows are the function's second parameter, whatever it is called: find the name under which the async body
        # captured it (positional, so that renaming the parameter changes nothing)
        ROWS = "input_rows"
        cur = main
        for _ in range(3):
            parent = facts.bodies.get(cur.path.rsplit("::{closure", 1)[0])
            if parent is None:
                break
            from rules.C06 import upvar_sources
            srcs = upvar_sources(facts, parent, cur.path)
            hit = [nm for nm, ex in srcs.items() if flow.strip_casts(ex) == ("arg", 2)] if parent.path == base else [nm for nm, ex in srcs.items() if flow.strip_casts(ex) == ("upvar", ROWS)]
            if parent.path == base:
                if hit:
                    ROWS = hit[0]
                break
            cur = parent
        # 1. converted match keys
        mk = None
        for b in tree:
            if not b.coroutine and b.kind == "Closure" and len(b.blocks) <= 8:
                r = flow.expr_of(b, {"cp": [0]}, max_depth=8)
                if "match_key" in str(r) and re.search(r"\('upvar', '\w+'\)", str(r)):      # <captured chunk>[i].match_key, whatever the chunk is called
                    mk = (b, r)
        ok1 = False
        if mk:
            src = mk[1]
            while src[0] == "call" and re.search(r"(Clone::clone|Deref::deref|Borrow::borrow)$", src[1]):
                src = src[2][0]
            # records[i].match_key : projection (index by the closure's parameter, then the field) of the chunk
            ok1 = src[0] == "proj" and src[-1] == "match_key" and len(src) == 4 and "'upvar'" in str(src[1]) and mk[0].nargs >= 2
        ctx.ob("WIRE-prf", "converts-own-match-key", ok1, "lane i of the conversion input is records[i].match_key" if ok1 else "the value converted for the PRF is not records[i].match_key", site_of(mk[0]) if mk else site_of(main))
        # 2. PRF key
        gk = facts.bodies.get("protocol::hybrid::oprf::gen_prf_key")
        ok2 = False
        if gk is not None:
            g = flow.find_calls(gk, re.compile(r"SharedRandomness::generate$"))
            ok2 = len(g) == 1 and flow.expr_of(gk, g[0][1]["args"][0], max_depth=4) == ("call", "protocol::context::ShardedContext::cross_shard_prss", (("arg", 1),)) and flow.expr_of(gk, g[0][1]["args"][1])[0] == "const"
        ctx.ob("WIRE-prf", "key-from-cross-shard-prss", ok2, "the PRF key is drawn from cross_shard_prss() at a fixed record id: every shard of a helper holds the same key share" if ok2 else "the PRF key is not drawn from the cross-shard PRSS at a fixed index: shards evaluate different PRFs and equal match keys never meet", site_of(gk) if gk is not None else site_of(main))
        # 3. eval_dy_prf arguments
        ev = [(b, c) for b in tree for c in flow.find_calls(b, re.compile(r"prf_eval::eval_dy_prf$"))]
        ok3 = False
        if len(ev) == 1:
            b, c = ev[0]
            a = [flow.expr_of(b, x, max_depth=6) for x in c[1]["args"]]
            # the key is whatever the enclosing bodies captured from gen_prf_key(..), under any name
            from rules.C06 import upvar_sources
            ksrc, cur_ = a[2], b
            for _ in range(6):
                while ksrc[0] == "call" and re.search(r"(Clone::clone|Deref::deref|Borrow::borrow)$", ksrc[1]) and ksrc[2]:
                    ksrc = ksrc[2][0]
                ksrc = flow.strip_casts(ksrc)
                if ksrc[0] != "upvar":
                    break
                par_ = facts.bodies.get(cur_.path.rsplit("::{closure", 1)[0])
                if par_ is None or par_ is cur_:
                    break
                ksrc, cur_ = upvar_sources(facts, par_, cur_.path).get(ksrc[1], ("?",)), par_
            while ksrc[0] in ("ref", "call") and (ksrc[0] == "ref" or re.search(r"(Clone::clone|Deref::deref|Borrow::borrow)$", ksrc[1])):
                ksrc = ksrc[1] if ksrc[0] == "ref" else ksrc[2][0]
            okk = ksrc[0] == "call" and ksrc[1].endswith("::gen_prf_key")
            if os.environ.get("VERIF_DEBUG_KEY"):
                print("KEYSRC", ksrc)
            ok3 = a[0][0] == "upvar" and a[1][0] == "upvar" and a[2][0] == "upvar" and okk and a[3] == ("arg", 2)
        ctx.ob("WIRE-prf", "eval(ctx, record, key, points)", ok3, "eval_dy_prf(eval_ctx, record_id, prf_key, pts)" if ok3 else "eval_dy_prf is not handed (its context, the chunk's record id, the PRF key, the chunk's points)", site_of(ev[0][0], ev[0][1][0]) if ev else site_of(main))
        # 4. zip with the same rows
        z = flow.find_calls(main, re.compile(r"StreamExt::zip$"))
        ok4 = False
        if len(z) == 1:
            a0, a1 = (flow.expr_of(main, x, max_depth=40) for x in z[0][1]["args"])
            ok4 = a1 == ("call", "futures_util::stream::iter", (("upvar", ROWS),)) and "eval_dy_prf" not in str(a1) and "seq_join" in str(a0)[:400]
            pb = flow.find_calls(main, re.compile(r"chunks::process_slice_by_chunks$"))
            ok4 = ok4 and len(pb) == 1 and flow.expr_of(main, pb[0][1]["args"][0], max_depth=4) == ("call", "std::ops::Deref::deref", (("upvar", ROWS),))
        ctx.ob("WIRE-prf", "zip(prf values, the same rows)", ok4, "the PRF values computed from input_rows are zipped with input_rows itself, unfiltered and in order" if ok4 else "the PRF stream is not zipped with exactly the rows it was computed from (reordered, filtered or another table): reports get another report's PRF value", site_of(main, z[0][0]) if z else site_of(main))
        # 5. report construction
        ok5, why5, site5 = False, "no PrfHybridReport is built", site_of(main)
        for b in tree:
            for bb, idx, s in b.iter_assigns():
                r = s["r"]
                if r["k"] == "agg" and re.search(r"(PrfHybridReport|IndistinguishableHybridReport)$", r.get("adt") or ""):
                    names = [f["name"] for f in facts.adts[r["adt"]]["variants"][0]["fields"]]
                    ops = {n: flow.expr_of(b, o, max_depth=6) for n, o in zip(names, r["ops"])}
                    okv = all(ops[n][0] == "arg" and ops[n][-1] == n for n in ("value", "breakdown_key") if n in ops)
                    same = len({ops[n][:3] for n in ("value", "breakdown_key") if n in ops}) == 1
                    mkop = ops.get("match_key")
                    okk = mkop is not None and mkop[0] == "arg" and mkop[:2] == ops["value"][:2] and mkop[:3] != ops["value"][:3]
                    ok5 = okv and same and okk
                    if not ok5 and b.kind == "Closure":
                        # the report may be built one closure deeper (`mk.map(|prf| PrfHybridReport { match_key: prf, value: input.value, .. })`):
                        # value / breakdown_key are then captured fields of the zipped pair's second component and the
                        # match key is this closure's own parameter, i.e. the Ok payload of the pair's first component
                        par_ = facts.bodies.get(b.path.rsplit("::{closure", 1)[0])
                        if par_ is not None:
                            def _cap(e_):
                                e_ = flow.strip_casts(e_)
                                if e_[0] != "upvar":
                                    return None
                                for _bb, _ix, s2 in par_.iter_assigns():
                                    r2 = s2["r"]
                                    if r2["k"] == "agg" and r2.get("def") == b.path:
                                        for i2, o2 in enumerate(r2["ops"]):
                                            if flow.upvar_name(b, i2) == e_[1]:
                                                return F.op_place(o2)
                                return None
                            pv, pk = _cap(ops.get("value")), _cap(ops.get("breakdown_key"))
                            fieldname = lambda pl: [x[2] for x in pl[1:] if isinstance(x, list) and x[0] == "f" and len(x) > 2 and x[2]][-1:] if pl else []
                            same_base = pv is not None and pk is not None and pv[:-1] == pk[:-1]
                            recv_ok = False
                            for _bb, t2 in par_.calls():
                                if re.search(r"Result::<T, E>::map$", F.callee(t2)[0] or "") and len(t2["args"]) == 2:
                                    cl2 = flow.expr_of(par_, t2["args"][1], max_depth=4)
                                    if cl2[0] == "agg" and isinstance(cl2[1], tuple) and cl2[1][1] == b.path:
                                        rp = F.op_place(t2["args"][0])
                                        recv_e = flow.strip_casts(flow.expr_of(par_, t2["args"][0], max_depth=8))
                                        base_v = flow.strip_casts(flow.expr_of(par_, {"cp": pv[:1]}, max_depth=8)) if pv else None
                                        # receiver and the captured fields come from two different components of the same pair parameter
                                        recv_ok = recv_e[:2] == ("arg", 2) and base_v is not None and base_v[:2] == ("arg", 2) and recv_e != base_v
                            mkop2 = flow.strip_casts(ops.get("match_key", ("?",)))
                            ok5 = same_base and fieldname(pv) == ["value"] and fieldname(pk) == ["breakdown_key"] and mkop2 == ("arg", 2) and recv_ok
                            if ok5:
                                why5 = "match_key := PRF value, value := input.value, breakdown_key := input.breakdown_key of the zipped pair"
                    why5 = "match_key := PRF value, value := input.value, breakdown_key := input.breakdown_key of the zipped pair" if ok5 else f"PrfHybridReport fields are filled from {dict((n, str(v)[:40]) for n, v in ops.items())}: a field is taken from the wrong source"
                    site5 = site_of(b, bb, idx)
        ctx.ob("WIRE-prf", "report-fields", ok5, why5, site5)
        # 6. picker
        rs = flow.find_calls(main, re.compile(r"context::reshard_try_stream$"))
        ok6 = bool(rs)
        for rcall in rs:        # every resharding call of the stage (the one for an empty local set included)
            pk = closure_arg(main, rcall, 2)
            off = 1             # a closure body's parameters follow its environment
            if pk is None:
                e_ = flow.expr_of(main, rcall[1]["args"][2], max_depth=4)
                if e_[0] == "fn":       # the picker is a named function: same rule, parameters start at 1
                    pk = facts.bodies.get(e_[1])
                    off = 0
            if pk is None:
                ok6 = False
                continue
            r = flow.expr_of(pk, {"cp": [0]}, max_depth=8)
            ok6 = ok6 and r[0] == "call" and r[1].endswith("ops::Rem::rem") and r[2][0] == ("arg", 3 + off, "match_key") and r[2][1] == ("call", "sharding::ShardConfiguration::shard_count", (("arg", 1 + off),))
        ctx.ob("WIRE-prf", "route-by-prf-value-only", ok6, "destination = report.match_key % shard_count" if ok6 else "the destination shard is not a function of the PRF value and the shard count alone: helpers (or shards) disagree about where a report goes, or equal match keys land on different shards", site_of(pk) if pk is not None else site_of(main))
        # 7. sizes
        sp = flow.find_calls(main, re.compile(r"TotalRecords::specified$"))
        ok7 = len(sp) == 2 and all((lambda e: e[0] == "call" and e[1].endswith("div_round_up") and e[2][0] == ("call", "std::vec::Vec::<T, A>::len", (("upvar", ROWS),)))(flow.expr_of(main, c[1]["args"][0], max_depth=6)) for c in sp)
        ctx.ob("WIRE-prf", "records=ceil(rows/chunk)", ok7, "both stages are sized div_round_up(input_rows.len(), CHUNK)" if ok7 else "a stage's record count is not ceil(rows / chunk size)", site_of(main, sp[0][0]) if sp else site_of(main))
    finally:
        flow.CLOSURE_DEFS = old


def chunk_cover(ctx, facts):
    """process_slice_by_chunks hands every element of the slice to the processing function exactly once, in order."""
    from rules.C13 import ieval, NoEval
    ctx.rule("CHUNK-cover: SliceChunkProcessor::next_chunk, evaluated from its extracted slice ranges and guards for slice lengths 0..3N, N = 1..5: under its guard the full-chunk arm takes exactly the N elements [N*pos, N*(pos+1)) inside the slice and advances pos by one; the remainder arm (pos == len/N, remainder != 0) takes [N*pos, len), whose length equals the constructor's remainder_len = len % N, labels it Partial(that length) and clears the remainder")
    P = "helpers::stream::chunks::"
    b = facts.bodies.get(P + "SliceChunkProcessor::<'a, T, K, F, Fut, N>::next_chunk")
    cons = facts.bodies.get(P + "process_slice_by_chunks")
    if b is None or cons is None:
        return ctx.missing("CHUNK-cover", "SliceChunkProcessor::next_chunk / process_slice_by_chunks")
    ctx.count(bodies=2)
    dom = b.dominators()
    eg = flow.edge_guards(b)
    idxs = flow.find_calls(b, re.compile(r"ops::Index::index$"))
    full = [(bb, t) for bb, t in idxs if (lambda e: e[0] == "agg" and e[1] == ("std::ops::Range", "Range"))(flow.expr_of(b, t["args"][1], max_depth=10))]
    rest = [(bb, t) for bb, t in idxs if (lambda e: e[0] == "agg" and e[1] == ("std::ops::RangeFrom", "RangeFrom"))(flow.expr_of(b, t["args"][1], max_depth=10))]
    rem_init = None
    for bb, idx, s in cons.iter_assigns():
        r = s["r"]
        if r["k"] == "agg" and (r.get("adt") or "").endswith("SliceChunkProcessor"):
            names = [f["name"] for f in facts.adts[r["adt"]]["variants"][0]["fields"]]
            ops = dict(zip(names, r["ops"]))
            rem_init = flow.expr_of(cons, ops["remainder_len"], max_depth=8) if "remainder_len" in ops else None
            pos_init = flow.expr_of(cons, ops["pos"], max_depth=4) if "pos" in ops else None
    if len(full) != 1 or len(rest) != 1 or rem_init is None:
        return ctx.missing("CHUNK-cover", "one slice[a..b], one slice[a..] and the constructor's remainder_len")
    fr = flow.expr_of(b, full[0][1]["args"][1], max_depth=10)
    rr = flow.expr_of(b, rest[0][1]["args"][1], max_depth=10)
    lo_f, hi_f = fr[2]
    lo_r = rr[2][0]
    gf = [f for tgt, f in eg if flow.dominates(dom, tgt, full[0][0])]
    gr = [f for tgt, f in eg if flow.dominates(dom, tgt, rest[0][0])]
    leaves = set()
    for e in (lo_f, hi_f, lo_r, rem_init) + tuple(x for f in gf + gr for x in f[1:] if x is not None):
        for n in malsec._leaves(e, "const"):
            if isinstance(n[1], str) and n[1].startswith("Ty(usize, N"):
                leaves.add(n)
    def first(e, kind, name):
        for n in malsec._leaves(e, kind):
            if n[-1] == name:
                return n
        return None
    POS = first(lo_f, "proj", "pos")
    REM = next((x for f in gr for x in f[1:] if x is not None and x[0] == "proj" and x[-1] == "remainder_len"), None)
    LEN_b = next((n for f in gf for x in f[1:] if x is not None for n in malsec.walk_calls(x) if n[1].endswith("<impl [T]>::len")), None)
    LEN_c = next((n for n in malsec.walk_calls(rem_init) if n[1].endswith("<impl [T]>::len")), None)
    OPS = {"Ge": lambda a, c: a >= c, "Gt": lambda a, c: a > c, "Le": lambda a, c: a <= c, "Lt": lambda a, c: a < c, "Eq": lambda a, c: a == c, "Ne": lambda a, c: a != c}
    bad = None
    n = 0
    try:
        if None in (POS, REM, LEN_b, LEN_c) or not leaves:
            raise NoEval("pos / remainder_len / slice.len() / N leaves")
        if pos_init != ("const", 0):
            bad = "the processor does not start at chunk 0"
        for N in range(1, 6):
            for L in range(0, 3 * N + 1):
                rem0 = ieval(rem_init, {LEN_c: L, **{k: N for k in leaves}})
                for pos in range(0, L // N + 2):
                    for rem in (0, rem0):
                        env = {POS: pos, REM: rem, LEN_b: L, **{k: N for k in leaves}}
                        def holds(gs):
                            return all(OPS[op](ieval(l, env), ieval(r, env)) for op, l, r in gs if op in OPS)
                        n += 1
                        if holds(gf):
                            lo, hi = ieval(lo_f, env), ieval(hi_f, env)
                            if not (lo == N * pos and hi == lo + N and hi <= L) and bad is None:
                                bad = f"len {L}, N {N}, pos {pos}: the full-chunk arm takes [{lo}, {hi}), expected [{N * pos}, {N * pos + N}) inside the slice"
                        if holds(gr) and rem == rem0:
                            lo = ieval(lo_r, env)
                            if not (lo == N * pos and L - lo == rem and 0 < rem < N) and bad is None:
                                bad = f"len {L}, N {N}, pos {pos}: the remainder arm takes [{lo}, {L}) = {L - lo} element(s) but is labelled Partial({rem})"
                        if holds(gf) and holds(gr) and bad is None:
                            bad = f"len {L}, N {N}, pos {pos}: both arms apply"
                # every element is reached: the full arm applies for pos = 0..L//N-1 and the remainder arm at pos = L//N iff L % N != 0
                for pos in range(L // N):
                    env = {POS: pos, REM: rem0, LEN_b: L, **{k: N for k in leaves}}
                    if not all(OPS[op](ieval(l, env), ieval(r, env)) for op, l, r in gf if op in OPS) and bad is None:
                        bad = f"len {L}, N {N}: whole chunk {pos} is never produced"
                env = {POS: L // N, REM: rem0, LEN_b: L, **{k: N for k in leaves}}
                takes_rest = all(OPS[op](ieval(l, env), ieval(r, env)) for op, l, r in gr if op in OPS)
                if takes_rest != (L % N != 0) and bad is None:
                    bad = f"len {L}, N {N}: the last {L % N} element(s) are {'not ' if not takes_rest else ''}produced as a remainder chunk"
    except NoEval as ex:
        bad = f"cannot evaluate ({ex})"
    ctx.ob("CHUNK-cover", "ranges-tile-the-slice", bad is None, f"full chunks and the remainder tile [0, len) ({n} grid points)" if bad is None else bad, site_of(b, full[0][0]))
    # state updates
    inc = [s for bb, idx, s in b.iter_assigns() if any(isinstance(e, list) and e[0] == "f" and e[2] == "pos" for e in s["p"][1:])]
    oki = len(inc) == 1 and "o" in inc[0]["r"] and flow.expr_of(b, inc[0]["r"]["o"], max_depth=8) == ("bin", "Add", POS, ("const", 1)) if POS else False
    rp = flow.find_calls(b, re.compile(r"mem::replace$"))
    okr = len(rp) == 1 and flow.dominates(dom, rest[0][0], rp[0][0]) or (len(rp) == 1 and flow.dominates(dom, rp[0][0], rest[0][0]))
    okr = okr and flow.expr_of(b, rp[0][1]["args"][1]) == ("const", 0) and flow.expr_of(b, rp[0][1]["args"][0], max_depth=8)[-1] == "remainder_len"
    ctx.ob("CHUNK-cover", "state-advances", bool(oki and okr), "pos += 1 per full chunk; the remainder is cleared when it is handed out" if oki and okr else "pos is not advanced by exactly one per full chunk, or the remainder is not cleared when taken (a chunk is produced twice or skipped)", site_of(b))
