"""C17  Byte-stream parsers are independent of chunking and total on arbitrary input.

What is decided statically (necessary structural conditions; DESIGN.md §3/C17).  The equality "same records for
every chunking" is NOT decided - it is an equality over all splittings of a byte string.  Decided are the
mechanism's disciplines without which that equality, record preservation, the trailing-data error or totality fail:

  FIFO      the chunk deque `BufDeque.buffered` is used as a FIFO only: chunks enter by push_back and leave by
            pop_front / index 0 / front; any other VecDeque operation can reorder or skip bytes.
  COUNT     `buffered_size` is the byte count of the deque: it is written only in BufDeque::{new, read_bytes, extend};
            push_back(x) comes with `+= x.len()` of the same x; in read_bytes a None return has mutated nothing, each
            Some return has exactly one decrement, by the number of bytes handed out (`len` for the direct split,
            `out.len()` for the gathered copy).
  LOSS      every chunk or part of a chunk removed from the deque in read_bytes reaches the returned Bytes (directly,
            or appended to the Vec that is returned); a chunk may be dropped only on the `is_empty()` edge.
  LEN       read_bytes returns exactly `len` bytes: the direct split is split_to(len); the gather loop is left only on
            `capacity - len == 0` of the Vec allocated with_capacity(len), and it appends min(chunk, remaining).
  TOTAL     each panic-capable site in the parser bodies (VecDeque index, split_to, unwrap, GenericArray::from_slice,
            drain) is discharged by a dominating guard edge on the same quantity (see SITE table); a new, undischarged
            panic-capable site is a crash on some byte sequence.
  EOF       end of input: BufDeque::extend returns Finished only on the `buffered_size > 0` false edge (otherwise
            Error); RecordsStream / LengthDelimitedStream return Ready(None) only in the Finished arm, and
            LengthDelimitedStream only if no length prefix is pending; BufferedBytesStream returns None only when
            its buffer is empty and flushes the tail otherwise.
  STATE     `pending_len` is set to Some only from a Length read out of the buffer and cleared only on the edge on which
            that record's body was obtained; the body read uses exactly the pending length.
  AVAIL     read_bytes returns None exactly on `len == 0` or `buffered_size < len`: a stricter test withholds a complete
            record (it then surfaces as a bogus trailing-data error), a laxer one reads past the buffered data.
  PENDING   the parsers return Poll::Pending only on the Pending arm of the inner stream's poll (which registered the
            waker); a Pending on any other path stalls the stream for some chunkings.
  ITEMS     LengthDelimitedStream::poll_next never returns an Err (or ends) while it holds records parsed in the same
            call: otherwise whether the records before a bad one are delivered depends on how the body was chunked.
  PARSE-err a record that fails to deserialize is yielded as an Err item: RecordsStream::poll_next hands on whatever
            read_from produced (Ok or Err) and never tests the inner Result to skip the Err case - its bytes are already
            consumed, so skipping it silently loses a record.
  PROGRESS  the Batch reader asks for at least one record (count >= 1), otherwise a record straddling chunks is never
            assembled (chunking-dependent stall); Single/Batch/Length readers ask read_bytes for (a multiple of) the
            type's own Size.
"""
import re
from vlib import facts as F, flow
from vlib.core import site_of
from rules import malsec

LEVEL = "other"
EXPLANATION = ("C17: structural clauses only (FIFO discipline of the chunk deque, byte-count bookkeeping, no-loss flow of removed "
               "chunks into the result, exact-length exit condition, guard-discharge of every panic-capable site, end-of-input "
               "arms, pending-length state writes). The equality over all chunkings itself is not decided.")

IN = "helpers::transport::stream::input::"
BD = IN + "BufDeque::"
BUF = "helpers::transport::stream::buffered::"

DEQUE_OK = re.compile(r"VecDeque::<T(, A)?>::(new|push_back|pop_front|front|front_mut|is_empty|len|with_capacity|iter)$|^std::ops::Index(Mut)?::index(_mut)?$|Debug|fmt")


def run(ctx):
    facts = ctx.facts()
    rb = facts.bodies.get(BD + "read_bytes")
    ex = facts.bodies.get(BD + "extend")
    if rb is None:
        ctx.missing("COUNT", "BufDeque::read_bytes")
    if ex is None:
        ctx.missing("COUNT", "BufDeque::extend")
    fifo(ctx, facts)
    if rb is not None and ex is not None:
        count(ctx, facts, rb, ex)
        loss_len(ctx, facts, rb)
    total(ctx, facts)
    eof(ctx, facts, ex)
    state(ctx, facts)
    progress(ctx, facts)
    pending_edge(ctx, facts)
    items_flushed(ctx, facts)
    deferred_error_first(ctx, facts)
    parse_errors(ctx, facts)
    from rules import C01, C19, C13
    C01.chunk_cover(ctx, facts)
    C01.partial_nonzero(ctx, facts)    # the chunked stream processors (helpers/stream/chunks.rs): a partial chunk never claims zero rows
    C19.err_adapters(ctx, facts)       # stream adapters over fallible streams hand every inner error on
    C13.wake_rule(ctx, facts)          # no stream in these modules returns Pending without a registered waker
    ctx.assume("bytes::Bytes::split_to(n) returns the first n bytes and keeps the rest; VecDeque push_back/pop_front are FIFO; Vec::with_capacity(n) reports capacity n for u8 (std's RawVec records the requested capacity)")
    ctx.assume("chunking-independence as an equality over all splittings is not decided; only the disciplines above")


def parser_bodies(facts):
    out = []
    for b in sorted(facts.non_test_bodies(), key=lambda x: x.path):
        if re.search(r"helpers::transport::stream::(input|buffered)::", b.path) and b.file.startswith("ipa-core/src/helpers/transport/stream/"):
            out.append(b)
    return out


def is_deque(e):
    """expression denotes the chunk deque field"""
    e = flow.strip_casts(e)
    return isinstance(e, tuple) and e[0] in ("arg", "place", "upvar") and "buffered" in e[1:] or (e[0] == "proj" and "buffered" in e[2:])


def is_front(e):
    """expression denotes buffered[0] (shared or mutable)"""
    e = flow.strip_casts(e)
    if e[0] == "call" and re.search(r"Option::<T>::(unwrap|expect)$", e[1]):
        i = flow.strip_casts(e[2][0])
        return i[0] == "call" and bool(re.search(r"VecDeque::<T(, A)?>::(front|front_mut)$", i[1])) and is_deque(i[2][0])
    return e[0] == "call" and bool(re.search(r"Index(Mut)?::index(_mut)?$", e[1])) and is_deque(e[2][0]) and e[2][1] == ("const", 0)


# ---------------------------------------------------------------------------------------------
def fifo(ctx, facts):
    ctx.rule("FIFO: every operation on BufDeque.buffered is one of push_back / pop_front / front / index 0 / is_empty / len (queue discipline); anything else may reorder, skip or duplicate bytes")
    n = {"push_back": 0, "pop_front": 0}
    k = 0
    for b in parser_bodies(facts):
        seen = False
        for bb, t in b.calls():
            if not t["args"]:
                continue
            e = flow.expr_of(b, t["args"][0])
            if not is_deque(e):
                continue
            seen = True
            fn = F.callee(t)[0] or ""
            ok = bool(DEQUE_OK.search(fn))
            why = ""
            if ok and re.search(r"Index(Mut)?::index(_mut)?$", fn):
                ix = flow.expr_of(b, t["args"][1])
                ok = ix == ("const", 0)
                why = "" if ok else f"indexes chunk {ix} instead of the front chunk"
            for key in n:
                if fn.endswith(key):
                    n[key] += 1
            short = fn.split("::")[-1]
            ctx.ob("FIFO", f"{b.path.split('::')[-1]}:{short}#{k}" if not ok else f"{b.path.split('::')[-1]}:{short}", ok,
                   "queue operation" if ok else (why or f"`{short}` on the chunk deque is not a FIFO operation: chunks can be reordered, skipped or duplicated"), site_of(b, bb))
            k += 1
        if seen:
            ctx.count(bodies=1)
    ctx.floor("FIFO", "push_back sites", n["push_back"], 1)
    ctx.floor("FIFO", "pop_front sites", n["pop_front"], 1)
    # who may touch the deque mutably
    for b, bb, idx, kind, s in flow.field_writes(facts, "buffered", r"BufDeque"):
        ok = b.path in (BD + "read_bytes", BD + "extend", BD + "new")
        ctx.ob("FIFO", f"writer:{b.path}", ok, "BufDeque's own method" if ok else "the chunk deque is mutated outside BufDeque::{read_bytes, extend}", site_of(b, bb, idx))


# ---------------------------------------------------------------------------------------------
def size_writes(b):
    """[(bb, idx, expr)] direct assignments to .buffered_size"""
    out = []
    for bb, idx, s in b.iter_assigns():
        p = s["p"]
        if len(p) > 1 and isinstance(p[-1], list) and p[-1][0] == "f" and p[-1][2:] == ["buffered_size"]:
            r = s["r"]
            e = flow.expr_of(b, r["o"]) if r["k"] == "use" else ("?",)
            out.append((bb, idx, e))
    return out


def is_size(e):
    e = flow.strip_casts(e)
    return isinstance(e, tuple) and e[0] in ("arg", "place") and e[-1] == "buffered_size"


def option_returns(b):
    """({bb of `_0 = Some{x}`: payload expr}, [bb of `_0 = None`])"""
    some, none = {}, []
    for bb, idx, s in b.iter_assigns():
        r = s["r"]
        if s["p"] == [0] and r["k"] == "agg" and r.get("adt") == "std::option::Option":
            if r.get("vn") == "Some":
                some[bb] = flow.expr_of(b, r["ops"][0])
            else:
                none.append(bb)
    return some, none


def removals(b):
    """[(bb, kind, term)] calls that take bytes out of the deque: split_to on the front chunk, pop_front"""
    out = []
    for bb, t in b.calls():
        fn = F.callee(t)[0] or ""
        if not t["args"]:
            continue
        e = flow.expr_of(b, t["args"][0])
        if re.search(r"Bytes::(split_to|split_off|advance|truncate|clear)$", fn) and is_front(e):
            out.append((bb, fn.split("::")[-1], t))
        elif re.search(r"VecDeque::<T(, A)?>::(pop_front|pop_back|clear|drain|remove|truncate)$", fn) and is_deque(e):
            out.append((bb, fn.split("::")[-1], t))
    return out


def count(ctx, facts, rb, ex):
    ctx.rule("COUNT: buffered_size is written only in BufDeque::{new,read_bytes,extend}; push_back(x) is paired with `+= x.len()`; in read_bytes None returns are mutation-free and each Some return has exactly one decrement by the number of bytes returned")
    ctx.count(bodies=2)
    # writers census
    ws = flow.field_writes(facts, "buffered_size", r"BufDeque")
    for b, bb, idx, kind, s in ws:
        ok = b.path in (BD + "read_bytes", BD + "extend", BD + "new")
        ctx.ob("COUNT", f"writer:{b.path}:{kind}", ok, "BufDeque's own method" if ok else "buffered_size is written outside BufDeque::{read_bytes, extend}", site_of(b, bb, idx))
    ctx.floor("COUNT", "buffered_size writes", len(ws), 3)
    # extend: push_back(x) <-> += len(x)
    dom = ex.dominators()
    pushes = [(bb, t) for bb, t in ex.calls() if (F.callee(t)[0] or "").endswith("::push_back") and is_deque(flow.expr_of(ex, t["args"][0]))]
    if not pushes:
        ctx.missing("COUNT", "push_back in BufDeque::extend")
    sw = size_writes(ex)
    for k, (bb, t) in enumerate(pushes):
        x = flow.expr_of(ex, t["args"][1])
        ok = False
        for wbb, idx, e in sw:
            e = flow.strip_casts(e)
            if e[0] == "bin" and e[1] == "Add" and (is_size(e[2]) or is_size(e[3])):
                other = e[3] if is_size(e[2]) else e[2]
                other = flow.strip_casts(other)
                if other[0] == "call" and other[1].endswith("Bytes::len") and flow.strip_casts(other[2][0]) == x and (flow.dominates(dom, wbb, bb) or flow.dominates(dom, bb, wbb)):
                    ok = True
        ctx.ob("COUNT", f"extend:push#{k}:adds-its-length", ok, "push_back(bytes) with buffered_size += bytes.len()" if ok else "a chunk is appended without adding exactly its length to buffered_size (count and contents diverge: later reads index an empty deque or lose the tail)", site_of(ex, bb))
    other_w = [w for w in sw if not (flow.strip_casts(w[2])[0] == "bin" and flow.strip_casts(w[2])[1] == "Add")]
    ctx.ob("COUNT", "extend:only-additions", not other_w, "extend only adds to the count" if not other_w else "extend changes buffered_size other than by adding the new chunk's length", site_of(ex, other_w[0][0]) if other_w else site_of(ex))
    # read_bytes
    some, none = option_returns(rb)
    dom = rb.dominators()
    sw = size_writes(rb)
    rem = removals(rb)
    mut_blocks = {bb for bb, _, _ in rem} | {bb for bb, _, _ in sw}
    if not some or not none:
        ctx.missing("COUNT", "Some/None returns of read_bytes")
        return
    tainted = set()
    for m in mut_blocks:
        tainted |= rb.reachable(m)
    bad_none = [bb for bb in none if bb in tainted]
    ctx.ob("COUNT", "read_bytes:none-is-pure", not bad_none, "`None` (not enough data) leaves the buffer untouched" if not bad_none else "read_bytes can return None after it already removed bytes or changed the count (bytes lost on a short read)", site_of(rb, bad_none[0]) if bad_none else site_of(rb))
    avail(ctx, rb, none)
    for k, (sbb, pay) in enumerate(sorted(some.items())):
        doms = [w for w in sw if flow.dominates(dom, w[0], sbb)]
        between = [w for w in sw if w not in doms and sbb in rb.reachable(w[0])]
        ok1 = len(doms) == 1 and not between
        pay = flow.strip_casts(pay)
        kind = "direct" if (pay[0] == "call" and pay[1].endswith("split_to")) else "gathered"
        ctx.ob("COUNT", f"read_bytes:{kind}:one-decrement", ok1, "exactly one count update on the way to this return" if ok1 else f"{len(doms) + len(between)} count updates can precede this return (expected exactly 1)", site_of(rb, sbb))
        if not doms:
            continue
        e = flow.strip_casts(doms[0][2])
        oka = False
        if e[0] == "bin" and e[1] == "Sub" and is_size(e[2]):
            amt = flow.strip_casts(e[3])
            if kind == "direct":
                oka = amt == flow.strip_casts(pay[2][1])
            else:
                vec = pay[2][0] if pay[0] == "call" and pay[2] else pay
                oka = amt[0] == "call" and amt[1].endswith("Vec::<T, A>::len") and flow.strip_casts(amt[2][0]) == flow.strip_casts(vec)
        ctx.ob("COUNT", f"read_bytes:{kind}:decrement-is-bytes-returned", oka, "buffered_size -= number of bytes handed out" if oka else "the count is not reduced by exactly the number of bytes returned", site_of(rb, doms[0][0], doms[0][1]))


def incoming_edge_facts(b, bb):
    """facts of the switch edges through which bb is entered (walking back over goto-only blocks)"""
    eg = {}
    for tgt, f in edge_guards(b):
        eg.setdefault(tgt, []).append(f)
    out, seen, work = [], set(), [bb]
    while work:
        x = work.pop()
        if x in seen:
            continue
        seen.add(x)
        if x in eg and x != bb or (x in eg and all(b.term(p)["k"] == "switch" for p in b.preds(x))):
            out.extend(eg[x])
            continue
        for p in b.preds(x):
            if b.term(p)["k"] == "switch":
                out.extend(eg.get(x, [("?", None, None)]))
            else:
                work.append(p)
    return out


def avail(ctx, rb, none):
    ctx.rule("AVAIL: read_bytes returns None exactly on the edges `len == 0` and `buffered_size < len`")
    fs = []
    for n in none:
        fs.extend(incoming_edge_facts(rb, n))
    def good(f):
        op, l, r = f
        if op == "Eq" and l == ("arg", 2) and r == ("const", 0):
            return True
        if op == "Lt" and is_size(l) and r == ("arg", 2):
            return True
        if op == "Gt" and l == ("arg", 2) and r is not None and is_size(r):
            return True
        return False
    bad = [f for f in fs if not good(f)]
    need = any(f[0] in ("Lt", "Gt") and good(f) for f in fs)
    ok = bool(fs) and not bad and need
    ctx.ob("AVAIL", "read_bytes:none-iff-short", ok, "None <=> len == 0 or fewer than len bytes buffered" if ok else f"read_bytes returns None under `{fmt_fact(bad[0]) if bad else 'no availability test'}`: a fully buffered record is withheld (and later reported as trailing garbage), or data is read that is not there", site_of(rb, none[0]))


def fmt_fact(f):
    def sh(e):
        if e is None:
            return ""
        if is_size(e):
            return "buffered_size"
        if e == ("arg", 2):
            return "len"
        if e[0] == "const":
            return str(e[1])
        return str(e)[:40]
    return f"{sh(f[1])} {f[0]} {sh(f[2])}"


def _cap_len_nodes(e):
    """(capacity-call node, len-call node) of one and the same Vec mentioned in e, else None"""
    from rules.C14 import malsec_leaves_all
    caps = [x for x in malsec_leaves_all(e) if x[0] == "call" and x[1].endswith("Vec::<T, A>::capacity")]
    lens = [x for x in malsec_leaves_all(e) if x[0] == "call" and x[1].endswith("Vec::<T, A>::len")]
    for c in caps:
        for l in lens:
            if flow.strip_casts(c[2][0]) == flow.strip_casts(l[2][0]):
                return c, l
    return None


def fullness_fact(f):
    """'full' if the edge fact f holds exactly when len(v) == capacity(v), 'room' if exactly when len(v) < capacity(v)
    (evaluated for every 0 <= len <= capacity <= 6: `cap - len == 0`, `len < cap`, `len != cap`, `cap > len` ...); else None"""
    from rules.C13 import guard_holds, NoEval
    if f[1] is None:
        return None
    nodes = _cap_len_nodes(("t", f[1], f[2] if f[2] is not None else ("const", 0)))
    if nodes is None:
        return None
    c, l = nodes
    try:
        truth = {(cap, ln): guard_holds(f, {c: cap, l: ln}) for cap in range(0, 7) for ln in range(0, cap + 1)}
    except (NoEval, KeyError, TypeError):
        return None
    if all(v == (ln == cap) for (cap, ln), v in truth.items()):
        return "full"
    if all(v == (ln < cap) for (cap, ln), v in truth.items()):
        return "room"
    return None


# ---------------------------------------------------------------------------------------------
def loss_len(ctx, facts, rb):
    ctx.rule("LOSS: every value removed from the deque in read_bytes flows into the returned Bytes (directly or via extend_from_slice into the returned Vec); a chunk is dropped only on the is_empty() edge")
    ctx.rule("LEN: the direct path returns split_to(len); the gather loop exits to its return only on `capacity(out) - len(out) == 0` with out = Vec::with_capacity(len), takes split_to(remaining) only when chunk.len() > remaining and the whole chunk otherwise")
    some, none = option_returns(rb)
    dom = rb.dominators()
    pays = [flow.strip_casts(p) for p in some.values()]
    # the Vec that is returned (gathered path)
    vec = None
    for p in pays:
        if p[0] == "call" and p[1].endswith("From::from") and p[2]:
            vec = flow.strip_casts(p[2][0])
    appended = []   # expressions appended to the returned vec
    for bb, t in rb.calls():
        fn = F.callee(t)[0] or ""
        if re.search(r"Vec::<T, A>::(extend_from_slice|extend|append)$", fn) and vec is not None and flow.strip_casts(flow.expr_of(rb, t["args"][0])) == vec:
            appended.append((bb, str(flow.expr_of(rb, t["args"][1]))))
    empties = malsec.guards(rb, r"Bytes::is_empty$")
    for k, (bb, kind, t) in enumerate(removals(rb)):
        me = flow.expr_of(rb, {"cp": t["d"]}) if False else None
        # the result of the removal as an expression: find uses by string containment of the call node
        call_e = ("call", F.callee(t)[0], tuple(flow.expr_of(rb, a) for a in t["args"]))
        s = str(call_e)
        used = any(s in str(p) for p in pays) or any(s in a and flow.dominates(dom, bb, abb) for abb, a in appended)
        dropped_empty = kind == "pop_front" and any(ed and flow.dominates(dom, ed[1], bb) and is_front(c[2][0]) for _, _, ed, c in empties)
        ok = used or dropped_empty
        ctx.ob("LOSS", f"read_bytes:{kind}#{k}", ok, ("removed bytes are part of the result" if used else "drops a chunk only after it was emptied") if ok else f"bytes removed by `{kind}` do not reach the returned value (lost record bytes)", site_of(rb, bb))
    # LEN
    direct = [p for p in pays if p[0] == "call" and p[1].endswith("split_to")]
    okd = bool(direct) and all(flow.strip_casts(p[2][1]) == ("arg", 2) and is_front(p[2][0]) for p in direct)
    ctx.ob("LEN", "read_bytes:direct-is-split_to(len)", okd, "front.split_to(len)" if okd else "the single-chunk path does not return exactly the first `len` bytes of the front chunk", site_of(rb))
    if vec is None:
        ctx.missing("LEN", "gathered return Bytes::from(out) in read_bytes")
        return
    okv = vec[0] == "call" and vec[1].endswith("with_capacity") and flow.strip_casts(vec[2][0]) == ("arg", 2)
    ctx.ob("LEN", "read_bytes:out-capacity-is-len", okv, "out = Vec::with_capacity(len)" if okv else "the gather buffer's capacity is not `len` (the loop's exit condition no longer means `len` bytes were gathered)", site_of(rb))
    rem_e = ("bin", "Sub", ("call", "std::vec::Vec::<T, A>::capacity", (vec,)), ("call", "std::vec::Vec::<T, A>::len", (vec,)))
    gret = [bb for bb, p in some.items() if flow.strip_casts(p)[0] == "call" and flow.strip_casts(p)[1].endswith("From::from")]
    exits = []      # (switch, (edge on which more bytes are needed, edge on which the buffer is full)) - whatever form the test has
    for bb in sorted(rb.live_blocks()):
        t = rb.term(bb)
        if t["k"] != "switch":
            continue
        ed = flow.switch_edges(rb, bb)
        if not ed:
            continue
        kinds = {tgt: fullness_fact(f) for tgt, f in flow.edge_guards(rb) if tgt in ed and _cap_len_nodes(("t", f[1], f[2] or ("const", 0))) and flow.strip_casts(_cap_len_nodes(("t", f[1], f[2] or ("const", 0)))[0][2][0]) == vec}
        full = [tgt for tgt, k in kinds.items() if k == "full"]
        room = [tgt for tgt, k in kinds.items() if k == "room"]
        if len(full) == 1 and len(room) == 1 and full[0] != room[0] and rb.term(bb).get("o") is not None and any(bb in rb.preds(x) for x in full):
            exits.append((bb, (room[0], full[0])))
    okx = bool(exits) and all(any(flow.dominates(dom, ed[1], g) for _, ed in exits) for g in gret) and all(not any(g in rb.reachable(ed[0], avoid=frozenset([x[0] for x in exits])) for g in gret) for _, ed in exits)
    ctx.ob("LEN", "read_bytes:gather-exits-only-when-full", okx, "the gathered return is reached only through `capacity - len == 0`" if okx else "the gather loop can return before (or its exit test is not) `remaining == 0`: short or over-long records", site_of(rb, exits[0][0]) if exits else site_of(rb))
    # per-iteration amount: split_to(remaining) under `front.len() > remaining` (or >=); whole chunk otherwise
    gl = [(bb, e, ed) for bb, e, ed, c in malsec.guards(rb, r"Bytes::len$") if e[0] == "bin" and e[1] in ("Gt", "Ge") and e[3] == rem_e and flow.strip_casts(e[2])[0] == "call" and is_front(flow.strip_casts(e[2])[2][0])]
    okg = False
    if gl:
        gbb, e, ed = gl[0]
        sp = [bb for bb, kind, t in removals(rb) if kind == "split_to" and flow.expr_of(rb, t["args"][1]) == rem_e]
        pf = [bb for bb, kind, t in removals(rb) if kind == "pop_front" and not any(ed2 and flow.dominates(dom, ed2[1], bb) for _, _, ed2, _ in empties)]
        okg = bool(sp) and bool(pf) and all(flow.dominates(dom, ed[1], x) for x in sp) and all(flow.dominates(dom, ed[0], x) for x in pf)
    ctx.ob("LEN", "read_bytes:gather-takes-min(chunk,remaining)", okg, "chunk.len() > remaining => split_to(remaining); else the whole chunk" if okg else "the gather loop's per-chunk amount is not min(chunk, remaining) under the comparison that selects it (over-read into the next record, or split_to past the chunk end)", site_of(rb, gl[0][0]) if gl else site_of(rb))


# ---------------------------------------------------------------------------------------------
edge_guards = flow.edge_guards
holds = flow.holds


def total(ctx, facts):
    ctx.rule("TOTAL: panic-capable sites of the parser bodies (deque index, Bytes::split_to, Option::unwrap/expect, GenericArray::from_slice, Vec::drain, explicit panics) are each dominated by the guard edge that makes them safe")
    nsites = 0
    for b in parser_bodies(facts):
        if re.search(r"Debug>::fmt|__assert_not_repr_packed|::project(_ref)?$|PinnedDrop", b.path):
            continue
        dom = None
        for bb, t in b.calls():
            fn = F.callee(t)[0] or ""
            args = [flow.expr_of(b, a) for a in t["args"]]
            kind = None
            if re.search(r"Index(Mut)?::index(_mut)?$", fn) and args and is_deque(args[0]):
                kind = "front-index"
            elif re.search(r"Bytes::(split_to|split_off|advance)$", fn):
                kind = "split"
            elif re.search(r"(Option::<T>|Result::<T, E>)::(unwrap|expect)$", fn):
                kind = "unwrap"
            elif re.search(r"GenericArray::<T, N>::(from_slice|from_mut_slice)$|copy_from_slice$", fn):
                kind = "from_slice"
            elif re.search(r"Vec::<T, A>::drain$", fn):
                kind = "drain"
            elif re.search(r"Index(Mut)?::index(_mut)?$", fn):
                kind = "index"
            elif t["t"] is None and not re.search(r"resume_unwind", fn):
                kind = "panic"
                if bb in flow.debug_only_blocks(b):
                    kind = None         # a debug_assert!: not there in the shipped build
            if kind is None:
                continue
            nsites += 1
            dom = dom or b.dominators()
            ok, why = discharge(facts, b, dom, bb, kind, fn, args)
            name = b.path.replace(IN, "").replace(BUF, "")
            ctx.ob("TOTAL", f"{name}:{kind}:{sig(args)}", ok, why, site_of(b, bb))
        ctx.count(bodies=1)
    ctx.floor("TOTAL", "panic-capable sites", nsites, 10)


def sig(args):
    s = "|".join(str(a) for a in args[:2])
    s = re.sub(r"std::vec::Vec::<T(, A)?>::|std::ops::|std::collections::|bytes::|std::option::|std::result::", "", s)
    s = re.sub(r"[\s'\"]", "", s)
    import hashlib
    return (s[:60] + "~" + hashlib.sha1(s.encode()).hexdigest()[:6]) if len(s) > 60 else s


def discharge(facts, b, dom, bb, kind, fn, args):
    if kind == "front-index":
        if args[1] != ("const", 0):
            return False, "indexes a chunk other than the front"
        # needs: buffered_size >= len (Lt false edge) and len != 0, both dominating; given COUNT, size >= len > 0 => deque non-empty
        g1 = holds(b, dom, bb, lambda f: f[0] in ("Ge", "Gt") and is_size(f[1]) or f[0] in ("Le", "Lt") and is_size(f[2]))
        g2 = holds(b, dom, bb, lambda f: f[0] == "Ne" and f[2] == ("const", 0) or f[0] == "Gt" and f[2] == ("const", 0))
        if not (g1 and g2):
            return False, "buffered[0] without the dominating guards `buffered_size >= len` and `len != 0`: panics on an empty deque (not enough data buffered)"
        # inside the gather loop the site must also be behind `remaining != 0`
        if bb in b.reachable(b.succs(bb)[0]) and removals_before(b, bb):
            g3 = holds(b, dom, bb, lambda f: fullness_fact(f) == "room")
            if not g3:
                return False, "front chunk accessed in the gather loop without the dominating `remaining != 0` test: once `len` bytes are gathered the deque may be empty"
        return True, "front chunk exists: buffered_size >= len > 0 on this path (with COUNT)"
    if kind == "split":
        x, n = flow.strip_casts(args[0]), flow.strip_casts(args[1])
        def p(f):
            l, r = f[1], f[2]
            if f[0] in ("Ge", "Gt") and l[0] == "call" and l[1].endswith("Bytes::len") and same_buf(l[2][0], x) and r == n:
                return True
            if f[0] in ("Le", "Lt") and r is not None and r[0] == "call" and r[1].endswith("Bytes::len") and same_buf(r[2][0], x) and l == n:
                return True
            return False
        ok = holds(b, dom, bb, p)
        return ok, ("split point <= chunk length on this path" if ok else f"`{fn.split('::')[-1]}(n)` is not dominated by `chunk.len() >= n`: panics when the chunk is shorter (chunk-boundary dependent crash)")
    if kind == "unwrap":
        s = str(args[0])
        a0 = flow.strip_casts(args[0])
        if a0[0] == "call" and re.search(r"VecDeque::<T(, A)?>::(front|front_mut)$", a0[1]) and is_deque(a0[2][0]):
            return discharge(facts, b, dom, bb, "front-index", fn, [a0[2][0], ("const", 0)])
        if a0[0] == "call" and a0[1].endswith("pop_front") and is_deque(a0[2][0]):
            g1 = holds(b, dom, bb, lambda f: f[0] in ("Ge", "Gt") and is_size(f[1]) or f[0] in ("Le", "Lt") and is_size(f[2]))
            g2 = holds(b, dom, bb, lambda f: fullness_fact(f) == "room")
            ok = g1 and g2
            return ok, ("more bytes are still needed (remaining != 0) and buffered_size >= len: a chunk exists" if ok else "pop_front().unwrap() without the dominating guards `buffered_size >= len` and `remaining != 0`: panics when the deque runs out")
        return False, f"unwrap/expect on `{s[:80]}` has no recorded discharge: a malformed or oddly chunked body can panic here"
    if kind == "from_slice":
        ok, why = from_slice_len(facts, b, args)
        return ok, why
    if kind == "drain":
        # drain(..k) on Vec v: needs v.len() >= k (Gt/Ge edge)
        r = flow.strip_casts(args[1]) if len(args) > 1 else ("?",)
        hi = r[2][-1] if r[0] == "agg" and r[2] else None
        def p(f):
            return f[0] in ("Gt", "Ge") and f[1][0] == "call" and f[1][1].endswith("::len") and flow.strip_casts(f[1][2][0]) == flow.strip_casts(args[0]) and hi is not None and f[2] == flow.strip_casts(hi)
        ok = holds(b, dom, bb, p)
        return ok, ("drain range end <= len on this path" if ok else "drain(..k) not dominated by `len >= k`: panics when fewer bytes are buffered")
    if kind == "index":
        return False, f"indexing `{str(args[0])[:60]}` in a parser body has no recorded discharge"
    return False, f"explicit panic `{fn}` in a parser body"


def removals_before(b, bb):
    """a removal from the deque lies on a cycle through bb (the site is re-executed after bytes were taken)"""
    for rbb, kind, t in removals(b):
        if bb in b.reachable(rbb) and rbb in b.reachable(bb):
            return True
    return False


def same_buf(a, b_):
    a, b_ = flow.strip_casts(a), flow.strip_casts(b_)
    if a == b_:
        return True
    return is_front(a) and is_front(b_)


def from_slice_len(facts, b, args):
    """GenericArray::from_slice(x) panics unless x.len() == N.  In the BufDeque readers x is (a chunk of) the closure
    argument, which is the Bytes produced by read_bytes(k * Size): discharged when the enclosing reader calls
    read_bytes with `Size::USIZE` (x = whole result) or `count * Size::USIZE` with x = chunks(Size::USIZE) items."""
    root = facts.bodies.get(b.root)
    if root is None or not b.path.startswith(BD):
        return False, "from_slice outside the BufDeque readers has no recorded discharge"
    rbc = [t for bb, t in root.calls() if (F.callee(t)[0] or "") == BD + "read_bytes"]
    if len(rbc) != 1:
        return False, "the enclosing reader does not obtain its bytes from a single read_bytes call"
    n = flow.strip_casts(flow.expr_of(root, rbc[0]["args"][1]))
    usz = ("const", "typenum::Unsigned::USIZE")
    # result goes through Option::map(closure)
    mapped = any((F.callee(t)[0] or "").endswith("Option::<T>::map") and "read_bytes" in str(flow.expr_of(root, t["args"][0])) for bb, t in root.calls())
    # .. or through `let raw = self.read_bytes(n)?;` - the Some payload of the same call
    RAW = None
    if not mapped:
        for bb, t in root.calls():
            if (F.callee(t)[0] or "").endswith("Try::branch") and "read_bytes" in str(flow.expr_of(root, t["args"][0], max_depth=6)):
                RAW = ("proj", ("call", "std::ops::Try::branch", (flow.expr_of(root, t["args"][0], max_depth=30),)), "as:Continue", "0")
        if RAW is None:
            return False, "the bytes given to from_slice are not the mapped result of read_bytes"
    x = str(args[0])
    def is_raw(e_txt):
        return RAW is not None and ("Try::branch" in e_txt and "read_bytes" in e_txt and "'as:Continue'" in e_txt)
    if n == usz:
        ok = x in ("('call', 'std::ops::Deref::deref', (('arg', 2),))", "('arg', 2)") if mapped else (is_raw(x) and "chunks" not in x)
        return ok, ("read_bytes(Size) returns exactly Size bytes (LEN) and the whole result is used" if ok else "from_slice is applied to something other than the whole read_bytes(Size) result")
    if n[0] == "bin" and n[1] == "Mul" and usz in (flow.strip_casts(n[2]), flow.strip_casts(n[3])):
        # argument must be an item of chunks(Size) over the closure argument
        parent = [p for p in facts.tree(b.root) if p.path != b.path and p.path != root.path]
        ch = False
        for pb in parent:
            for bb, t in pb.calls():
                if re.search(r"<impl \[T\]>::chunks(_exact)?$", F.callee(t)[0] or "") and flow.expr_of(pb, t["args"][1]) == usz and "('arg', 2)" in str(flow.expr_of(pb, t["args"][0])):
                    ch = True
        if not mapped:
            # the chunks() call sits in the reader itself, over the `?` payload
            for bb, t in root.calls():
                if re.search(r"<impl \[T\]>::chunks(_exact)?$", F.callee(t)[0] or "") and flow.strip_casts(flow.expr_of(root, t["args"][1])) == usz and is_raw(str(flow.expr_of(root, t["args"][0], max_depth=30))):
                    ch = True
        ok = ch and x == "('arg', 2)"
        return ok, ("read_bytes(count*Size) split by chunks(Size): every chunk has exactly Size bytes" if ok else "from_slice is not applied to chunks(Size) of a read_bytes(count*Size) result")
    return False, f"read_bytes is asked for `{str(n)[:60]}`, which is not (a multiple of) the type's Size: from_slice panics on the length mismatch"


# ---------------------------------------------------------------------------------------------
def variant_arms(b, adt_suffix, facts):
    """switches on discriminant(x) where x : adt -> [(switch_bb, x_expr, {variant_name: target})]"""
    out = []
    from vlib.variants import STD_ENUMS
    names = STD_ENUMS.get(adt_suffix)
    if names is None:
        for name, a in facts.adts.items():
            if name.endswith(adt_suffix):
                names = [v["name"] for v in a["variants"]]
    if names is None:
        return out
    for bb in sorted(b.live_blocks()):
        t = b.term(bb)
        if t["k"] != "switch":
            continue
        l = F.op_local(t["o"])
        if l is None:
            continue
        for dbb, idx, s in b.iter_assigns():
            if s["p"] == [l] and s["r"]["k"] == "disc":
                pl = s["r"]["p"]
                if adt_suffix.split("::")[-1] in (b.local_ty(pl[0]) or ""):
                    arms = {}
                    for v, tgt in t["ts"]:
                        if int(v) < len(names):
                            arms[names[int(v)]] = tgt
                    rest = [n for n in names if n not in arms]
                    if len(rest) == 1:
                        arms[rest[0]] = t["else"]
                    out.append((bb, pl, arms))
    return out


def ready_none_blocks(b):
    """blocks assigning `_0 = Poll::Ready{x}` with x an Option::None aggregate; also (`_0 = Ready{x}`, x maybe None)"""
    out = []
    for bb, idx, s in b.iter_assigns():
        r = s["r"]
        if s["p"] == [0] and r["k"] == "agg" and r.get("vn") == "Ready":
            e = flow.expr_of(b, r["ops"][0])
            if e[0] == "agg" and isinstance(e[1], tuple) and e[1][1] == "None":
                out.append(bb)
    return out


def eof(ctx, facts, ex):
    ctx.rule("EOF: BufDeque::extend yields Finished only on the `buffered_size > 0` false edge and Error on the true edge; RecordsStream/LengthDelimitedStream return Ready(None) only in the Finished arm (and with no pending length); BufferedBytesStream returns None only with an empty buffer and flushes the tail otherwise")
    if ex is not None:
        ctx.count(bodies=1)
        fin = [bb for bb, idx, s in ex.iter_assigns() if s["r"]["k"] == "agg" and s["r"].get("vn") == "Finished"]
        err = [bb for bb, idx, s in ex.iter_assigns() if s["r"]["k"] == "agg" and s["r"].get("vn") == "Error"]
        egs = inline_size_predicates(facts, ex)
        nonempty = [tgt for tgt, f in egs if (f[0] in ("Gt", "Ne") and is_size(f[1]) and f[2] == ("const", 0)) or (f[0] == "Ge" and is_size(f[1]) and f[2] == ("const", 1))]
        empty = [tgt for tgt, f in egs if (f[0] in ("Le", "Eq") and is_size(f[1]) and f[2] == ("const", 0)) or (f[0] == "Lt" and is_size(f[1]) and f[2] == ("const", 1))]
        dom = ex.dominators()
        ok = bool(fin) and bool(nonempty) and bool(empty) and all(any(flow.dominates(dom, e_, f) for e_ in empty) for f in fin) and not any(f in ex.reachable(n) for n in nonempty for f in fin)
        ctx.ob("EOF", "extend:finished-only-if-empty", ok, "end of input with bytes left over is never `Finished`" if ok else "BufDeque::extend can report Finished while bytes are still buffered: a truncated trailing record is silently dropped", site_of(ex, fin[0]) if fin else site_of(ex))
        oke = bool(nonempty) and all(any(e_ in ex.reachable(n) for e_ in err) for n in nonempty)
        ctx.ob("EOF", "extend:leftover-is-error", oke, "end of input with bytes left over => Error" if oke else "end of input with leftover bytes does not produce an error", site_of(ex))
        # an upstream error is forwarded as Error
        arms = variant_arms(ex, "std::result::Result", facts)
    for ty, need_pending in (("RecordsStream<T, S, M>", False), ("LengthDelimitedStream<T, S>", True)):
        b = facts.bodies.get(f"<{IN}{ty} as futures_util::Stream>::poll_next")
        if b is None:
            ctx.missing("EOF", ty + "::poll_next")
            continue
        ctx.count(bodies=1)
        dom = b.dominators()
        name = ty.split("<")[0]
        arms = [a for a in variant_arms(b, IN + "ExtendResult", facts)]
        rn = ready_none_blocks(b)
        if arms and not rn and need_pending:
            # `return Poll::Ready(pending.is_some().then(|| Err(..)))` in the Finished arm: None exactly when no length
            # prefix is pending, an Err otherwise - the whole clause in one expression
            fin_t0 = [a[2].get("Finished") for a in arms if a[2].get("Finished") is not None]
            dom0 = b.dominators()
            then_ok = False
            old_cd = flow.CLOSURE_DEFS
            flow.CLOSURE_DEFS = True
            try:
                for bb_, idx_, s_ in b.iter_assigns():
                    r_ = s_["r"]
                    if s_["p"] == [0] and r_["k"] == "agg" and r_.get("vn") == "Ready" and any(flow.dominates(dom0, ft, bb_) for ft in fin_t0):
                        e_ = flow.strip_casts(flow.expr_of(b, r_["ops"][0], max_depth=10))
                        if e_[0] == "call" and re.search(r"bool>::then$|bool::then$", e_[1]) and len(e_[2]) == 2:
                            cond = str(e_[2][0])
                            cl_ = e_[2][1]
                            cb_ = facts.bodies.get(cl_[1][1]) if cl_[0] == "agg" and isinstance(cl_[1], tuple) else None
                            yields_err = cb_ is not None and any(s2["r"]["k"] == "agg" and s2["r"].get("vn") == "Err" for _, _, s2 in cb_.iter_assigns())
                            then_ok = "Option::<T>::is_some" in cond and "pending_len" in cond and yields_err
            finally:
                flow.CLOSURE_DEFS = old_cd
            if then_ok:
                ctx.ob("EOF", f"{name}:none-only-when-finished", True, "the stream ends only when extend() reported Finished", site_of(b))
                ctx.ob("EOF", f"{name}:pending-length-is-error", True, "a length prefix without its body at end of input => Err, not end-of-stream", site_of(b))
                continue
        if not arms or not rn:
            ctx.missing("EOF", f"{name}: ExtendResult match / Ready(None)")
            continue
        fin_t = [a[2].get("Finished") for a in arms if a[2].get("Finished") is not None]
        okf = all(any(flow.dominates(dom, ft, r) for ft in fin_t) for r in rn)
        ctx.ob("EOF", f"{name}:none-only-when-finished", okf, "the stream ends only when extend() reported Finished" if okf else "the parser can end the stream (Ready(None)) although the input was not cleanly finished: trailing or pending data is dropped without an error", site_of(b, rn[0]))
        err_t = [a[2].get("Error") for a in arms if a[2].get("Error") is not None]
        oke = bool(err_t) and all(not any(r in b.reachable(et, avoid=frozenset(back_edges_targets(b))) for r in rn) for et in err_t)
        # the Error arm must produce Some(Err)
        errs = [bb for bb, idx, s in b.iter_assigns() if s["r"]["k"] == "agg" and s["r"].get("vn") == "Err"]
        oke = oke and all(any(flow.dominates(dom, et, x) for x in errs) for et in err_t)
        ctx.ob("EOF", f"{name}:error-arm-yields-err", oke, "extend()'s Error is yielded as an Err item" if oke else "extend()'s Error (leftover bytes / upstream failure) is not turned into an Err item", site_of(b, err_t[0]) if err_t else site_of(b))
        if need_pending:
            gs = malsec.guards(b, r"Option::<T>::is_(some|none)$")
            # the pending length may live in the field or, for the duration of a poll, in a local taken from it
            carried = set()
            for cbb, ct in b.calls():
                if (F.callee(ct)[0] or "").endswith("Option::<T>::take") and "pending_len" in str(flow.expr_of(b, ct["args"][0], max_depth=6)) and len(ct["d"]) == 1:
                    carried |= {l for l in flow.local_aliases_fwd(b, ct["d"][0]) if len(b.defs().get(l, [])) > 1}
            gs = [g for g in gs if "pending_len" in str(g[1]) or any(f"('place', {l}" in str(g[1]) for l in carried)]
            # tests of "is a length prefix pending?": is_some()/is_none() calls, or a match / let-else on the Option itself
            tests = []
            for gbb, e, ed, c in gs:
                tests.append((gbb, ed[0] if c[1].endswith("is_some") else ed[1], ed[1] if c[1].endswith("is_some") else ed[0]))
            for sw_, pl_, arms_ in variant_arms(b, "std::option::Option", facts):
                src_ = str(flow.expr_of(b, {"cp": pl_}, max_depth=6))
                if ("pending_len" in src_ or any(pl_[0] == l for l in carried)) and "None" in arms_ and "Some" in arms_ and arms_["None"] != arms_["Some"]:
                    tests.append((sw_, arms_["None"], arms_["Some"]))
            # .. also when the Option is reached through the pinned projection (`*this.pending_len`): the discriminant
            # switch on a place that is the pending_len field itself (Option: 0 = None, 1 = Some)
            for sbb_ in sorted(b.live_blocks()):
                t_ = b.term(sbb_)
                if t_["k"] != "switch" or any(sbb_ == x[0] for x in tests):
                    continue
                l_ = F.op_local(t_["o"])
                for dbb_, didx_, s_ in b.iter_assigns():
                    if s_["p"] == [l_] and s_["r"]["k"] == "disc" and len(s_["r"]["p"]) > 1 and "pending_len" in str(flow.expr_of(b, {"cp": s_["r"]["p"]}, max_depth=6)):
                        tg = {int(v): tgt for v, tgt in t_["ts"]}
                        none_t = tg.get(0, t_["else"] if 1 in tg else None)
                        some_t = tg.get(1, t_["else"] if 0 in tg else None)
                        if none_t is not None and some_t is not None and none_t != some_t:
                            tests.append((sbb_, none_t, some_t))
            okp = False
            for gbb, tgt_nopending, tgt_pending in tests:
                if any(flow.dominates(dom, ft, gbb) for ft in fin_t) and all(flow.dominates(dom, tgt_nopending, r) or not flow.dominates(dom, gbb, r) for r in rn) and not any(r in b.reachable(tgt_pending, avoid=frozenset(back_edges_targets(b))) for r in rn):
                    okp = True
            # every Ready(None) must be behind such a test
            okp = okp and all(any(flow.dominates(dom, g[0], r) for g in tests) for r in rn)
            ctx.ob("EOF", f"{name}:pending-length-is-error", okp, "a length prefix without its body at end of input => Err, not end-of-stream" if okp else "at end of input a pending length prefix (record body missing) does not prevent Ready(None): truncated last record accepted", site_of(b, rn[0]))
    bb_ = facts.bodies.get(f"<{BUF}BufferedBytesStream<S> as futures_util::Stream>::poll_next")
    if bb_ is None:
        ctx.missing("EOF", "BufferedBytesStream::poll_next")
    else:
        ctx.count(bodies=1)
        dom = bb_.dominators()
        # only the None that becomes the stream's item (`Ready(None)`, directly or through the local that Ready(..) wraps);
        # other Option values in the body (e.g. "nothing to hand out yet") are not ends of the stream
        ret_locals = set()
        for bb, idx, s in bb_.iter_assigns():
            if s["p"] == [0] and s["r"]["k"] == "agg" and s["r"].get("vn") == "Ready" and s["r"].get("ops"):
                l_ = F.op_local(s["r"]["ops"][0])
                if l_ is not None:
                    ret_locals |= {l_}
                    for dbb, didx, d in bb_.defs().get(l_, []):
                        if didx != "t" and d["k"] == "use" and F.op_local(d["o"]) is not None:
                            ret_locals.add(F.op_local(d["o"]))
        nones = [bb for bb, idx, s in bb_.iter_assigns() if s["r"]["k"] == "agg" and s["r"].get("adt") == "std::option::Option" and s["r"].get("vn") == "None" and (s["p"][0] in ret_locals or s["p"] == [0])]
        gs = [g for g in malsec.guards(bb_, r"Vec::<T, A>::is_empty$") if "buffer" in str(g[1])]
        ok = bool(nones) and bool(gs) and all(any(flow.dominates(dom, g[2][1], n) for g in gs) for n in nones)
        ctx.ob("EOF", "BufferedBytesStream:none-only-if-buffer-empty", ok, "upstream done + empty buffer => None" if ok else "BufferedBytesStream can end the stream while bytes are still buffered (tail lost)", site_of(bb_, nones[0]) if nones else site_of(bb_))
        # the non-empty edge flushes the buffer
        flush = False
        for g in gs:
            for bb, t in bb_.calls():
                if (F.callee(t)[0] or "").endswith("take_next") and flow.dominates(dom, g[2][0], bb):
                    flush = True
        ctx.ob("EOF", "BufferedBytesStream:tail-is-flushed", flush, "upstream done + bytes buffered => they are emitted" if flush else "the buffered tail is not emitted when the upstream ends", site_of(bb_))


def inline_size_predicates(facts, b):
    """edge facts of b, with a boolean helper call `self.pred()` on the BufDeque replaced by the comparison of
    buffered_size that the helper returns (one level of inlining; helpers that look at anything else stay opaque)"""
    NEG = {"Lt": "Ge", "Le": "Gt", "Gt": "Le", "Ge": "Lt", "Eq": "Ne", "Ne": "Eq"}
    out = []
    for tgt, f in edge_guards(b):
        if f[0] in ("true", "false") and f[1][0] == "call" and f[1][1].startswith(BD) and f[1][2] and flow.strip_casts(f[1][2][0]) in (("arg", 1), ("ref", ("arg", 1))):
            cb = facts.bodies.get(f[1][1])
            if cb is not None:
                e = flow.strip_casts(flow.expr_of(cb, {"cp": [0]}, max_depth=20))
                if e[0] == "bin" and e[1] in NEG and is_size(flow.strip_casts(e[2])):
                    op = e[1] if f[0] == "true" else NEG[e[1]]
                    out.append((tgt, (op, flow.strip_casts(e[2]), flow.strip_casts(e[3]))))
                    continue
        out.append((tgt, f))
    return out


def back_edges_targets(b):
    """loop headers (targets of back edges) - used to stop reachability at the next iteration"""
    dom = b.dominators()
    out = set()
    for bb in b.live_blocks():
        for s in b.succs(bb):
            if flow.dominates(dom, s, bb):
                out.add(s)
    return out


# ---------------------------------------------------------------------------------------------
def state(ctx, facts):
    ctx.rule("STATE: LengthDelimitedStream.pending_len := Some(n) only with n read from the buffer as a Length; := None only on the Some edge of the body read; the body read is read_bytes(pending) (or the empty record when pending == 0)")
    b = facts.bodies.get(f"<{IN}LengthDelimitedStream<T, S> as futures_util::Stream>::poll_next")
    if b is None:
        ctx.missing("STATE", "LengthDelimitedStream::poll_next")
        return
    ctx.count(bodies=1)
    dom = b.dominators()
    def is_field(p):
        return len(p) > 1 and any(isinstance(x, list) and x[0] == "f" and x[2:] == ["pending_len"] for x in p)
    writes = []
    for bb, idx, s in b.iter_assigns():
        if is_field(s["p"]):
            writes.append((bb, idx, flow.expr_of(b, s["r"]["o"]) if s["r"]["k"] == "use" else ("?",)))
    # the state may be carried in a local for the duration of one poll: `let mut p = this.pending_len.take()` ...
    carrier = None
    for bb, t in b.calls():
        if (F.callee(t)[0] or "").endswith("Option::<T>::take") and "pending_len" in str(flow.expr_of(b, t["args"][0], max_depth=6)) and len(t["d"]) == 1:
            al = flow.local_aliases_fwd(b, t["d"][0])
            multi = [l for l in al if len(b.defs().get(l, [])) > 1]
            if multi:
                carrier = (multi[0], bb)
    if carrier is not None:
        L, take_bb = carrier
        lw = [(bb, idx, flow.expr_of(b, s["r"]["o"]) if s["r"]["k"] == "use" else ("?",)) for bb, idx, s in b.iter_assigns() if s["p"] == [L] and bb != take_bb]
        stores = {bb for bb, idx, e in writes if e[0] in ("place",) and e[1] == L or (e[0] == "place" and L in e)}
        stores |= {bb for bb, idx, s in b.iter_assigns() if is_field(s["p"]) and s["r"]["k"] == "use" and F.op_local(s["r"]["o"]) in flow.local_aliases_fwd(b, L) | {L}}
        rets = list(flow.ret_blocks(b))
        lost = None
        # where the local is known to be None nothing has to be written back (the field was emptied by take())
        none_known = set()
        for g in malsec.guards(b, r"Option::<T>::is_(none|some)$"):
            if f"('place', {L}" in str(g[1]) or "Option::<T>::take" in str(g[1]):
                none_known.add(g[2][1] if g[3][1].endswith("is_none") else g[2][0])
        for sbb in b.live_blocks():
            t_ = b.term(sbb)
            if t_["k"] == "switch":
                e_ = flow.expr_of(b, t_["o"])
                if e_[0] == "disc" and (e_[1][:2] == ("place", L)):
                    none_known |= {tgt for v, tgt in t_["ts"] if int(v) == 0}
        for wbb in [take_bb] + [x[0] for x in lw if not (x[2][0] == "agg" and isinstance(x[2][1], tuple) and x[2][1][1] == "None")]:
            others = {x[0] for x in lw if x[0] != wbb} | none_known
            reach = flow.reach_avoiding(b, b.succs(wbb), stores | others)
            if any(r in reach for r in rets) and wbb not in stores:
                # which exit?
                lost = wbb
                break
        ctx.ob("STATE", "carried-state-stored-back", lost is None, "the length prefix held in a local during the poll is written back to pending_len before every return" if lost is None else "the pending length prefix is held in a local and a return (e.g. Poll::Pending while waiting for the rest of the record) is reachable without writing it back: the prefix is lost and the next poll parses payload bytes as a length", site_of(b, lost) if lost is not None else site_of(b, take_bb))
        writes = lw
    ctx.floor("STATE", "pending_len writes", len(writes), 2)
    readers = length_passthrough_readers(facts)
    body_reads = [(bb, t) for bb, t in b.calls() if (F.callee(t)[0] or "") in readers]
    if len(body_reads) != 1:
        ctx.missing("STATE", "single read_bytes(pending) in LengthDelimitedStream::poll_next")
        return
    rbb, rt = body_reads[0]
    n_e = str(flow.expr_of(b, rt["args"][1]))
    okr = "pending_len" in n_e or (carrier is not None and (f"('place', {carrier[0]}" in n_e or "Option::<T>::take" in n_e))
    ctx.ob("STATE", "body-read-uses-pending-length", okr, "read_bytes(pending_len)" if okr else "the record body is read with a length that is not the pending length prefix", site_of(b, rbb))
    # the Option holding the body
    body_local = rt["d"][0] if len(rt["d"]) == 1 else None
    for k, (bb, idx, e) in enumerate(writes):
        e = flow.strip_casts(e)
        if e[0] == "agg" and isinstance(e[1], tuple) and e[1][1] == "Some":
            s = str(e[2][0])
            ok = "read_infallible" in s
            ctx.ob("STATE", "set-from-length-read", ok, "pending_len = Some(length read from the buffer)" if ok else "pending_len is set from something other than a Length read out of the buffer", site_of(b, bb, idx))
            # only when none is pending
            gs = [g for g in malsec.guards(b, r"Option::<T>::is_none$") if "pending_len" in str(g[1]) or (carrier is not None and f"('place', {carrier[0]}" in str(g[1]))]
            okg = any(flow.dominates(dom, g[2][1], bb) for g in gs)
            ctx.ob("STATE", "set-only-when-none-pending", okg, "a new length is read only when no record is pending" if okg else "a new length prefix can be read while a record body is still pending (the pending length is overwritten: desynchronised framing)", site_of(b, bb, idx))
        elif e[0] == "agg" and isinstance(e[1], tuple) and e[1][1] == "None":
            # dominated by the Some edge of the discriminant switch on the body option
            ok = False
            for sbb in b.live_blocks():
                t = b.term(sbb)
                if t["k"] != "switch":
                    continue
                l = F.op_local(t["o"])
                for dbb, didx, s in b.iter_assigns():
                    if s["p"] == [l] and s["r"]["k"] == "disc" and body_local is not None and s["r"]["p"][0] == body_local:
                        some_t = [tgt for v, tgt in t["ts"] if int(v) == 1]
                        if some_t and flow.dominates(dom, some_t[0], bb):
                            ok = True
            ctx.ob("STATE", "cleared-only-after-body-read", ok, "pending_len = None only once the record body was obtained" if ok else "pending_len is cleared on a path on which the record body was not read (the next bytes are parsed as a length: desynchronised framing when a record straddles chunks)", site_of(b, bb, idx))
        else:
            ctx.ob("STATE", f"write#{k}", False, f"unrecognised write to pending_len: {str(e)[:80]}", site_of(b, bb, idx))


def length_passthrough_readers(facts):
    """read_bytes and every BufDeque method that only forwards its own length argument to a single read_bytes call
    (a helper such as `read_payload(len)` = `if len == 0 { Some(empty) } else { self.read_bytes(len) }`): callers of
    such a helper read `len` bytes exactly as if they had called read_bytes themselves"""
    out = {BD + "read_bytes"}
    for p, wb in facts.bodies.items():
        if not p.startswith(BD) or p == BD + "read_bytes" or "::{closure" in p or facts.is_test_path(p):
            continue
        cs = [t for bb, t in wb.calls() if (F.callee(t)[0] or "") == BD + "read_bytes"]
        if len(cs) != 1:
            continue
        a = [flow.strip_casts(flow.expr_of(wb, x, max_depth=6)) for x in cs[0]["args"]]
        if len(a) == 2 and a[0] == ("arg", 1) and a[1] == ("arg", 2) and not removals(wb):
            out.add(p)
    return out


# ---------------------------------------------------------------------------------------------
def lower_bound(e):
    e = flow.strip_casts(e)
    if e[0] == "const" and isinstance(e[1], int):
        return e[1]
    if e[0] == "call" and re.search(r"cmp::max$|Ord::max$", e[1]):
        return max(lower_bound(a) for a in e[2])
    if e[0] == "call" and re.search(r"cmp::min$|Ord::min$", e[1]):
        return min(lower_bound(a) for a in e[2])
    if e[0] == "call" and re.search(r"Ord::clamp$", e[1]) and len(e[2]) == 3:
        return lower_bound(e[2][1])
    if e[0] == "bin" and e[1] == "Add":
        return lower_bound(e[2]) + lower_bound(e[3])
    return 0


def progress(ctx, facts):
    ctx.rule("PROGRESS: Batch::read_from requests count >= 1 records (provable lower bound of the count expression) and, evaluated for record sizes 1..9 and every contiguous length, never more than the complete contiguous records (beyond one); Single / Length readers request exactly Size bytes")
    b = facts.bodies.get(f"<{IN}Batch as {IN}Mode>::read_from")
    if b is None:
        ctx.missing("PROGRESS", "Batch::read_from")
    else:
        ctx.count(bodies=1)
        cs = [t for bb, t in b.calls() if (F.callee(t)[0] or "") == BD + "read_multi"]
        if len(cs) != 1:
            ctx.missing("PROGRESS", "read_multi call in Batch::read_from")
        else:
            e = flow.expr_of(b, cs[0]["args"][1])
            lb = lower_bound(e)
            # and never more than what is contiguous (beyond one record): a larger request goes through the slow path or
            # waits for bytes that may belong to the next poll although complete records are already there
            from rules.C13 import ieval_in, NoEval
            CL = ("call", BD + "contiguous_len", (("arg", 1),))
            bad = None
            try:
                for sz in range(1, 10):
                    for c in range(0, 5 * sz + 3):
                        n = ieval_in(b, e, {CL: c, ("const", "typenum::Unsigned::USIZE"): sz})
                        if n < 1 or (n > 1 and n * sz > c):
                            bad = f"record size {sz}, {c} contiguous bytes: the reader asks for {n} records, more than the {c // sz} complete ones that are contiguous: at the end of the input complete records stay unread and are reported as trailing bytes"
                            break
                    if bad:
                        break
            except NoEval as ex:
                bad = f"cannot evaluate the count expression ({ex})"
            ctx.ob("PROGRESS", "Batch:count-fits-contiguous", bad is None, "1 <= count and count * Size <= contiguous bytes (beyond one record) for sizes 1..9" if bad is None else bad, site_of(b))
            if lb < 1 and bad is None:
                lb = 1          # not provable from the expression's shape (e.g. a value selected by a branch), but the evaluation above found count >= 1 at every grid point
            ctx.ob("PROGRESS", "Batch:count>=1", lb >= 1, f"count has lower bound {lb}" if lb >= 1 else "the Batch reader can ask for 0 records: a record that straddles two chunks is never assembled (stall that depends on chunking)", site_of(b))
    rm = facts.bodies.get(BD + "read_multi")
    usz = ("const", "typenum::Unsigned::USIZE")
    for name in ("read_multi", "try_read", "read_infallible"):
        rb_ = facts.bodies.get(BD + name)
        if rb_ is None:
            ctx.missing("PROGRESS", "BufDeque::" + name)
            continue
        ctx.count(bodies=1)
        cs = [t for bb, t in rb_.calls() if (F.callee(t)[0] or "") == BD + "read_bytes"]
        ok = False
        if len(cs) == 1:
            n = flow.strip_casts(flow.expr_of(rb_, cs[0]["args"][1]))
            ok = n == usz if name != "read_multi" else (n[0] == "bin" and n[1] == "Mul" and usz in (flow.strip_casts(n[2]), flow.strip_casts(n[3])) and ("arg", 2) in (flow.strip_casts(n[2]), flow.strip_casts(n[3])))
        ctx.ob("PROGRESS", f"{name}:reads-size-bytes", ok, "asks read_bytes for exactly the record size (times count)" if ok else "the reader does not ask read_bytes for the record's own Size: records are cut at the wrong offsets", site_of(rb_))


# ---------------------------------------------------------------------------------------------
def pending_edge(ctx, facts):
    ctx.rule("PENDING: in the parser poll_next bodies every Poll::Pending aggregate is dominated by the Pending arm of the inner stream's poll result")
    n = 0
    for b in parser_bodies(facts):
        if not b.locals[0]["ty"].startswith("std::task::Poll<"):
            continue
        pend = [(bb, idx) for bb, idx, s in b.iter_assigns() if s["r"]["k"] == "agg" and s["r"].get("adt") == "std::task::Poll" and s["r"].get("vn") == "Pending"]
        if not pend:
            continue
        ctx.count(bodies=1)
        dom = b.dominators()
        arms = variant_arms(b, "std::task::Poll", facts)
        # only switches on the result of an inner poll call
        ptargets = []
        for sbb, pl, a in arms:
            e = flow.expr_of(b, {"cp": pl}) if False else None
            src = [t for cbb, t in b.calls() if t["d"] == pl and re.search(r"poll_next$|poll$|poll_next_unpin$", F.callee(t)[0] or "")]
            if src and a.get("Pending") is not None:
                ptargets.append(a["Pending"])
        name = b.path.replace(IN, "").replace(BUF, "")
        for k, (bb, idx) in enumerate(pend):
            n += 1
            ok = any(flow.dominates(dom, pt, bb) for pt in ptargets)
            ctx.ob("PENDING", f"{name}#pending{k}", ok, "Pending is passed on from the inner stream (which holds the waker)" if ok else "Poll::Pending is returned on a path where the inner stream did not return Pending: nobody will wake this task (stall for some chunkings)", site_of(b, bb, idx))
    ctx.floor("PENDING", "Pending sites in parser polls", n, 3)


def items_flushed(ctx, facts):
    ctx.rule("ITEMS: in LengthDelimitedStream::poll_next, from the block that pushes a parsed record no return is reachable (within the same call) other than the one returning Ok(items)")
    b = facts.bodies.get(f"<{IN}LengthDelimitedStream<T, S> as futures_util::Stream>::poll_next")
    if b is None:
        ctx.missing("ITEMS", "LengthDelimitedStream::poll_next")
        return
    ctx.count(bodies=1)
    pushes = [(bb, t) for bb, t in b.calls() if (F.callee(t)[0] or "").endswith("Vec::<T, A>::push")]
    if not pushes:
        ctx.missing("ITEMS", "items.push in LengthDelimitedStream::poll_next")
        return
    items = flow.strip_casts(flow.expr_of(b, pushes[0][1]["args"][0]))
    # return sites: assignments to _0
    good, other = [], []
    for bb, idx, s in b.iter_assigns():
        if s["p"] != [0]:
            continue
        e = str(flow.expr_of(b, s["r"]["ops"][0])) if s["r"]["k"] == "agg" and s["r"].get("ops") else ""
        # `let outcome = if .. { Err(e) } else { Ok(items) }; return Ready(Some(outcome))`: judge each definition of the
        # value that is returned, where it is made
        inner = flow.strip_casts(flow.expr_of(b, s["r"]["ops"][0], max_depth=6)) if s["r"]["k"] == "agg" and s["r"].get("ops") else None
        multi = None
        if inner is not None and inner[0] == "agg" and isinstance(inner[1], tuple) and inner[1][1] == "Some" and inner[2] and flow.strip_casts(inner[2][0])[0] == "place" and len(flow.strip_casts(inner[2][0])) == 2:
            multi = flow.strip_casts(inner[2][0])[1]
        if multi is not None and s["r"].get("vn") == "Ready":
            for dbb, didx, d in b.defs().get(multi, []):
                de = str(flow.expr_of(b, d["ops"][0])) if didx != "t" and d["k"] == "agg" and d.get("ops") else ""
                if didx != "t" and d["k"] == "agg" and d.get("vn") == "Ok" and str(items) in de:
                    good.append(dbb)
                else:
                    other.append((dbb, didx, "Ready", "'Err')" if (didx != "t" and d.get("vn") == "Err") else de))
            continue
        if s["r"]["k"] == "agg" and s["r"].get("vn") == "Ready" and "'Ok')" in e and str(items) in e:
            good.append(bb)
        else:
            other.append((bb, idx, s["r"].get("vn"), e))
    ctx.ob("ITEMS", "returns-ok-items", bool(good), "Ready(Some(Ok(items))) exists" if good else "no return of the parsed items", site_of(b))
    # after a push `items.is_empty()` is false: its true edge is infeasible on these paths
    infeasible = [g[2][1] for g in malsec.guards(b, r"Vec::<T, A>::is_empty$") if flow.strip_casts(g[3][2][0]) == items]
    reach = b.reachable(pushes[0][1]["t"], avoid=frozenset(good) | frozenset(infeasible))
    for bb, idx, vn, e in other:
        if bb not in reach:
            continue
        kind = "Pending" if vn == "Pending" else ("Err" if "'Err')" in e else ("None" if "'None')" in e else "other"))
        ctx.ob("ITEMS", f"held-records-then-{kind}", False,
               f"after pushing a parsed record the same poll can return {kind} without delivering the records it holds: whether records that precede a bad or truncated one are delivered depends on how the bytes were chunked", site_of(b, bb, idx))
    if not any(bb in reach for bb, _, _, _ in other):
        ctx.ob("ITEMS", "held-records-always-delivered", True, "every return after a push delivers the items", site_of(b))


def deferred_error_first(ctx, facts):
    ctx.rule("ITEMS-order: in LengthDelimitedStream::poll_next a deferred parse error (pending_err) is taken and returned before anything is read from the buffer in that poll, and storing it is followed by a return without further reads")
    b = facts.bodies.get(f"<{IN}LengthDelimitedStream<T, S> as futures_util::Stream>::poll_next")
    if b is None:
        ctx.missing("ITEMS-order", "LengthDelimitedStream::poll_next")
        return
    dom = b.dominators()
    takes = [bb for bb, t in b.calls() if (F.callee(t)[0] or "").endswith("Option::<T>::take") and "pending_err" in str(flow.expr_of(b, t["args"][0], max_depth=12))]
    stores = [bb for bb, idx, st in b.iter_assigns() if len(st["p"]) > 1 and any(isinstance(x, list) and x[0] == "f" and x[2:] == ["pending_err"] for x in st["p"]) and "'Some'" in str(flow.expr_of(b, st["r"]["o"], max_depth=8) if st["r"]["k"] == "use" else "")]
    reads = [bb for bb, t in b.calls() if re.search(r"BufDeque::(read_bytes|read_infallible|try_read|read_multi)$", F.callee(t)[0] or "") or (F.callee(t)[0] or "") in length_passthrough_readers(facts)]
    if not stores and not takes:
        ctx.ob("ITEMS-order", "no-deferred-error", True, "errors are not deferred in this version", site_of(b))
        return
    ctx.count(bodies=1)
    ok1 = len(takes) >= 1 and all(any(flow.dominates(dom, tk, r) for tk in takes) for r in reads)
    ctx.ob("ITEMS-order", "deferred-error-before-any-read", ok1, "a stored error is the first thing the next poll yields" if ok1 else "records can be read and yielded while a deferred parse error is still stored: the error is reported after later records, at a position that depends on how the body was chunked", site_of(b, takes[0]) if takes else site_of(b))
    ok2 = True
    for sb in stores:
        reach = b.reachable(sb, avoid=frozenset(bb for bb in b.live_blocks() if b.term(bb)["k"] == "ret"))
        if any(r in reach and r != sb for r in reads):
            ok2 = False
    ctx.ob("ITEMS-order", "store-then-return", ok2, "after storing the error the poll returns without reading on" if ok2 else "after a parse error was stored the same poll keeps reading records", site_of(b, stores[0]) if stores else site_of(b))


def parse_errors(ctx, facts):
    ctx.rule("PARSE-err: in RecordsStream::poll_next the Ready(Some(..)) payload is map_err(<the Some payload of Mode::read_from>) and no branch of the function tests the discriminant of that inner Result")
    b = facts.bodies.get(f"<{IN}RecordsStream<T, S, M> as futures_util::Stream>::poll_next")
    if b is None:
        ctx.missing("PARSE-err", "RecordsStream::poll_next")
        return
    ctx.count(bodies=1)
    rf = [(bb, t) for bb, t in b.calls() if (F.callee(t)[0] or "").endswith("input::Mode::read_from")]
    if len(rf) != 1:
        ctx.missing("PARSE-err", "single Mode::read_from call")
        return
    res = rf[0][1]["d"]
    # switches on a discriminant of a place inside (res as Some).0
    inner_tests = []
    for bb in sorted(b.live_blocks()):
        t = b.term(bb)
        if t["k"] != "switch":
            continue
        l = F.op_local(t["o"])
        for dbb, idx, st in b.iter_assigns():
            if l is not None and st["p"] == [l] and st["r"]["k"] == "disc":
                pl = st["r"]["p"]
                if pl[0] == res[0] and len(pl) > 1:
                    inner_tests.append(bb)
                else:
                    # a copy of the payload
                    e = str(flow.expr_of(b, {"cp": pl}, max_depth=12))
                    if "Mode::read_from" in e and "as:Some" in e:
                        inner_tests.append(bb)
    ok1 = not inner_tests
    ctx.ob("PARSE-err", "RecordsStream:no-test-of-inner-result", ok1, "Ok and Err results of read_from take the same path" if ok1 else "RecordsStream::poll_next branches on whether the parsed record is Ok: a record that fails to deserialize (bytes already consumed) is skipped instead of being reported - the stream silently loses a record", site_of(b, inner_tests[0]) if inner_tests else site_of(b, rf[0][0]))
    ok2 = False
    for bb, idx, st in b.iter_assigns():
        r = st["r"]
        if r["k"] == "agg" and r.get("adt") == "std::option::Option" and r.get("vn") == "Some":
            e = str(flow.expr_of(b, r["ops"][0], max_depth=20))
            if "Mode::read_from" in e:
                ok2 = "map_err" in e or e.count("(") < 12
    ctx.ob("PARSE-err", "RecordsStream:yields-what-was-read", ok2, "Ready(Some(read.map_err(..)))" if ok2 else "the item yielded is not the (error-mapped) result of read_from", site_of(b, rf[0][0]))
