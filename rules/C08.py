"""C08  Every value type advertised as a field is a field with canonical elements.

Decided statically (necessary conditions; DESIGN.md §3/C08):
  CONST  modulus certificates: every `impl PrimeField` PRIME is prime (deterministic Miller-Rabin),
         every `impl GaloisField` POLYNOMIAL has degree BITS and is irreducible over GF(2) (Rabin),
         deferred-reduction interval N of every optimised accumulator satisfies
         N*(P-1)^2 + (P-1) < 2^128, DZKP proof-field constants are what their names say (mod P).
  RANGE  inductive type invariant `self.0 < PRIME` of every prime-field newtype: every aggregate
         (constructor) site of the newtype in the crate produces a value in [0, PRIME-1], assuming
         the invariant for field-typed inputs and the full integer range for raw inputs; no
         `+ - *` in those bodies can overflow its operation store (release builds wrap silently).
  PAD    padding-clean invariant of bit arrays whose BITS is not a multiple of 8: no whole-storage
         `Not` (bitvec's BitArray::not flips padding bits) reaches a constructor.
"""
import re
from vlib import facts as F, ranges as R, numth, flow
from vlib.core import site_of

LEVEL = "other"
EXPLANATION = "C08: CONST certificates on compiler-evaluated constants, RANGE interval analysis of every constructor site of each prime-field newtype, PAD operator census on padded bit arrays."

PRIMEFIELD = "ff::prime_field::PrimeField"
GALOIS = "ff::galois_field::GaloisField"
SHARED = "secret_sharing::SharedValue"


def impl_const(facts, ty, trait, name):
    return facts.const_val(f"<{ty} as {trait}>::{name}")


def prime_fields(facts):
    out = []
    for im in facts.impls:
        if im.get("trait") == PRIMEFIELD and not im["generic"]:
            out.append(im["self"])
    return sorted(set(out))


def galois_fields(facts):
    return sorted({im["self"] for im in facts.impls if im.get("trait") == GALOIS and not im["generic"]})


def run(ctx):
    facts = ctx.facts()
    check_consts(ctx, facts)
    check_range(ctx, facts)
    check_padding(ctx, facts)
    check_pad_constructors(ctx, facts)
    from rules import C09
    C09.decoders(ctx, facts, siblings=False)   # decoders of padded / range-restricted types reject non-canonical byte strings
    check_accumulator(ctx, facts)
    check_accumulator_window(ctx, facts)
    check_dzkp_consts(ctx, facts)
    check_invert_users(ctx, facts)
    if ctx.cfg == "X":
        check_clmul_widening(ctx, facts)


CONFIGS_QUICK = ["Q", "X"]
CONFIGS_THOROUGH = ["Q", "P", "M", "N", "X"]


def check_clmul_widening(ctx, facts):
    """With the pclmulqdq target feature (CI's release / extra / slow jobs, any `-C target-cpu=native` build) Galois-field
    multiplication goes through `_mm_clmulepi64_si128` and reads the 128-bit product back as two i64 lanes.  A lane whose
    top bit is set must be widened as an unsigned value: `lane as u128` on an i64 sign-extends and ORs 64 one-bits into
    the upper half of the product (x * y is then wrong whenever the unreduced product has an x^63 term - Gf40Bit)."""
    ctx.rule("CLMUL-widen (config X, target feature pclmulqdq): in ff::galois_field no integer cast widens a signed value (iN as a wider type sign-extends): a lane read with _mm_extract_epi64 goes i64 -> u64 (same width) -> u128")
    n_lane, n_cast = 0, 0
    for b in facts.non_test_bodies():
        if not b.path.startswith("ff::galois_field::"):
            continue
        n_lane += len(flow.find_calls(b, re.compile(r"_mm_extract_epi64$")))
        for bb, idx, st in b.iter_assigns():
            r = st["r"]
            if r["k"] != "cast" or r.get("ck") != "IntToInt":
                continue
            src = b.local_ty(F.op_local(r["o"])) if F.op_local(r["o"]) is not None else None
            sr, tr = R.ty_range(src or ""), R.ty_range(r.get("ty") or "")
            if not sr or not tr or sr[0] >= 0:
                continue
            n_cast += 1
            widens = (tr[1] - tr[0]) > (sr[1] - sr[0])
            ctx.ob("CLMUL-widen", f"{F.short(b.path, 2)}#{n_cast}:{src}->{r.get('ty')}", not widens,
                   "a signed value is only reinterpreted at the same width" if not widens else f"`{src} as {r.get('ty')}` sign-extends: a product lane with its top bit set puts 64 one-bits into the upper half of the carry-less product, so multiplication in the wide binary fields is wrong",
                   site_of(b, bb, idx))
    ctx.floor("CLMUL-widen", "lanes read back from the carry-less multiply (is the hardware path compiled in this configuration?)", n_lane, 1)


INVERT_USERS = {
    # non-test bodies that may take a multiplicative inverse, with the reason the argument is never zero (or zero is refused)
    "ff::prime_field::batch_invert": "the batch routine itself: one invert() of the product of its inputs; invert() asserts its argument is non-zero",
    "ff::ec_prime_field::Fp25519::invert": "forwards to the scalar library",
    "ff::ec_prime_field::batch_invert": "forwards to the scalar library's batch inversion",
    "protocol::ipa_prf::malicious_security::lagrange::CanonicalLagrangeDenominator::<F, N>::new": "inverts products of differences i - j of distinct evaluation points below N: constants, never zero",
    "protocol::ipa_prf::prf_eval::eval_dy_prf": "the Dodis-Yampolskiy PRF inverts the opened, blinded value r*(k + x), zero only with negligible probability",
}


def check_invert_users(ctx, facts):
    """Division is the one field operation that is partial.  A helper that is supposed to agree with the plain field
    operations "on all inputs" (Lagrange rows for any output point, batch results for any batch) must not divide by
    something an input can make zero: multiplying the other factors works for every input, dividing the full product by
    one factor is undefined exactly where that factor vanishes (an output point that is one of the input points)."""
    ctx.rule("WHO-invert: PrimeField::invert / batch_invert (and the Fp25519 / scalar counterparts) are called, outside tests, only by the frozen set of users whose argument is a non-zero constant or for which zero is refused or negligible; every other caller is a violation")
    rx = re.compile(r"(PrimeField::invert|::batch_invert|Fp25519::invert|Scalar::invert|Scalar::batch_invert)$")
    n = 0
    for p, b in sorted(facts.bodies.items()):
        if facts.is_test_path(p) or not b.file.startswith("ipa-core/"):
            continue
        cs = [(bb, t) for bb, t in b.calls() if rx.search(F.callee(t)[0] or "")]
        if not cs:
            continue
        n += 1
        ctx.count(bodies=1, calls=len(cs))
        root = p.split("::{closure")[0]
        why = INVERT_USERS.get(root)
        ctx.ob("WHO-invert", root[-80:], why is not None, why or f"{root.split('::')[-1]} takes a multiplicative inverse ({(F.callee(cs[0][1])[0] or '').split('::')[-1]}) of a value that is not known to be non-zero: the result is undefined (panic in invert's assertion, or a silent 0) for the inputs that make it vanish, where the plain field operations are defined", site_of(b, cs[0][0]))
    ctx.floor("WHO-invert", "bodies that invert", n, 4)


# ---------------------------------------------------------------------------------------------
def check_consts(ctx, facts):
    ctx.rule("CONST-prime: for every non-generic `impl PrimeField for T`, the compiler-evaluated <T as PrimeField>::PRIME passes deterministic Miller-Rabin")
    ctx.rule("CONST-irreducible: for every non-generic `impl GaloisField for T`, deg(POLYNOMIAL) == <T as SharedValue>::BITS and POLYNOMIAL is irreducible over GF(2) (Rabin)")
    pfs = prime_fields(facts)
    ctx.floor("CONST-prime", "impl PrimeField", len(pfs), 3)
    for t in pfs:
        p = impl_const(facts, t, PRIMEFIELD, "PRIME")
        if p is None:
            ctx.missing("CONST-prime", f"<{t} as PrimeField>::PRIME (not evaluable)")
            continue
        ok = numth.is_prime(p)
        d = f"PRIME = {p} is prime" if ok else f"PRIME = {p} is composite (divisible by {numth.small_factor(p)}): Z/{p} has zero divisors"
        ctx.ob("CONST-prime", F.short(t, 1), ok, d)
        bits = impl_const(facts, t, SHARED, "BITS")
        if bits is not None:
            ctx.ob("CONST-prime-bits", F.short(t, 1), p <= (1 << bits), f"PRIME {p} fits in BITS={bits}")
    gfs = galois_fields(facts)
    ctx.floor("CONST-irreducible", "impl GaloisField", len(gfs), 7)
    for t in gfs:
        f = impl_const(facts, t, GALOIS, "POLYNOMIAL")
        bits = impl_const(facts, t, SHARED, "BITS")
        if f is None or bits is None:
            ctx.missing("CONST-irreducible", f"POLYNOMIAL/BITS of {t}")
            continue
        ctx.ob("CONST-degree", F.short(t, 1), numth.pdeg(f) == bits, f"deg({numth.poly_str(f)}) = {numth.pdeg(f)}, BITS = {bits}")
        ok = numth.gf2_irreducible(f)
        d = f"{numth.poly_str(f)} is irreducible over GF(2)"
        if not ok:
            g = numth.gf2_factor_small(f)
            d = f"{numth.poly_str(f)} is REDUCIBLE" + (f": divisible by {numth.poly_str(g)} (zero divisors: not a field)" if g else "")
        ctx.ob("CONST-irreducible", F.short(t, 1), ok, d)


def then_closure_context(facts, b):
    """A closure handed to `cond.then(closure)` runs only when cond holds: when cond is `x < K` / `x <= K` on an unsigned
    x that the closure captured, the captured value starts in [0, K-1] / [0, K] (the closure environment is parameter 1)."""
    if b.kind != "Closure" or "::{closure" not in b.path:
        return None
    par = facts.bodies.get(b.path.rsplit("::{closure", 1)[0])
    if par is None:
        return None
    from rules.C06 import upvar_sources

    def bare(e):
        e = flow.strip_casts(e)
        while e[0] in ("ref", "call") and (e[0] == "ref" or (re.search(r"(Clone::clone|Deref::deref|Borrow::borrow)$", e[1]) and e[2])):
            e = flow.strip_casts(e[1] if e[0] == "ref" else e[2][0])
        return e
    old = flow.CLOSURE_DEFS
    flow.CLOSURE_DEFS = True
    try:
        for bb, t in flow.find_calls(par, re.compile(r"<impl bool>::then$")):
            f = flow.expr_of(par, t["args"][1], max_depth=4)
            if not (f[0] == "agg" and isinstance(f[1], tuple) and f[1][:2] == ("closure", b.path)):
                continue
            cond = flow.strip_casts(flow.expr_of(par, t["args"][0], max_depth=14))
            if cond[0] != "bin" or cond[1] not in ("Lt", "Le") or cond[3][0] != "const" or not isinstance(cond[3][1], int):
                return None
            x, hi = bare(cond[2]), cond[3][1] - (1 if cond[1] == "Lt" else 0)
            ups = upvar_sources(facts, par, b.path)
            fields = []
            for i in range(16):
                nm = flow.upvar_name(b, i)
                if nm is None:
                    break
                # the captured value's type, read off the first copy out of the environment: unsigned only
                tys = {b.local_ty(st["p"][0]) for _, _, st in b.iter_assigns() if len(st["p"]) == 1 and st["r"]["k"] == "use" and (lambda pl: pl and pl[0] == 1 and len(pl) > 1 and isinstance(pl[1], list) and pl[1][:2] == ["f", i])(F.op_place(st["r"]["o"]))}
                unsigned = bool(tys) and all((R.ty_range(ty_ or "") or (1,))[0] == 0 for ty_ in tys)
                fields.append(R.Iv(0, hi) if nm in ups and bare(ups[nm]) == x and hi >= 0 and unsigned else R.TOP)
            if any(isinstance(v, R.Iv) for v in fields):
                return [R.Struct(fields)]
    finally:
        flow.CLOSURE_DEFS = old
    return None


# ---------------------------------------------------------------------------------------------
def check_range(ctx, facts):
    ctx.rule("RANGE-invariant: every aggregate site of a prime-field newtype T(v) has v in [0, PRIME-1] on every path (interval abstract interpretation; field-typed inputs and callee results assumed canonical, raw integers unconstrained)")
    ctx.rule("RANGE-no-overflow: no checked + - * in a body that constructs T or feeds its reduction can overflow its integer type")
    for t in prime_fields(facts):
        adt = facts.adts.get(t)
        if not adt or len(adt["variants"]) != 1 or len(adt["variants"][0]["fields"]) != 1:
            continue
        fty = adt["variants"][0]["fields"][0]["ty"]
        # the storage type may be written as an associated type; resolve by the PRIME constant type
        pc = facts.consts.get(f"<{t} as {PRIMEFIELD}>::PRIME")
        sty = pc.get("ty") if pc else None
        if not sty or not R.ty_range(sty) or sty == "bool":
            continue
        P = int(pc["v"])
        tshort = F.short(t, 1)

        def inv():
            return R.Struct([R.Iv(0, P - 1)], t)
        invs = {t: inv}
        n_sites = 0
        bodies = []
        for b in facts.non_test_bodies():
            has = False
            for _, _, s in b.iter_assigns():
                r = s["r"]
                if r["k"] == "agg" and r["ak"] == "adt" and r["adt"] == t:
                    has = True
            if not has:
                for _, tm in b.calls():
                    if any(re.search(re.escape(t) + r"::modulo_prime_", n) for n in F.callee_names(tm)):
                        has = True
            if has:
                bodies.append(b)
        for b in sorted(bodies, key=lambda x: x.path):
            ctx.count(bodies=1)
            site_res = {}   # ordinal key -> [ok, worst interval, site]
            ovf_res = {}

            def on_agg(body, bb, idx, s, vals, st):
                if s["r"]["adt"] != t:
                    return
                key = (bb, idx)
                v = vals[0] if vals else None
                ok = isinstance(v, R.Iv) and v.within(0, P - 1)
                cur = site_res.setdefault(key, [True, None, site_of(body, bb, idx)])
                if not ok:
                    cur[0] = False
                    cur[1] = v
                elif cur[1] is None:
                    cur[1] = v

            def on_assert(body, bb, tm, ops, cond, st):
                if not tm["ak"].startswith("Overflow"):
                    return
                key = bb
                want = 1 if tm["e"] else 0
                ok = isinstance(cond, R.Iv) and cond.const() == want
                cur = ovf_res.setdefault(key, [True, None, site_of(body, bb)])
                if not ok:
                    cur[0] = False
                    cur[1] = "%s operands %s" % (tm["ak"], ops)

            def call_model(body, bb, tm, info, argvals, st):
                return NotImplemented

            it = R.Interp(facts, on_agg=on_agg, on_assert=on_assert, call_model=call_model, type_invariants=invs)
            try:
                it.run(b, arg_values=then_closure_context(facts, b))
            except R.NotAnalysable as e:
                ctx.ob("RANGE-invariant", f"{tshort}@{b.path}", False, f"body not analysable by the interval engine: {e}", site_of(b))
                continue
            for n, (key, (ok, v, site)) in enumerate(sorted(site_res.items())):
                n_sites += 1
                d = f"constructor argument in {v} within [0, {P}-1]" if ok else f"constructor argument may be {v}, outside [0, PRIME-1] (PRIME={P}): non-canonical element"
                ctx.ob("RANGE-invariant", f"{tshort}@{b.path}#{n}", ok, d, site)
            for n, (key, (ok, v, site)) in enumerate(sorted(ovf_res.items())):
                d = "no overflow possible" if ok else f"arithmetic may overflow its type: {v}"
                ctx.ob("RANGE-no-overflow", f"{tshort}@{b.path}#{n}", ok, d, site)
        ctx.floor("RANGE-invariant", f"constructor sites of {tshort}", n_sites, 5)


# ---------------------------------------------------------------------------------------------
def check_padding(ctx, facts):
    """Bit arrays with BITS % 8 != 0 keep their padding bits zero (their deserialize rejects
    non-zero padding and equality is on raw storage).  bitvec's `BitArray::not` inverts whole
    storage elements, so `impl Not` by `Self(self.0.not())` breaks the invariant."""
    ctx.rule("PAD-not: for every padded bit-array newtype (BITS % 8 != 0) no body constructs it from the result of a whole-storage `Not::not` on the underlying BitArray")
    n = 0
    for im in facts.impls:
        if im.get("trait") != "std::ops::Not" or im["generic"]:
            continue
        t = im["self"]
        bits = impl_const(facts, t, SHARED, "BITS")
        if bits is None or bits % 8 == 0:
            continue
        body = facts.bodies.get(f"<{t} as std::ops::Not>::not")
        if body is None:
            continue
        n += 1
        ctx.count(bodies=1)
        # does the constructor argument come straight from a Not::not call on the storage?
        bad = None
        masked = False
        for bb, tm in body.calls():
            fn, res, info = F.callee(tm)
            if fn == "std::ops::Not::not" and "bitvec" in (res or info.get("self", "")):
                bad = bb
            if fn and re.search(r"(BitAnd|bitand|set|fill|mask|truncate|clear)", fn):
                masked = True
        ok = bad is None or masked
        ctx.ob("PAD-not", F.short(t, 1), ok,
               "Not keeps padding clean" if ok else f"`!x` flips the {8 * ((bits + 7) // 8) - bits} padding bit(s) of {F.short(t,1)} (BITS={bits}): result is non-canonical (unequal to the canonical value, rejected by its own deserialize)",
               site_of(body, bad) if bad is not None else site_of(body))
    ctx.floor("PAD-not", "padded bit arrays implementing Not", n, 5)


def check_pad_constructors(ctx, facts):
    """Every place that builds a padded bit array (BITS % 8 != 0) from fresh storage - not from existing elements -
    must leave the padding bits zero: by masking the source with 2^BITS-1, by checking `[BITS..].not_any()`, or by
    accepting only slices short enough (8*len <= BITS) that the padding byte bits are never written."""
    ctx.rule("PAD-construct: each aggregate site `T(BitArray::new(x))` of a padded bit-array newtype with x not derived from existing elements is discharged by (mask) x = .. & (2^BITS-1), (check) a dominating not_any() true edge, or (short) a dominating guard len(input) <= K with 8K <= BITS")
    padded = {}
    for im in facts.impls:
        if im.get("trait") == SHARED and not im["generic"]:
            bits = impl_const(facts, im["self"], SHARED, "BITS")
            if bits is not None and bits % 8 != 0 and re.search(r"(boolean_array|galois_field)::", im["self"]):
                padded[im["self"]] = bits
    n = 0
    for b in sorted(facts.non_test_bodies(), key=lambda x: x.path):
        dom = None
        for bb, idx, st in b.iter_assigns():
            r = st["r"]
            if r["k"] != "agg" or (r.get("adt") or "") not in padded or not r.get("ops"):
                continue
            bits = padded[r["adt"]]
            e = flow.expr_of(b, r["ops"][0], max_depth=40)
            es = str(e)
            if "BitArray::<A, O>::new" not in es and "from_le_bytes" not in es and "'rep'" not in es:
                continue            # derived from existing elements / constants (xor, and, identity, ZERO)
            n += 1
            dom = dom or b.dominators()
            ctx.count(bodies=1)
            mask = ("bin", "BitAnd") and re.search(r"\('bin', 'BitAnd', .*\('const', %d\)" % ((1 << bits) - 1), es) is not None
            check = short = False
            for tgt, f in flow.edge_guards(b):
                if not flow.dominates(dom, tgt, bb):
                    continue
                if f[0] == "true" and f[1][0] == "call" and f[1][1].endswith("not_any") and f"('const', {bits})" in str(f[1]):
                    check = True
                # `.any()` false is the same test (bitvec: any() = count_ones() > 0, not_any() = its negation)
                if f[0] == "false" and f[1][0] == "call" and re.search(r"::any$", f[1][1]) and "bitvec" in f[1][1] and f"('const', {bits})" in str(f[1]):
                    check = True
                if f[0] in ("Le", "Lt") and f[1][0] == "call" and f[1][1].endswith("::len") and f[2] is not None:
                    k = flow.fold(_unwrap_conv(f[2]))
                    if k[0] == "const" and isinstance(k[1], int):
                        kk = k[1] if f[0] == "Le" else k[1] - 1
                        short = 8 * kk <= bits
            ok = bool(mask or check or short)
            how = "mask" if mask else ("padding check" if check else ("short-slice guard" if short else None))
            name = F.short(r["adt"], 1) + "@" + re.sub(r"^<.* as ([\w:]+?)(<.*)?>::(\w+)$", r"\1::\3", b.path).split("::", 1)[-1][-40:]
            ctx.ob("PAD-construct", name, ok, f"padding stays zero ({how})" if ok else f"{F.short(r['adt'], 1)} (BITS={bits}) is built from raw storage without masking, padding check or a slice-length guard of at most {bits // 8} byte(s): bits above BITS can be set, giving a non-canonical element (x*1 != x, rejected by its own deserialize)", site_of(b, bb, idx))
    ctx.floor("PAD-construct", "raw constructor sites of padded bit arrays", n, 18)


def _unwrap_conv(e):
    while e[0] == "call" and re.search(r"(TryFrom::try_from|TryInto::try_into|From::from|Into::into|Result::<T, E>::(unwrap|expect))$", e[1]) and e[2]:
        e = flow.strip_casts(e[2][0])
    return e


# ---------------------------------------------------------------------------------------------
def check_accumulator(ctx, facts):
    ctx.rule("CONST-accumulator: for every `impl MultiplyAccumulate for T` whose Accumulator defers reduction over N products in u128: N*(P-1)^2 + (P-1) < 2^128")
    n = 0
    for im in facts.impls:
        if im.get("trait") != "ff::accumulator::MultiplyAccumulate" or im["generic"]:
            continue
        t = im["self"]
        for it in im["items"]:
            if it["name"] != "Accumulator" or "ty" not in it:
                continue
            m = re.match(r"^ff::accumulator::Accumulator<(.*), u128, (\d+)>$", it["ty"])
            if not m:
                continue
            n += 1
            N = int(m.group(2))
            P = impl_const(facts, t, PRIMEFIELD, "PRIME")
            if P is None:
                ctx.missing("CONST-accumulator", f"PRIME of {t}")
                continue
            worst = N * (P - 1) ** 2 + (P - 1)
            ctx.ob("CONST-accumulator", F.short(t, 1), worst < (1 << 128), f"REDUCE_INTERVAL={N}: {N}*(P-1)^2+(P-1) = 2^{worst.bit_length()-1}.. {'<' if worst < (1<<128) else '>='} 2^128")
    ctx.floor("CONST-accumulator", "deferred accumulators", n, 1)


# ---------------------------------------------------------------------------------------------
def check_dzkp_consts(ctx, facts):
    ctx.rule("CONST-dzkp: 2*INVERSE_OF_TWO == 1, MINUS_ONE_HALF + INVERSE_OF_TWO == 0, MINUS_TWO + 2 == 0 (mod PRIME) for the DZKP base field; the constants are canonical")
    t = "ff::prime_field::fp61bit::Fp61BitPrime"
    P = impl_const(facts, t, PRIMEFIELD, "PRIME")
    tr = "protocol::context::dzkp_field::DZKPBaseField"
    body_vals = {}
    for name in ("INVERSE_OF_TWO", "MINUS_ONE_HALF", "MINUS_TWO"):
        b = facts.bodies.get(f"<{t} as {tr}>::{name}")
        if b is None:
            ctx.missing("CONST-dzkp", f"<Fp61BitPrime as DZKPBaseField>::{name}")
            continue
        # the const body is `const_truncate(<literal>)` or a literal aggregate
        val = None
        for bb, tm in b.calls():
            if F.call_matches(tm, "const_truncate") and tm["args"]:
                c = F.const_int(tm["args"][0])
                if c is not None:
                    val = c % P
        for _, _, s in b.iter_assigns():
            r = s["r"]
            if r["k"] == "agg" and r["ak"] == "adt" and r["adt"] == t and r["ops"]:
                c = F.const_int(r["ops"][0])
                if c is not None:
                    val = c
        if val is None:
            ctx.ob("CONST-dzkp", name, False, "constant is not a literal the checker can read", site_of(b))
        else:
            body_vals[name] = val
    if P is None or len(body_vals) < 3:
        return
    i2, mh, m2 = body_vals["INVERSE_OF_TWO"], body_vals["MINUS_ONE_HALF"], body_vals["MINUS_TWO"]
    ctx.ob("CONST-dzkp", "INVERSE_OF_TWO", (2 * i2) % P == 1 and i2 < P, f"2*{i2} mod P = {(2*i2)%P}")
    ctx.ob("CONST-dzkp", "MINUS_ONE_HALF", (mh + i2) % P == 0 and mh < P, f"{mh}+{i2} mod P = {(mh+i2)%P}")
    ctx.ob("CONST-dzkp", "MINUS_TWO", (m2 + 2) % P == 0 and m2 < P, f"{m2}+2 mod P = {(m2+2)%P}")


# ---------------------------------------------------------------------------------------------
def check_accumulator_window(ctx, facts):
    """The constant bound N*(P-1)^2 + (P-1) < 2^128 (CONST-accumulator) only helps if at most N products are
    added between two reductions.  Structural premises, checked on every deferred-reduction multiply_accumulate:
    every product is added BEFORE the count is incremented, the count is incremented exactly once on every path,
    the reduction test is `count == REDUCE_INTERVAL` evaluated after the increment, and on its true edge the
    value is reduced and the count reset to 0; take() reduces."""
    ctx.rule("WINDOW: in each Accumulator::multiply_accumulate: products (value += a*b) dominate the single `count += 1`, which dominates the test `count == REDUCE_INTERVAL`; on its true edge value is reduced (truncate_from) and count := 0; so a window never holds more than REDUCE_INTERVAL products; take() returns truncate_from(value)")
    import vlib.flow as flow
    n = 0
    for path, b in sorted(facts.bodies.items()):
        if not re.match(r"^<ff::accumulator::Accumulator<.*> as ff::accumulator::MultiplyAccumulator(Array)?<.*>>::multiply_accumulate$", path):
            continue
        n += 1
        ctx.count(bodies=1)
        dom = b.dominators()
        tag = "array" if "MultiplyAccumulatorArray" in path else "scalar"
        prods = []
        for bb, t in b.calls():
            if (F.callee(t)[0] or "").endswith("AddAssign::add_assign") and "value" in flow.field_names_in(flow.expr_of(b, t["args"][0])):
                e = flow.expr_of(b, t["args"][1])
                if e[0] == "call" and e[1].endswith("Mul::mul"):
                    prods.append(bb)
        if not prods:
            # iterator form: `self.value.iter_mut().zip(..).for_each(|(acc, (l, r))| *acc += A::from(l) * A::from(r))`
            old_cd = flow.CLOSURE_DEFS
            flow.CLOSURE_DEFS = True
            try:
                for bb, t in b.calls():
                    if (F.callee(t)[0] or "").endswith("Iterator::for_each") and "value" in flow.field_names_in(flow.expr_of(b, t["args"][0], max_depth=12)) and "iter_mut" in str(flow.expr_of(b, t["args"][0], max_depth=12)):
                        cl = flow.expr_of(b, t["args"][1], max_depth=4)
                        cb = facts.bodies.get(cl[1][1]) if cl[0] == "agg" and isinstance(cl[1], tuple) else None
                        if cb is not None and any((F.callee(t2)[0] or "").endswith("AddAssign::add_assign") and "('arg', 2" in str(flow.expr_of(cb, t2["args"][0], max_depth=8)) and "Mul::mul" in str(flow.expr_of(cb, t2["args"][1], max_depth=8)) for _, t2 in cb.calls()):
                            prods.append(bb)
            finally:
                flow.CLOSURE_DEFS = old_cd
        incs, resets, reduces = [], [], []
        for bb, idx, st in b.iter_assigns():
            last = st["p"][-1] if len(st["p"]) > 1 else None
            if isinstance(last, list) and last[0] == "f" and len(last) > 2 and last[2] == "count":
                e = flow.expr_of(b, st["r"]["o"]) if st["r"]["k"] == "use" else ("?",)
                if e[0] == "bin" and e[1] == "Add" and ("const", 1) in (e[2], e[3]) and "count" in flow.field_names_in(e):
                    incs.append(bb)
                elif e == ("const", 0):
                    resets.append(bb)
                else:
                    ctx.ob("WINDOW", f"{tag}:count-write", False, f"count := {str(e)[:100]} (neither +1 nor reset to 0)", site_of(b, bb, idx))
            if isinstance(last, list) and last[0] == "f" and len(last) > 2 and last[2] == "value":
                e = str(flow.expr_of(b, st["r"]["o"])) if st["r"]["k"] == "use" else ""
                if "truncate_from" in e or "from_fn" in e:
                    reduces.append(bb)
        test = None
        for bb in sorted(b.live_blocks()):
            t = b.term(bb)
            if t["k"] == "switch":
                e = flow.expr_of(b, t["o"])
                if e[0] == "bin" and "count" in flow.field_names_in(e) and "REDUCE_INTERVAL" in str(e):
                    test = (bb, e, flow.switch_edges(b, bb))
        ok1 = len(incs) == 1 and bool(prods) and all(flow.dominates(dom, pb, incs[0]) or _loop_before(b, pb, incs[0]) for pb in prods)
        ctx.ob("WINDOW", f"{tag}:product-before-increment", ok1, "each call adds its product and then counts it" if ok1 else "a product is added to the accumulator after / independently of the count increment: a window can hold more than REDUCE_INTERVAL products and overflow the accumulator", site_of(b, prods[0]) if prods else site_of(b))
        rets = [x for x in b.live_blocks() if b.term(x)["k"] == "ret"]
        ok2 = len(incs) == 1 and all(flow.dominates(dom, incs[0], r) for r in rets)
        ctx.ob("WINDOW", f"{tag}:increment-once-on-every-path", ok2, "count += 1 exactly once per call" if ok2 else f"count is incremented {len(incs)} times / not on every path", site_of(b, incs[0]) if incs else site_of(b))
        # `count == I` and `count != I` (with the branches swapped) are the same test: work with the edge on which they are equal
        eq_edge = ne_edge = None
        if test is not None and test[2] is not None and test[1][1] in ("Eq", "Ne"):
            ne_edge, eq_edge = test[2] if test[1][1] == "Eq" else (test[2][1], test[2][0])
        ok3 = test is not None and test[1][1] in ("Eq", "Ne") and bool(incs) and flow.dominates(dom, incs[0], test[0])
        ctx.ob("WINDOW", f"{tag}:test-eq-after-increment", ok3, "reduction is triggered when count == REDUCE_INTERVAL, tested after the increment" if ok3 else (f"reduction test is `{test[1][1]}` / not after the increment" if test else "no comparison of count with REDUCE_INTERVAL"), site_of(b, test[0]) if test else site_of(b))
        ok4 = eq_edge is not None and bool(resets) and bool(reduces) and all(flow.dominates(dom, eq_edge, x) for x in resets + reduces) and all(x not in b.reachable(ne_edge) or flow.dominates(dom, eq_edge, x) for x in resets + reduces) \
            and all(any(x in b.reachable(eq_edge, avoid=frozenset()) for x in xs) for xs in (resets, reduces)) and not _returns_avoiding(b, eq_edge, resets) and not _returns_avoiding(b, eq_edge, reduces)
        ctx.ob("WINDOW", f"{tag}:reduce-and-reset-on-true-edge", ok4, "value is reduced and count reset to 0 exactly when the interval is full" if ok4 else "the reduction / reset is not tied to the `count == REDUCE_INTERVAL` edge", site_of(b, test[0]) if test else site_of(b))
        tk = facts.bodies.get(path.replace("::multiply_accumulate", "::take"))
        if tk is None:
            ctx.missing("WINDOW", path.replace("::multiply_accumulate", "::take"))
        else:
            txt = str(flow.expr_of(tk, {"cp": [0]}))
            clos = [c for c in facts.tree(tk.root) if c.kind == "Closure"]
            okt = "truncate_from" in txt or any(flow.find_calls(c, re.compile(r"truncate_from$")) for c in clos)
            ctx.ob("WINDOW", f"{tag}:take-reduces", okt, "take() reduces the accumulated value", site_of(tk))
    ctx.floor("WINDOW", "deferred-reduction multiply_accumulate bodies", n, 2)


def _returns_avoiding(b, start, blocks):
    """a return reachable from `start` without passing any of `blocks`"""
    if start in blocks:
        return False
    r = b.reachable(start, avoid=frozenset(blocks))
    return any(b.term(x)["k"] == "ret" for x in r)


def _loop_before(b, pb, inc):
    """product block inside a loop whose only exit leads to the increment: every path from entry to `inc`
    passes the loop header, and `inc` is not reachable from entry while avoiding the loop (the per-element loop
    runs to completion before counting)."""
    if inc not in b.reachable(pb):
        return False
    # the product must not be reachable from the increment (i.e. it is not after it)
    return pb not in b.reachable(inc)
